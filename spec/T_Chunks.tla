------------------------------ MODULE T_Chunks ------------------------------
\* Model side of the chunking refinement: for every recorded translate_search call TLC computes, from the projected token
\* flags of each sentence, the chunks SearchChunks.tla says are formed, and prints them; the harness renders them with
\* the sentence's original tokens and compares with the substrings the code produced.
EXTENDS SearchChunks, Json, IOUtils, TLC

Tr == ndJsonDeserialize(IOEnv.TRACE_FILE)
VARIABLE l
Emit(r) == PrintT(<<"CHUNKS", r.tid, [s \in 1..Len(r.sents) |-> Chunks(r.sents[s].t, r.jointOK)]>>)
TInit == l = 0
TNext == l < Len(Tr) /\ l' = l + 1 /\ Emit(Tr[l + 1])
TSpec == TInit /\ [][TNext]_l
Consumed == PrintT(<<"CONSUMED", TLCGet("stats").diameter - 1, Len(Tr)>>)
=============================================================================
