------------------------------- MODULE T_C19 -------------------------------
(* Trace validation for C19: every recorded execution of the real loader (events open_r, load,       *)
(* rebuild, open_w, write, close, crash -- logged by runtime probes around `open` and `pickle`) must  *)
(* be a behaviour of TzCache, and the property's invariants are evaluated in every state of it.      *)
(* Each trace is explored from its own initial state (its recorded initial file class).             *)
EXTENDS TzCache, Json, IOUtils

Tr == ndJsonDeserialize(IOEnv.TRACE_FILE)
VARIABLES t, l
tvars == <<vars, t, l>>

ProcOf(name) == CHOOSE p \in Procs : ToString(p) = name

TInit == /\ \E k \in 1..Len(Tr) : t = k
         /\ l = 1
         /\ file = FileOf(Tr[t].init)
         /\ pc = [p \in Procs |-> "idle"]
         /\ table = [p \in Procs |-> "none"]
         /\ wr = [p \in Procs |-> 0]
         /\ exc = [p \in Procs |-> ""]

Ev == Tr[t].ev[l]
IsEv(name) == l <= Len(Tr[t].ev) /\ Ev.ev = name /\ l' = l + 1 /\ t' = t

TOpenRead == IsEv("open_r") /\ OpenRead(ProcOf(Ev.p)) /\ (Ev.ok <=> file.exists)
TLoad == /\ IsEv("load") /\ Load(ProcOf(Ev.p))
         /\ IF Ev.cls = "" THEN pc'[ProcOf(Ev.p)] = "done"
            ELSE \/ (pc'[ProcOf(Ev.p)] = "rebuild" /\ Ev.cls \in LoadOutcomes(file))
                 \/ (pc'[ProcOf(Ev.p)] = "failed" /\ exc'[ProcOf(Ev.p)] = Ev.cls)
TRebuild == IsEv("rebuild") /\ Rebuild(ProcOf(Ev.p))
TOpenW == IsEv("open_w") /\ OpenTruncate(ProcOf(Ev.p))
TWrite == IsEv("write") /\ WriteChunk(ProcOf(Ev.p))
TClose == IsEv("close") /\ Close(ProcOf(Ev.p))
TCrash == IsEv("crash") /\ Crash(ProcOf(Ev.p))

TNext == TOpenRead \/ TLoad \/ TRebuild \/ TOpenW \/ TWrite \/ TClose \/ TCrash
TSpec == TInit /\ [][TNext]_tvars

\* progress report: the harness takes the deepest position reached per trace
Progress == PrintT(<<"AT", Tr[t].tid, l - 1, Len(Tr[t].ev), ImportSucceeds, SameTable, RepairedAfterImport,
                     pc[ProcOf("i1")], Complete(file)>>)
Consumed == TRUE
=============================================================================
