----------------------------- MODULE CalParsers -----------------------------
(* The Jalali / Hijri calendar parsers (calendars/__init__.py:82-144): the token machine of the      *)
(* absolute parser (reused from AbsParser: same loop, same ordered numeric attempts under the module  *)
(* default order MDY) with the non-Gregorian acceptance and hand-off rules:                           *)
(*   - a day is accepted against the DEFAULT month's length, the real check happens at hand-off        *)
(*   - year, month, day are then converted with the reference conversion (constant of the case)        *)
(* Tokens are those of the string AFTER `to_latin` (month names in Latin spelling, Western digits).    *)
EXTENDS AbsParser

\* assignment of the three parts (module default DATE_ORDER = MDY)
CalAssign(T) == FillUnresolved(Consume(S0, T, Filter(T, 1), 1, Attempts("MDY")))

\* monthLen: length of the stated month in the stated year (exported from the converter)
\* ref: the reference conversion <<gy, gm, gd>> of the stated date
CalParse(T, defaultMonthLen, monthLen, ref) ==
  LET s == CalAssign(T) IN
  LET bad == [ok |-> FALSE, ymd |-> <<0, 0, 0>>, out |-> <<>>] IN
  IF s.err \/ s.day = 0 \/ s.month = 0 \/ s.year = 0 THEN bad
  ELSE IF s.tokDay.k = "n" /\ s.tokDay.val > defaultMonthLen THEN bad        \* %d is checked against the default month
  ELSE IF s.day > monthLen THEN bad
  ELSE LET tv == IF s.time = <<>> THEN <<0, 0, 0, 0>> ELSE TimeValue(s.time) IN
       IF tv = Fail THEN bad
       ELSE [ok |-> TRUE, ymd |-> <<s.year, s.month, s.day>>, out |-> <<ref[1], ref[2], ref[3], tv[1], tv[2], tv[3], tv[4]>>]
=============================================================================
