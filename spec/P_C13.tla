------------------------------- MODULE P_C13 -------------------------------
(* E1 for C13: every assignment of (applicable, parses, result) to up to four requested languages    *)
(* and up to two default languages: the loop returns what the statement demands.                     *)
EXTENDS Pipeline

Lang(id, a, o, r) == [id |-> id, app |-> a, ok |-> o, res |-> r]
VARIABLE c
Init == c = [stage |-> 0]
Abs == {<<a, o>> : a \in BOOLEAN, o \in BOOLEAN}
Pick1 == c.stage = 0 /\ \E n \in 1..4, nd \in 0..2 : c' = [stage |-> 1, n |-> n, nd |-> nd]
Pick2 == /\ c.stage = 1
         /\ \E f \in [1..c.n -> Abs], g \in [1..c.nd -> Abs], rs \in [1..(c.n + c.nd) -> 1..2] :
              c' = [stage |-> 2,
                    req |-> [i \in 1..c.n |-> Lang(i, f[i][1], f[i][2], rs[i])],
                    def |-> [j \in 1..c.nd |-> Lang(c.n + j, g[j][1], g[j][2], rs[c.n + j])]]
Next == Pick1 \/ Pick2
Spec == Init /\ [][Next]_c

\* the reported locale is one of the requested languages, or (only when none of them succeeds) a default one
ReportedLocaleSelected ==
  c.stage = 2 =>
    LET r == Loop(c.req, c.def) IN
    /\ r.loc # 0 => (\E i \in 1..Len(c.req) : c.req[i].id = r.loc) \/ (\E j \in 1..Len(c.def) : c.def[j].id = r.loc)
    /\ (\E i \in 1..Len(c.req) : Single(c.req[i]) # NoResult) => (\E i \in 1..Len(c.req) : c.req[i].id = r.loc)
\* the result is that of the first language, in the order tried, whose single-language run succeeds
FirstSuccessfulWins ==
  c.stage = 2 =>
    LET r == Loop(c.req, <<>>) IN
    IF \E i \in 1..Len(c.req) : Single(c.req[i]) # NoResult
      THEN LET k == CHOOSE i \in 1..Len(c.req) : Single(c.req[i]) # NoResult /\ \A j \in 1..(i-1) : Single(c.req[j]) = NoResult
           IN r = Single(c.req[k])
      ELSE r = NoResult
\* default languages never change a result the selected languages already produce
DefaultsNeverOverride ==
  c.stage = 2 => (Loop(c.req, <<>>) # NoResult => Loop(c.req, c.def) = Loop(c.req, <<>>))
=============================================================================
