------------------------------- MODULE O_C08 -------------------------------
(* C08 - missing day / month are completed exactly as configured; the period is truthful.          *)
(* Oracle written from the statement.  parts \in {"my", "y", "full"}.                               *)
EXTENDS Calendar

Clamp(d, y, m) == IF d > DIM(y, m) THEN DIM(y, m) ELSE d
PickMonth(pmoy, ref) == CASE pmoy = "first" -> 1 [] pmoy = "last" -> 12 [] OTHER -> ref[2]
PickDay(pdom, y, m, ref) == CASE pdom = "first" -> 1 [] pdom = "last" -> DIM(y, m) [] OTHER -> Clamp(ref[3], y, m)

\* ref: the reference date the "current" preferences read (RELATIVE_BASE for the absolute parser, the
\* system clock for the custom-format parser)
Complete(parts, y, m, d, tm, pdom, pmoy, ref) ==
  IF parts = "full" THEN <<y, m, d, tm[1], tm[2], tm[3], 0>>
  ELSE IF parts = "my" THEN <<y, m, PickDay(pdom, y, m, ref), 0, 0, 0, 0>>
  ELSE LET mm == PickMonth(pmoy, ref) IN <<y, mm, PickDay(pdom, y, mm, ref), 0, 0, 0, 0>>

PeriodOf(parts, hasTime, rtap) ==
  IF parts = "my" THEN "month" ELSE IF parts = "y" THEN "year"
  ELSE IF hasTime /\ rtap THEN "time" ELSE "day"

InDomain(parts, y, m, d, pdom, pmoy) ==
  /\ parts \in {"my", "y", "full"} /\ y \in 1..9999 /\ m \in 1..12
  /\ pdom \in {"first", "last", "current"} /\ pmoy \in {"first", "last", "current"}
  /\ (parts = "full" => ValidDate(y, m, d))
=============================================================================
