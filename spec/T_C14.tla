------------------------------- MODULE T_C14 -------------------------------
(* Trace validation for C14: property-on-trace against O_C14 (bracketed clock: today0 / today1),     *)
(* refinement-on-trace against the machine of Formats.tla.                                          *)
EXTENDS O_C14, Formats, Json, IOUtils, TLC

Tr == ndJsonDeserialize(IOEnv.TRACE_FILE)
VARIABLE l

Raw(r) == <<IF r.fl.year THEN r.dt[1] ELSE 1900, IF r.fl.month THEN r.dt[2] ELSE 1, IF r.fl.day THEN r.dt[3] ELSE 1,
            IF r.fl.time THEN r.dt[4] ELSE 0, IF r.fl.min THEN r.dt[5] ELSE 0, IF r.fl.sec THEN r.dt[6] ELSE 0,
            IF r.fl.us THEN r.dt[7] ELSE 0>>
Model(r, today) == FmtComplete([day |-> r.fl.day, month |-> r.fl.month, year |-> r.fl.year], Raw(r),
                               [pdom |-> r.pdom, pmoy |-> r.pmoy], today)
PropVerdict(r) ==
  IF r.today0 # r.today1 \/ ~InDomain(r.fl, r.dt, r.pdom, r.pmoy, r.today0) THEN "skip"
  ELSE IF r.exc # "" THEN "exception"
  ELSE IF r.out # Expected(r.fl, r.dt, r.pdom, r.pmoy, r.today0) THEN "wrong-datetime"
  ELSE IF r.period # ExpectedPeriod(r.fl) THEN "wrong-period"
  ELSE "ok"
Check(r) ==
  LET v == PropVerdict(r) IN
  /\ (IF v = "skip" THEN PrintT(<<"SKIP", r.tid, "prop">>)
      ELSE IF v # "ok" THEN PrintT(<<"REJECT", r.tid, "prop", v, <<Expected(r.fl, r.dt, r.pdom, r.pmoy, r.today0), ExpectedPeriod(r.fl)>>>>)
      ELSE TRUE)
  /\ (IF v # "skip" /\ r.exc = "" /\ r.out # None /\ Model(r, r.today0).out # r.out
        THEN PrintT(<<"REJECT", r.tid, "abs", "drift", Model(r, r.today0)>>) ELSE TRUE)

TInit == l = 0
TNext == l < Len(Tr) /\ l' = l + 1 /\ Check(Tr[l + 1])
TSpec == TInit /\ [][TNext]_l
Consumed == PrintT(<<"CONSUMED", TLCGet("stats").diameter - 1, Len(Tr)>>)
=============================================================================
