------------------------------- MODULE O_C10 -------------------------------
(* C10 - strictness only filters; strict results never borrow from the clock.                       *)
(* Relational oracle over the outcomes of ONE input under several configurations:                   *)
(*   outN  = strict off, base b1          outS / outS2 = STRICT_PARSING on, bases b1 / b2            *)
(*   outR / outR2 = REQUIRE_PARTS = R, bases b1 / b2                                                *)
(* Domain: PREFER_DATES_FROM at its default (a stated two-digit year is still pivoted by the clock   *)
(* under past / future).                                                                            *)
EXTENDS Calendar, FiniteSets

AllParts == {"day", "month", "year"}
PartOf(dt, p) == CASE p = "year" -> dt[1] [] p = "month" -> dt[2] [] p = "day" -> dt[3]

StrictFilters(outN, outS) == outS = None \/ outS = outN
ClockFree(outS, outS2) == outS = outS2
\* only for inputs whose stated parts are known (generated cases) and for the absolute parser
StatesAll(outS, present) == outS # None => AllParts \subseteq present

RequireFilters(outN, outR) == outR = None \/ outR = outN
RequireClockFree(outR, outR2, R) ==
  (outR # None /\ outR2 # None) => \A p \in R : PartOf(outR, p) = PartOf(outR2, p)
RequireStates(outR, present, R) == outR # None => R \subseteq present
=============================================================================
