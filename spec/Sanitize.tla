------------------------------ MODULE Sanitize ------------------------------
(* `sanitize_date` / `sanitize_spaces` (date.py:35-59,130-144) on CHARACTER-CLASS strings.  A string is *)
(* a sequence over the classes                                                                        *)
(*   "D" ASCII digit   "N" other Unicode decimal digit   "S" space   "W" tab / newline / CR            *)
(*   "B" no-break space   "P" '.'   "C" ':'   "L" letter   "O" other printable                          *)
(*   "U" the letter u / U (the Croatian "at" that RE_SANITIZE_CROATIAN removes after a dotted date)      *)
(*   "G" the Cyrillic letter ge (the Russian year mark that RE_SANITIZE_RUSSIAN removes: "2015 g.")      *)
(* One operator per regex step, in code order.  `AsciiOnlyDigits` = TRUE is the pinned design, whose     *)
(* period rule uses [^0-9\s]; FALSE is the repaired rule [^\d\s].                                       *)
EXTENDS Naturals, Sequences

CONSTANT AsciiOnlyDigits
\* TRUE: RE_TRIM_SPACES of the pinned tree, ^\s+(\S.*?)\s+$ - trims only when BOTH ends carry whitespace, so a trailing colon
\* followed by whitespace (and no leading whitespace) is still followed by whitespace when RE_TRIM_COLONS looks at the end.
\* FALSE: the repaired rule ^\s*(\S.*?)\s*$ - either end alone is trimmed.
CONSTANT TrimNeedsBothEnds
Classes == {"D", "N", "S", "W", "B", "P", "C", "L", "O", "U", "G"}
IsWs(c) == c \in {"S", "W", "B"}          \* Python's \s matches NBSP too
IsDigit(c) == c \in {"D", "N"}            \* \d with re.UNICODE

\* RE_SANITIZE_SKIP: tab / newline / CR -> space
Subst(s, from, to) == [i \in 1..Len(s) |-> IF s[i] = from THEN to ELSE s[i]]
SkipStep(s) == Subst(s, "W", "S")

\* RE_SANITIZE_RUSSIAN: ([\W\d])g\.  ->  \1 and one space: the year mark after a non-word character or a digit (not the last
\* letter of a word).  Non-overlapping, left to right: the character that licenses a match is consumed by it.
NonWordOrDigit(c) == c \in {"S", "W", "B", "P", "C", "O", "D", "N"}
RECURSIVE RussianFrom(_, _)
RussianFrom(s, i) == IF i > Len(s) THEN <<>>
                     ELSE IF i + 2 <= Len(s) /\ NonWordOrDigit(s[i]) /\ s[i + 1] = "G" /\ s[i + 2] = "P"
                            THEN <<s[i], "S">> \o RussianFrom(s, i + 3)
                            ELSE <<s[i]>> \o RussianFrom(s, i + 1)
RussianStep(s) == RussianFrom(s, 1)

\* RE_SANITIZE_CROATIAN: (\d+)\.\s*(\d+)\.\s*(\d+)\.(\s+u)?  ->  \1.\2.\3 followed by one space.  It runs BEFORE the whitespace is
\* normalised, so what it accepts between its parts is part of the design: CroatStrict = TRUE is the pinned pattern
\* (at most ONE blank between the numbers, exactly ' u'), FALSE the repaired one (any run of blanks).
\* Leftmost match, the scan goes on behind it; \d+ is greedy and is followed by a literal '.', so a match can only begin
\* at the first digit of a run (a later digit of the same run matches exactly when the first does).
CONSTANT CroatStrict
\* the first position behind the run of blanks / of digits that starts at i
RECURSIVE WsRunEnd(_, _)
WsRunEnd(s, i) == IF i <= Len(s) /\ IsWs(s[i]) THEN WsRunEnd(s, i + 1) ELSE i
RECURSIVE DigitRunEnd(_, _)
DigitRunEnd(s, i) == IF i <= Len(s) /\ IsDigit(s[i]) THEN DigitRunEnd(s, i + 1) ELSE i
\* behind the optional blanks between two parts (pinned: at most one)
GapEnd(s, i) == IF CroatStrict THEN (IF i <= Len(s) /\ IsWs(s[i]) THEN i + 1 ELSE i) ELSE WsRunEnd(s, i)
\* Num-dot from i: position behind "digits ." or 0
NumDot(s, i) == LET e == DigitRunEnd(s, i) IN IF e > i /\ e <= Len(s) /\ s[e] = "P" THEN e + 1 ELSE 0
\* the optional " u": pinned exactly one ASCII space, repaired one or more blanks
UEnd(s, i) == IF CroatStrict THEN (IF i + 1 <= Len(s) /\ s[i] = "S" /\ s[i + 1] = "U" THEN i + 2 ELSE i)
              ELSE LET e == WsRunEnd(s, i) IN IF e > i /\ e <= Len(s) /\ s[e] = "U" THEN e + 1 ELSE i
\* a match starting at i: <<end, replacement>> or <<0, <<>>>>
CroatAt(s, i) ==
  LET a == NumDot(s, i) IN IF a = 0 THEN <<0, <<>>>> ELSE
  LET b == NumDot(s, GapEnd(s, a)) IN IF b = 0 THEN <<0, <<>>>> ELSE
  LET c == NumDot(s, GapEnd(s, b)) IN IF c = 0 THEN <<0, <<>>>> ELSE
  LET g2 == GapEnd(s, a)  g3 == GapEnd(s, b)
      n1 == SubSeq(s, i, a - 1)  n2 == SubSeq(s, g2, b - 1)  n3 == SubSeq(s, g3, c - 2)
  IN <<UEnd(s, c), n1 \o n2 \o n3 \o <<"S">>>>
RECURSIVE CroatFrom(_, _)
CroatFrom(s, i) == IF i > Len(s) THEN <<>>
                   ELSE LET m == IF IsDigit(s[i]) THEN CroatAt(s, i) ELSE <<0, <<>>>> IN
                        IF m[1] # 0 THEN m[2] \o CroatFrom(s, m[1])
                        ELSE <<s[i]>> \o CroatFrom(s, i + 1)
CroatStep(s) == CroatFrom(s, 1)

\* sanitize_spaces: NBSP -> space; \s+ -> one space; trim (pinned: only when BOTH ends carry whitespace)
NbspStep(s) == Subst(s, "B", "S")
RECURSIVE Squeeze(_)
Squeeze(s) == IF Len(s) < 2 THEN (IF s = <<"W">> THEN <<"S">> ELSE s)
              ELSE IF IsWs(s[1]) /\ IsWs(s[2]) THEN Squeeze(<<"S">> \o Tail(Tail(s)))
              ELSE <<IF IsWs(s[1]) THEN "S" ELSE s[1]>> \o Squeeze(Tail(s))
TrimBoth(s) == IF Len(s) >= 3 /\ IsWs(s[1]) /\ IsWs(s[Len(s)]) /\ ~IsWs(s[2])
                 THEN SubSeq(s, 2, Len(s) - 1) ELSE s
\* (the repaired pattern needs one non-blank character; both ends are at most one space wide after Squeeze)
TrimEither(s) == IF ~(\E i \in 1..Len(s) : ~IsWs(s[i])) THEN s
                 ELSE LET a == IF IsWs(s[1]) THEN 2 ELSE 1
                          b == IF IsWs(s[Len(s)]) THEN Len(s) - 1 ELSE Len(s)
                      IN SubSeq(s, a, b)
SpacesStep(s) == IF TrimNeedsBothEnds THEN TrimBoth(Squeeze(NbspStep(s))) ELSE TrimEither(Squeeze(NbspStep(s)))

\* RE_SANITIZE_PERIOD: a '.' preceded by a character that is neither a digit nor whitespace is removed
PeriodDigit(c) == IF AsciiOnlyDigits THEN c = "D" ELSE IsDigit(c)
RECURSIVE PeriodFrom(_, _)
PeriodFrom(s, i) == IF i > Len(s) THEN <<>>
                    ELSE IF s[i] = "P" /\ i > 1 /\ ~PeriodDigit(s[i - 1]) /\ ~IsWs(s[i - 1]) THEN PeriodFrom(s, i + 1)
                    ELSE <<s[i]>> \o PeriodFrom(s, i + 1)
PeriodStep(s) == PeriodFrom(s, 1)

\* RE_TRIM_COLONS: (\S.*?):*$  -- trailing colons go when nothing follows them
RECURSIVE DropTrailingColons(_)
DropTrailingColons(s) == IF s # <<>> /\ s[Len(s)] = "C" THEN DropTrailingColons(SubSeq(s, 1, Len(s) - 1)) ELSE s
HasNonWs(s) == \E i \in 1..Len(s) : ~IsWs(s[i])
FirstNonWs(s) == CHOOSE i \in 1..Len(s) : ~IsWs(s[i]) /\ \A j \in 1..(i - 1) : IsWs(s[j])
ColonStep(s) ==
  IF ~HasNonWs(s) THEN s
  ELSE LET r == DropTrailingColons(s)  f == FirstNonWs(s) IN
       \* the group (\S.*?) keeps at least the first non-blank character, even if that is a colon
       IF Len(r) >= f THEN r ELSE SubSeq(s, 1, f)

RECURSIVE LStrip(_)
LStrip(s) == IF s # <<>> /\ IsWs(s[1]) THEN LStrip(Tail(s)) ELSE s
RECURSIVE RStrip(_)
RStrip(s) == IF s # <<>> /\ IsWs(s[Len(s)]) THEN RStrip(SubSeq(s, 1, Len(s) - 1)) ELSE s
StripStep(s) == LStrip(RStrip(s))

San(s) == StripStep(ColonStep(PeriodStep(SpacesStep(CroatStep(RussianStep(SkipStep(s)))))))

\* numeral translation (locale.py:154-159) happens later: other decimal digits become ASCII digits
Num(s) == Subst(s, "N", "D")
=============================================================================
