------------------------------ MODULE T_Loader ------------------------------
\* Refinement-on-trace of the locale loader: every `_load_data` call a worker process made, in order, with its
\* arguments and the locales it yielded (name + which language's data is behind the object, as a set of candidates
\* from a fingerprint of the data).  The model replays the calls on its own cache.  The first record of the file is
\* a header with the language priority order and the valid regional names (exported from the tree's data).
EXTENDS Naturals, Sequences, FiniteSets, Json, IOUtils, TLC

Tr == ndJsonDeserialize(IOEnv.TRACE_FILE)
Hdr == Tr[1]
Range(f) == {f[k] : k \in DOMAIN f}
L == INSTANCE LoaderOps WITH Paired <- TRUE, Order <- Hdr.order, ValidLocales <- {<<x[1], x[2]>> : x \in Range(Hdr.locales)}
VARIABLE l

Nm(x) == <<x[1], x[2]>>
PlanOf(e) == IF e.kind = "locales" THEN L!PlanFromLocales([i \in 1..Len(e.names) |-> Nm(e.names[i])], e.given)
             ELSE L!Plan(e.ls, e.r, e.given)
Rejected(e) == IF e.kind = "locales" THEN L!LocalesRejected([i \in 1..Len(e.names) |-> Nm(e.names[i])], e.allow)
               ELSE L!LanguagesRejected(e.ls)
Agrees(exp, out) == /\ Len(exp) = Len(out)
                    /\ \A i \in 1..Len(exp) : exp[i][1] = Nm(out[i][1]) /\ exp[i][2] \in Range(out[i][2])
RECURSIVE Walk(_, _, _)
Walk(tr, c, i) ==
  IF i > Len(tr.ev) THEN TRUE
  ELSE LET e == tr.ev[i] IN
       IF Rejected(e)
         THEN /\ (IF e.err = "ValueError" THEN TRUE ELSE PrintT(<<"REJECT", tr.tid, "abs", i, <<"ValueError expected">>>>))
              /\ Walk(tr, c, i + 1)
         ELSE LET plan == PlanOf(e)
                  k == IF Len(e.out) < Len(plan) THEN Len(e.out) ELSE Len(plan)        \* the generator may be abandoned early
                  pre == SubSeq(plan, 1, k)
                  exp == L!Yielded(c, pre) IN
              /\ (IF e.err = "" /\ Agrees(exp, e.out) THEN TRUE ELSE PrintT(<<"REJECT", tr.tid, "abs", i, exp>>))
              /\ Walk(tr, L!Fill(c, pre, 1), i + 1)
Check(tr) == Walk(tr, [n \in {} |-> ""], 1)

TInit == l = 1
TNext == l < Len(Tr) /\ l' = l + 1 /\ Check(Tr[l + 1])
TSpec == TInit /\ [][TNext]_l
Consumed == PrintT(<<"CONSUMED", TLCGet("stats").diameter - 1, Len(Tr) - 1>>)
=============================================================================
