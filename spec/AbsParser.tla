---------------------------- MODULE AbsParser ----------------------------
(* The absolute-date parser of dateparser (`_parser`, parser.py:241-695, `time_parser`            *)
(* parser.py:77-100, the %f recovery of utils/strptime.py) as a token-consuming machine over       *)
(* abstract tokens.  One operator per implementation step, in code order:                          *)
(*   Consume (the loop of `__init__`: TimeTok / NumTok / AlphaTok), FillUnresolved, Results,       *)
(*   TimeFrame, MonthFix, DayFix, Period.                                                          *)
(*                                                                                                 *)
(* An abstract token is what the real tokenizer yields after translation to English, classified:   *)
(*   [k |-> "n", len, val]                 digits only                                             *)
(*   [k |-> "c", parts |-> <<<<len,val>>..>>]   digits with colons ("10:30:15")                    *)
(*   [k |-> "a", cls \in {"month","weekday","skip","other"}, val, mer \in {"", "am", "pm"}]        *)
(*   [k |-> "s", isdot, hasdot]            anything else (type 2)                                  *)
(* Settings sg: [order, pdf, pdom, pmoy, base (7-tuple), strict, require (set), rtap, tzoff]       *)
EXTENDS Calendar, FiniteSets, TLC

Fail == <<"fail">>
Overflow == <<"overflow">>

Tok(k, len, val, cls, mer, parts, isdot, hasdot) ==
  [k |-> k, len |-> len, val |-> val, cls |-> cls, mer |-> mer, parts |-> parts,
   isdot |-> isdot, hasdot |-> hasdot]
NumT(len, val)  == Tok("n", len, val, "", "", <<>>, FALSE, FALSE)
ColT(parts)     == Tok("c", 0, 0, "", "", parts, FALSE, FALSE)
MonthT(m)       == Tok("a", 0, m, "month", "", <<>>, FALSE, FALSE)
WeekdayT(w)     == Tok("a", 0, w, "weekday", "", <<>>, FALSE, FALSE)
MerT(mer)       == Tok("a", 0, 0, "other", mer, <<>>, FALSE, FALSE)
SkipT           == Tok("a", 0, 0, "skip", "", <<>>, FALSE, FALSE)
SepT(isdot)     == Tok("s", 0, 0, "", "", <<>>, isdot, isdot)
NoTok           == Tok("-", 0, 0, "", "", <<>>, FALSE, FALSE)

\* ------------------------------------------------------------------ strptime on numeric tokens
Acc(t, dir) ==
  /\ t.k = "n"
  /\ CASE dir = "d" -> t.len <= 2 /\ t.val >= 1 /\ t.val <= 31
       [] dir = "m" -> t.len <= 2 /\ t.val >= 1 /\ t.val <= 12
       [] dir = "y" -> t.len = 2
       [] dir = "Y" -> t.len = 4 /\ t.val >= 1
       [] OTHER -> FALSE
ValOf(t, dir) == IF dir = "y" THEN (IF t.val >= 69 THEN 1900 + t.val ELSE 2000 + t.val) ELSE t.val

\* resolve_date_order(order, lst=True) flattened with num_directives: <<component, directive>>
CompOf(ch) == CASE ch = "D" -> "day" [] ch = "M" -> "month" [] ch = "Y" -> "year"
OrderLetters(order) ==
  CASE order = "DMY" -> <<"D", "M", "Y">> [] order = "DYM" -> <<"D", "Y", "M">>
    [] order = "MDY" -> <<"M", "D", "Y">> [] order = "MYD" -> <<"M", "Y", "D">>
    [] order = "YDM" -> <<"Y", "D", "M">> [] order = "YMD" -> <<"Y", "M", "D">>
DirsOf(ch) == CASE ch = "D" -> <<"d">> [] ch = "M" -> <<"m">> [] ch = "Y" -> <<"y", "Y">>
RECURSIVE FlattenAttempts(_, _)
FlattenAttempts(letters, i) ==
  IF i > Len(letters) THEN <<>>
  ELSE [j \in 1..Len(DirsOf(letters[i])) |-> <<CompOf(letters[i]), DirsOf(letters[i])[j]>>]
       \o FlattenAttempts(letters, i + 1)
Attempts(order) == FlattenAttempts(OrderLetters(order), 1)

\* ------------------------------------------------------------------ machine state
S0 == [day |-> 0, month |-> 0, year |-> 0, wd |-> -1,
       tokDay |-> NoTok, tokMonth |-> NoTok, tokYear |-> NoTok, hasWd |-> FALSE,
       yearTok2 |-> FALSE,                \* len(_token_year[0]) = 2
       time |-> <<>>,                     \* <<>> or [parts, micro, mer]
       auto |-> <<>>, unset |-> <<>>, skipIdx |-> {}, skipYear |-> FALSE, err |-> FALSE]

GetVal(s, c) == CASE c = "day" -> s.day [] c = "month" -> s.month [] c = "year" -> s.year
GetTok(s, c) == CASE c = "day" -> s.tokDay [] c = "month" -> s.tokMonth [] c = "year" -> s.tokYear

SetComp(s, c, v, t) ==
  CASE c = "day"   -> [s EXCEPT !.day = v, !.tokDay = t]
    [] c = "month" -> [s EXCEPT !.month = v, !.tokMonth = t]
    [] c = "year"  -> [s EXCEPT !.year = v, !.tokYear = t, !.yearTok2 = (t.k = "n" /\ t.len = 2),
                                !.skipYear = @ \/ (t.k = "n" /\ t.len = 4)]

\* parse_number (parser.py:637-664)
RECURSIVE NumFrom(_, _, _, _)
NumFrom(s, t, att, k) ==
  IF k > Len(att) THEN [s EXCEPT !.err = TRUE]
  ELSE LET c == att[k][1]  dir == att[k][2] IN
    IF (c = "year" /\ s.skipYear) \/ ~Acc(t, dir) THEN NumFrom(s, t, att, k + 1)
    ELSE IF GetVal(s, c) = 0
      THEN [SetComp(s, c, ValOf(t, dir), t) EXCEPT !.auto = Append(@, c)]
      ELSE LET pt == GetTok(s, c) IN
           IF pt.k = "n" /\ ~Acc(pt, dir)     \* the previous token of c does not fit: displaced
             THEN [SetComp(s, c, ValOf(t, dir), t) EXCEPT !.auto = Append(@, c),
                                                          !.unset = Append(@, pt)]
             ELSE NumFrom(s, t, att, k + 1)

IndexOf(seq, x) == IF \E i \in 1..Len(seq) : seq[i] = x
                   THEN CHOOSE i \in 1..Len(seq) : seq[i] = x /\ \A j \in 1..(i-1) : seq[j] # x
                   ELSE 0

\* parse_alpha (parser.py:666-692)
AlphaTok(s, t) ==
  IF t.cls = "weekday" THEN
       IF s.hasWd THEN [s EXCEPT !.err = TRUE]
       ELSE [s EXCEPT !.wd = t.val, !.hasWd = TRUE]
  ELSE IF t.cls = "month" THEN
       IF s.month = 0 THEN [s EXCEPT !.month = t.val, !.tokMonth = t]
       ELSE LET i == IndexOf(s.auto, "month") IN
            IF i = 0 THEN [s EXCEPT !.err = TRUE]       \* earlier month was a name too
            ELSE [s EXCEPT !.auto[i] = "day", !.tokDay = s.tokMonth, !.tokMonth = t,
                           !.day = s.month, !.month = t.val]
  ELSE [s EXCEPT !.err = TRUE]

\* ------------------------------------------------------------------ the time token (parser.py:294-362)
IsN(t) == t.k = "n"
HourMinuteMerge(t, nx) == /\ IsN(t) /\ t.len <= 2 /\ t.val <= 23 /\ (t.len = 1 => t.val <= 9)
                          /\ IsN(nx) /\ nx.len = 2 /\ nx.val <= 59

RECURSIVE Pow10(_)
Pow10(n) == IF n = 0 THEN 1 ELSE 10 * Pow10(n - 1)
\* MICROSECOND.search(next).group(): the first run of at most six digits of the next token
First6(len, val) == IF len <= 6 THEN <<len, val>> ELSE <<6, val \div Pow10(len - 6)>>
MicroOf(nx) == IF nx.k = "n" THEN First6(nx.len, nx.val)
               \* (a colon token after the point, '15.12345610:0': the digits before its first colon)
               ELSE IF nx.k = "c" /\ Len(nx.parts) > 0 THEN First6(nx.parts[1][1], nx.parts[1][2]) ELSE <<>>

\* F: filtered tokens (type <= 1) with F[i].o = index in the full list T
TimeStep(s, T, F, idx) ==
  LET ft   == F[idx]
      t0   == ft.t
      o    == ft.o
      beforeP == o + 1 <= Len(T) /\ T[o + 1].isdot
      afterP  == o > 1 /\ T[o - 1].isdot
      hasNext == idx + 1 <= Len(F)
      nxt  == IF hasNext THEN F[idx + 1].t ELSE NoTok
      nxtLast == idx + 1 = Len(F)
      merge == /\ beforeP /\ ~afterP /\ hasNext
               /\ (nxtLast \/ ~(F[idx + 1].o + 1 <= Len(T) /\ T[F[idx + 1].o + 1].isdot))
               /\ HourMinuteMerge(t0, nxt)
      tok  == IF merge THEN ColT(<<<<t0.len, t0.val>>, <<nxt.len, nxt.val>>>>) ELSE t0
      skip1 == IF merge THEN {idx + 1} ELSE {}
      mIdx1 == IF merge THEN idx + 2 ELSE idx + 1
      \* microsecond: needs ':' in the token, the token to be found in the token list (not a merged
      \* one) and the following raw token to contain '.'
      micro0 == IF hasNext THEN MicroOf(nxt) ELSE <<>>
      micro == IF micro0 # <<>> /\ tok.k = "c" /\ ~merge /\ o + 1 <= Len(T) /\ T[o + 1].hasdot
                 THEN micro0 ELSE <<>>
      mIdx == IF micro # <<>> THEN mIdx1 + 1 ELSE mIdx1
      mer  == IF mIdx <= Len(F) THEN F[mIdx].t.mer ELSE ""
      isTime == tok.k = "c" \/ mer # "" \/ micro # <<>>
      parts == IF tok.k = "c" THEN tok.parts
               ELSE IF tok.k = "n" THEN <<<<tok.len, tok.val>>>> ELSE <<<<-1, -1>>>>
      skips == skip1 \cup (IF micro # <<>> THEN {idx + 1} ELSE {})
                     \cup (IF mer # "" THEN {mIdx} ELSE {})
  IN [isTime |-> isTime,
      s |-> [s EXCEPT !.time = [parts |-> parts, micro |-> micro, mer |-> mer],
                      !.skipIdx = @ \cup skips]]

\* time_parser over the eight directives, strptime's %p hour rule, datetime() range check
PartOK(p, maxv) == p[1] >= 1 /\ p[1] <= 2 /\ p[2] >= 0 /\ p[2] <= maxv
IHourOK(p) == p[1] >= 1 /\ p[1] <= 2 /\ p[2] >= 1 /\ p[2] <= 12
ApplyMer(h, mer) == IF mer = "am" THEN (IF h = 12 THEN 0 ELSE h)
                    ELSE IF mer = "pm" THEN (IF h # 12 THEN h + 12 ELSE h) ELSE h
PadMicro(mc) == mc[2] * Pow10(6 - mc[1])
TimeValue(tt) ==
  LET P == tt.parts  n == Len(P)  mc == tt.micro  mer == tt.mer IN
  IF mc = <<>> /\ mer = "" THEN
       IF n = 3 /\ PartOK(P[1], 23) /\ PartOK(P[2], 59) /\ PartOK(P[3], 59)
         THEN <<P[1][2], P[2][2], P[3][2], 0>>
       ELSE IF n = 2 /\ PartOK(P[1], 23) /\ PartOK(P[2], 59) THEN <<P[1][2], P[2][2], 0, 0>>
       ELSE Fail
  ELSE IF mc = <<>> THEN
       IF n = 3 /\ IHourOK(P[1]) /\ PartOK(P[2], 59) /\ PartOK(P[3], 59)
         THEN <<ApplyMer(P[1][2], mer), P[2][2], P[3][2], 0>>
       ELSE IF n = 2 /\ IHourOK(P[1]) /\ PartOK(P[2], 59)
         THEN <<ApplyMer(P[1][2], mer), P[2][2], 0, 0>>
       \* the last directive, "%H:%M %p": a 24-hour clock with a meridian that strptime reads and ignores (hours 0 and 13..23
       \* get here; 1..12 were served by "%I:%M %p")
       ELSE IF n = 2 /\ PartOK(P[1], 23) /\ PartOK(P[2], 59)
         THEN <<P[1][2], P[2][2], 0, 0>>
       ELSE IF n = 1 /\ IHourOK(P[1]) THEN <<ApplyMer(P[1][2], mer), 0, 0, 0>>
       ELSE Fail
  ELSE IF mer = "" THEN
       IF n = 3 /\ PartOK(P[1], 23) /\ PartOK(P[2], 59) /\ PartOK(P[3], 59)
         THEN <<P[1][2], P[2][2], P[3][2], PadMicro(mc)>>
       ELSE Fail
  ELSE IF n = 3 /\ IHourOK(P[1]) /\ PartOK(P[2], 59) /\ PartOK(P[3], 59)
         THEN <<ApplyMer(P[1][2], mer), P[2][2], P[3][2], PadMicro(mc)>>
       ELSE Fail

\* ------------------------------------------------------------------ the token loop
RECURSIVE Consume(_, _, _, _, _)
Consume(s, T, F, idx, att) ==
  IF s.err \/ idx > Len(F) THEN s
  ELSE IF idx \in s.skipIdx THEN Consume(s, T, F, idx + 1, att)
  ELSE LET t == F[idx].t IN
    IF t.k = "a" /\ t.cls = "skip" THEN Consume(s, T, F, idx + 1, att)
    ELSE LET ts == IF s.time = <<>> THEN TimeStep(s, T, F, idx) ELSE [isTime |-> FALSE, s |-> s] IN
      IF ts.isTime THEN Consume(ts.s, T, F, idx + 1, att)
      ELSE LET s2 == IF t.k = "a" THEN AlphaTok(s, t)
                     ELSE IF t.k = "n" THEN NumFrom(s, t, att, 1)
                     ELSE [s EXCEPT !.err = TRUE]      \* a second colon token: strptime fails
           IN Consume(s2, T, F, idx + 1, att)

\* filtered tokens (type 0 or 1) with their original index
RECURSIVE Filter(_, _)
Filter(T, i) == IF i > Len(T) THEN <<>>
                ELSE IF T[i].k # "s" THEN <<[t |-> T[i], o |-> i]>> \o Filter(T, i + 1)
                ELSE Filter(T, i + 1)

\* parser.py:370-379 — unresolved parts filled from displaced numeric tokens (last one wins)
FillUnresolved(s) ==
  IF s.unset = <<>> THEN s
  ELSE LET u == s.unset[Len(s.unset)]
           ft == [u EXCEPT !.k = "f"]                \* a bare string token, not a (token, type) pair
           s1 == IF s.year = 0 THEN [s EXCEPT !.year = u.val, !.tokYear = ft, !.yearTok2 = FALSE] ELSE s
           s2 == IF s1.month = 0 THEN [s1 EXCEPT !.month = u.val, !.tokMonth = ft] ELSE s1
           s3 == IF s2.day = 0 THEN [s2 EXCEPT !.day = u.val, !.tokDay = ft] ELSE s2
       IN s3

HasTok(t) == t.k # "-"

\* ------------------------------------------------------------------ _results (parser.py:460-480, 397-435)
Missing(s) == (IF s.day = 0 THEN {"day"} ELSE {}) \cup (IF s.month = 0 THEN {"month"} ELSE {})
              \cup (IF s.year = 0 THEN {"year"} ELSE {})
StrictRejects(s, sg) == \/ sg.strict /\ Missing(s) # {}
                        \/ ~sg.strict /\ (sg.require \cap Missing(s)) # {}

CorrectLeapYear(pdf, y) ==
  IF pdf = "future" THEN NextLeap(y)
  ELSE IF pdf = "past" THEN PrevLeap(y)
  ELSE IF NextLeap(y) - y < y - PrevLeap(y) THEN NextLeap(y) ELSE PrevLeap(y)

Results(s, sg) ==
  IF StrictRejects(s, sg) THEN Fail
  ELSE LET tv == IF s.time = <<>> THEN <<0, 0, 0, 0>> ELSE TimeValue(s.time) IN
  IF tv = Fail THEN Fail
  ELSE LET d == IF s.day # 0 THEN s.day ELSE sg.base[3]
           m == IF s.month # 0 THEN s.month ELSE sg.base[2]
           y == IF s.year # 0 THEN s.year ELSE sg.base[1]
       IN IF y < 1 \/ y > 9999 \/ m < 1 \/ m > 12 \/ d < 1 THEN Fail
          ELSE IF d <= DIM(y, m) THEN <<y, m, d, tv[1], tv[2], tv[3], tv[4]>>
          ELSE IF d > 31 THEN Fail      \* "day must be in 1..31"?  CPython: "day is out of range for month"
          ELSE IF ~(HasTok(s.tokDay) \/ s.hasWd)
                 THEN <<y, m, DIM(y, m), tv[1], tv[2], tv[3], tv[4]>>
          ELSE IF ~HasTok(s.tokYear) /\ d = 29 /\ m = 2 /\ ~IsLeap(y)
                 THEN LET ny == CorrectLeapYear(sg.pdf, y) IN          \* datetime() rejects a leap year outside 1..9999
                      IF ny < 1 \/ ny > 9999 THEN Fail ELSE <<ny, m, d, tv[1], tv[2], tv[3], tv[4]>>
          ELSE Fail

\* ------------------------------------------------------------------ _correct_for_time_frame (parser.py:482-581)
ReplaceYear(dt, y) == IF y < 1 \/ y > 9999 \/ ~ValidDate(y, dt[2], dt[3]) THEN Fail
                      ELSE <<y, dt[2], dt[3], dt[4], dt[5], dt[6], dt[7]>>

TFWeekday(s, sg, dt) ==
  IF s.hasWd /\ ~(HasTok(s.tokYear) \/ HasTok(s.tokMonth) \/ HasTok(s.tokDay)) THEN
    LET cur == Weekday(dt[1], dt[2], dt[3])
        fwd == (s.wd - cur) % 7
        back == (cur - s.wd) % 7
        delta == IF sg.pdf = "future" THEN (IF fwd = 0 THEN 7 ELSE fwd)
                 ELSE IF back = 0 THEN (IF sg.pdf = "past" THEN -7 ELSE 0) ELSE -back
    IN AddDays(dt, delta)
  ELSE dt

TFMonth(s, sg, dt) ==
  IF s.month # 0 /\ s.year = 0 THEN
    LET tgt == IF Before(sg.base, dt) THEN (IF sg.pdf = "past" THEN dt[1] - 1 ELSE dt[1])
               ELSE (IF sg.pdf = "future" THEN dt[1] + 1 ELSE dt[1])
    IN IF tgt = dt[1] THEN dt
       ELSE LET r == ReplaceYear(dt, tgt) IN
            IF r # Fail THEN r
            ELSE IF dt[3] = 29 /\ dt[2] = 2 THEN ReplaceYear(dt, CorrectLeapYear(sg.pdf, dt[1]))
            ELSE Fail
  ELSE dt

TFTwoDigit(s, sg, dt) ==
  IF HasTok(s.tokYear) /\ s.yearTok2 THEN
    IF Before(sg.base, dt) THEN (IF sg.pdf = "past" THEN ReplaceYear(dt, dt[1] - 100) ELSE dt)
    ELSE (IF sg.pdf = "future" THEN ReplaceYear(dt, dt[1] + 100) ELSE dt)
  ELSE dt

TFTimeOnly(s, sg, dt) ==
  IF s.time # <<>> /\ ~(HasTok(s.tokYear) \/ HasTok(s.tokMonth) \/ HasTok(s.tokDay) \/ s.hasWd) THEN
    LET u == ShiftSeconds(dt, -sg.tzoff)          \* dateobj - tz_offset
        d1 == IF sg.pdf = "past" /\ u # None /\ Before(sg.base, u) THEN AddDays(dt, -1) ELSE dt
        u1 == IF d1 = None THEN None ELSE ShiftSeconds(d1, -sg.tzoff)
        d2 == IF sg.pdf = "future" /\ d1 # None /\ u1 # None /\ Before(u1, sg.base)
                THEN AddDays(d1, 1) ELSE d1
    IN IF u = None \/ d1 = None \/ u1 = None \/ d2 = None THEN Overflow ELSE d2
  ELSE dt

TimeFrame(s, sg, dt) ==
  LET a == TFWeekday(s, sg, dt) IN
  IF a = None THEN Overflow ELSE
  LET b == TFMonth(s, sg, a) IN
  IF b = Fail THEN Fail ELSE
  LET c == TFTwoDigit(s, sg, b) IN
  IF c = Fail THEN Fail ELSE TFTimeOnly(s, sg, c)

\* ------------------------------------------------------------------ _correct_for_month / _correct_for_day
MonthFix(s, sg, dt) ==
  IF HasTok(s.tokMonth) THEN dt
  ELSE LET m == CASE sg.pmoy = "first" -> 1 [] sg.pmoy = "last" -> 12 [] OTHER -> sg.base[2] IN
       IF dt[3] <= DIM(dt[1], m) THEN <<dt[1], m, dt[3], dt[4], dt[5], dt[6], dt[7]>>
       ELSE <<dt[1], 12, dt[3], dt[4], dt[5], dt[6], dt[7]>>

DayFix(s, sg, dt) ==
  IF HasTok(s.tokDay) \/ s.hasWd \/ s.time # <<>> THEN dt
  ELSE LET last == DIM(dt[1], dt[2])
           d == CASE sg.pdom = "first" -> 1 [] sg.pdom = "last" -> last [] OTHER -> sg.base[3] IN
       <<dt[1], dt[2], IF d <= last THEN d ELSE last, dt[4], dt[5], dt[6], dt[7]>>

Period(s, sg) ==
  IF sg.rtap /\ s.time # <<>> THEN "time"
  ELSE IF s.time # <<>> \/ s.day # 0 THEN "day"
  ELSE IF s.month # 0 THEN "month"
  ELSE IF s.year # 0 THEN "year"
  ELSE "day"

\* ------------------------------------------------------------------ _parser.parse
Machine(T, sg) ==
  LET F  == Filter(T, 1)
      s1 == Consume(S0, T, F, 1, Attempts(sg.order))
  IN IF s1.err THEN [out |-> Fail, period |-> "", st |-> s1]
     ELSE LET s2 == FillUnresolved(s1)
              r  == Results(s2, sg)
          IN IF r = Fail THEN [out |-> Fail, period |-> "", st |-> s2]
             ELSE LET tf == TimeFrame(s2, sg, r) IN
                  IF tf = Fail \/ tf = Overflow THEN [out |-> tf, period |-> "", st |-> s2]
                  ELSE [out |-> DayFix(s2, sg, MonthFix(s2, sg, tf)), period |-> Period(s2, sg), st |-> s2]

Parse(T, sg) == LET r == Machine(T, sg) IN [out |-> r.out, period |-> r.period]
=============================================================================
