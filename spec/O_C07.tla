------------------------------ MODULE O_C07 ------------------------------
(* C07 - DATE_ORDER and the locale's own order decide numeric dates.                               *)
(* Oracle `Reading` is written from the statement, independently of the machine in AbsParser.      *)
EXTENDS AbsParser

OrderSet == {"DMY", "DYM", "MDY", "MYD", "YDM", "YMD"}

\* ------------------------------------------------------------------ oracle (from the statement)
PosOf(order, ch) == CHOOSE i \in 1..3 : OrderLetters(order)[i] = ch
\* f: three fields <<len, val>>
Reading(order, f) == <<f[PosOf(order, "Y")][2], f[PosOf(order, "M")][2], f[PosOf(order, "D")][2]>>

IsOffsetSpelling(v) == (v \div 100) <= 14 /\ (v % 100) \in {0, 30, 45}

FourDigit(f) == Cardinality({i \in 1..3 : f[i][1] = 4}) = 1
InDomain(order, f, sep) ==
  /\ order \in OrderSet
  /\ FourDigit(f)
  /\ \A i \in 1..3 : f[i][1] \in {1, 2, 4} /\ f[i][2] >= 0
  /\ f[PosOf(order, "Y")][1] = 4
  /\ LET r == Reading(order, f) IN ValidDate(r[1], r[2], r[3])
\* known finding C07-year-as-offset: a year-last date joined by '-' whose year spells a UTC offset (0000 .. 1400, 0530 ...)
\* is read as "<day-month> -HHMM": the year is lost and an offset attached
YearAsOffset(order, f, sep) == sep = "-" /\ OrderLetters(order)[3] = "Y" /\ IsOffsetSpelling(f[3][2])

Expected(order, f, tm) ==
  LET r == Reading(order, f) IN <<r[1], r[2], r[3], tm[1], tm[2], tm[3], 0>>

\* the time suffix may carry a fraction of a second (and a zone, which relabels the result but moves no field)
ExpectedUs(order, f, tm, us) ==
  LET r == Reading(order, f) IN <<r[1], r[2], r[3], tm[1], tm[2], tm[3], us>>

\* the selected locale's own order: used only when the caller supplied none
EffOrder(explicit, given, plo, locorder) ==
  IF explicit THEN given ELSE IF plo /\ locorder # "" THEN locorder ELSE "MDY"

=============================================================================
