------------------------------- MODULE Search -------------------------------
(* The chunking loop of Locale.translate_search (languages/locale.py:189-266): tokens of a sentence   *)
(* are walked with a one-token lookahead; a token joined with its successor may be a dictionary entry  *)
(* (then both are consumed), else the token alone, else a token with digits, else a timezone word,     *)
(* else the current chunk is flushed.  The lookahead indexes original_tokens[i + 1]: the model tracks   *)
(* whether that index exists.                                                                        *)
EXTENDS Naturals, Sequences, FiniteSets

CONSTANTS GuardLookahead   \* TRUE = repaired design: the joined lookup is attempted only when a successor exists

\* a token: [inDict, joinNextInDict, digits, tz, dash : BOOLEAN]
\* loc: [noWordSpacing, jointUnsupported : BOOLEAN]   (jointUnsupported: shortname in {zh, ja})
\* result: [chunks |-> number of flushed chunks, err |-> index error?]
RECURSIVE Walk(_, _, _, _, _, _)
Walk(toks, loc, i, skip, open, acc) ==
  IF acc.err \/ i > Len(toks) THEN [acc EXCEPT !.chunks = @ + (IF open THEN 1 ELSE 0)]
  ELSE IF skip THEN Walk(toks, loc, i + 1, FALSE, open, acc)
  ELSE LET t == toks[i]
           last == i = Len(toks)
           \* join(word, next) with next = "" for the last token: for languages written without spaces the
           \* joined string is then the word itself
           joined == IF last THEN (loc.noWordSpacing /\ t.inDict) ELSE t.joinNextInDict
       IN IF joined /\ ~t.dash /\ ~loc.jointUnsupported /\ (GuardLookahead => ~last)
            THEN IF last THEN [acc EXCEPT !.err = TRUE]                        \* original_tokens[i + 1]
                 ELSE Walk(toks, loc, i + 1, TRUE, TRUE, acc)
          ELSE IF (t.inDict /\ ~t.dash) \/ t.digits \/ (open /\ t.tz) THEN Walk(toks, loc, i + 1, FALSE, TRUE, acc)
          ELSE Walk(toks, loc, i + 1, FALSE, FALSE, [acc EXCEPT !.chunks = @ + (IF open THEN 1 ELSE 0)])

Chunk(toks, loc) == Walk(toks, loc, 1, FALSE, FALSE, [chunks |-> 0, err |-> FALSE])
=============================================================================
