------------------------------- MODULE T_C16 -------------------------------
(* C16 - shipped generated data equals what its sources define.  Records (exported from the tree):     *)
(*   "lang"  : CLDR data, supplementary data, base data and the shipped module of one language          *)
(*   "tz"    : the timezone source structure, the pattern texts, and the table loaded from the pickle   *)
(*   "index" : language_order, the module names, per-language locale lists, language_map                *)
EXTENDS DataBuild, Json, IOUtils

Tr == ndJsonDeserialize(IOEnv.TRACE_FILE)
VARIABLE l

Verdict(r) ==
  IF r.kind = "lang" THEN
       (IF Generate(r.lang, r.cldr, r.supp, r.base) = r.shipped THEN "ok" ELSE "module-differs-from-generated")
  ELSE IF r.kind = "tz" THEN
       LET built == BuildTzOffsets(r.src, r.pat, 1) IN
       IF Len(built) # Len(r.loaded) THEN "table-length-differs"
       ELSE IF \E i \in 1..Len(built) : built[i] # r.loaded[i] THEN "table-row-differs" ELSE "ok"
  ELSE IF ~NoDup(r.order) THEN "duplicate-language-in-index"
       ELSE IF SeqToSet(r.order) # SeqToSet(r.modules) THEN "index-languages-differ-from-modules"
       ELSE IF SeqToSet(r.dictkeys) # SeqToSet(r.modules) THEN "locale-dict-languages-differ-from-modules"
       ELSE IF \E i \in 1..Len(r.locales) : SeqToSet(r.locales[i].indexed) # SeqToSet(r.locales[i].defined) THEN "index-locales-differ-from-module"
       ELSE IF SeqToSet(r.mapped) # SeqToSet(r.modules) THEN "language-map-differs-from-modules"
       ELSE "ok"
FirstBadRow(r) == LET built == BuildTzOffsets(r.src, r.pat, 1) IN
                  IF Len(built) # Len(r.loaded) THEN <<Len(built), Len(r.loaded)>>
                  ELSE LET i == CHOOSE i \in 1..Len(built) : built[i] # r.loaded[i] IN <<i, built[i], r.loaded[i]>>
Check(r) == LET v == Verdict(r) IN
            IF v = "ok" THEN TRUE
            ELSE PrintT(<<"REJECT", r.tid, "prop", v, IF r.kind = "tz" THEN FirstBadRow(r) ELSE <<>>>>)

TInit == l = 0
TNext == l < Len(Tr) /\ l' = l + 1 /\ Check(Tr[l + 1])
TSpec == TInit /\ [][TNext]_l
Consumed == PrintT(<<"CONSUMED", TLCGet("stats").diameter - 1, Len(Tr)>>)
=============================================================================
