------------------------------- MODULE T_C02 -------------------------------
(* C02 - parse is total: a datetime or None, documented exceptions only.  One record per real call.    *)
(*   valid arguments  : no exception escapes; period is one of the five; nothing recognised =>        *)
(*                      date_obj and locale are both None                                            *)
(*   invalid setting  : a documented exception (SettingValidationError / TypeError / ValueError) is    *)
(*                      raised whatever the string is                                               *)
(* Which classes may escape at all is the exception-flow model of Pipeline.tla.                      *)
EXTENDS Pipeline, AbsTrace, NoSpaces, Validate, Json, IOUtils

Tr == ndJsonDeserialize(IOEnv.TRACE_FILE)
VARIABLE l
Periods == {"time", "day", "week", "month", "year"}

Verdict(r) ==
  IF r.valid THEN
       IF r.exc # "" THEN (IF SeqToSet(r.mro) \cap Documented # {} THEN "documented-class-escaped-for-valid-arguments" ELSE "undocumented-exception-escaped")
       ELSE IF r.api = "ddp" /\ r.period \notin Periods THEN "bad-period"
       ELSE IF r.api = "ddp" /\ ~r.hasDate /\ r.locale # "" THEN "locale-without-date"
       ELSE "ok"
  ELSE IF r.exc = "" THEN "invalid-setting-accepted"
       ELSE IF SeqToSet(r.mro) \cap {"SettingValidationError", "TypeError"} = {} THEN "invalid-setting-wrong-exception"
       ELSE "ok"
NspModel(r) == IF ~r.eligible THEN [out |-> NSFail, period |-> ""]
               ELSE NoSpacesParse(r.toks, r.order, r.strict, SeqToSet(r.require))
\* kind "val": a settings argument in abstract form (Validate.tla) and what the constructor / the first call did
ObservedClass(r) == IF r.exc = "" THEN "ok"
                    ELSE IF \E i \in 1..Len(r.mro) : r.mro[i] = "SettingValidationError" THEN "sve"
                    ELSE IF \E i \in 1..Len(r.mro) : r.mro[i] = "TypeError" THEN "typeerror" ELSE "other"
ValVerdict(r) ==
  LET e == ArgVerdict(r.argkind, r.d)  o == ObservedClass(r) IN
  IF e = "unspecified" THEN <<"ok", "ok">>
  ELSE IF o = "other" THEN <<"prop", "undocumented-exception-escaped">>
  ELSE IF e = "ok" /\ o # "ok" THEN <<"prop", "valid-setting-rejected">>
  ELSE IF e # "ok" /\ o = "ok" THEN <<"prop", "invalid-setting-accepted">>
  ELSE IF e # o THEN <<"abs", "validation-class">>
  ELSE <<"ok", "ok">>
\* kind "args": the other arguments of the constructor and of get_date_data in abstract form (Validate.tla)
ObservedArgs(r) == IF r.exc = "" THEN "ok"
                   ELSE IF \E i \in 1..Len(r.mro) : r.mro[i] = "TypeError" THEN "typeerror"
                   ELSE IF \E i \in 1..Len(r.mro) : r.mro[i] = "ValueError" THEN "valueerror" ELSE "other"
ArgsCheck(r) ==
  LET e == ArgsVerdict(r.c)  o == ObservedArgs(r) IN
  IF o = "other" THEN PrintT(<<"REJECT", r.tid, "prop", "undocumented-exception-escaped", e>>)
  ELSE IF e[2] = "ok" /\ o # "ok" /\ r.wellformed THEN PrintT(<<"REJECT", r.tid, "prop", "valid-arguments-rejected", e>>)
  ELSE IF <<r.phase, o>> # e /\ ~(o = "ok" /\ e[2] = "ok") THEN PrintT(<<"REJECT", r.tid, "abs", "argument-check", e>>)
  ELSE TRUE
Check(r) ==
  IF r.kind = "args" THEN ArgsCheck(r)
  ELSE IF r.kind = "ploop" THEN (IF ParserLoopOK(r.parsers, r.tries, r.found) THEN TRUE ELSE PrintT(<<"REJECT", r.tid, "abs", "parser-loop", r.tries>>))
  ELSE IF r.kind = "val" THEN (LET v == ValVerdict(r) IN IF v[1] = "ok" THEN TRUE ELSE PrintT(<<"REJECT", r.tid, v[1], v[2], ArgVerdict(r.argkind, r.d)>>))
  ELSE IF r.kind = "abs" THEN (IF AbsVerdict(r) = "drift" THEN PrintT(<<"REJECT", r.tid, "abs", "absparser", AbsModel(r)>>) ELSE TRUE)
  ELSE IF r.kind = "nsp" THEN
       (IF ~r.skip /\ ~(NspModel(r).out = r.out /\ (r.out = NSFail \/ NspModel(r).period = r.period))
          THEN PrintT(<<"REJECT", r.tid, "abs", "nospaces", NspModel(r)>>) ELSE TRUE)
  ELSE LET v == Verdict(r) IN IF v = "ok" THEN TRUE ELSE PrintT(<<"REJECT", r.tid, "prop", v, r.exc>>)

TInit == l = 0
TNext == l < Len(Tr) /\ l' = l + 1 /\ Check(Tr[l + 1])
TSpec == TInit /\ [][TNext]_l
Consumed == PrintT(<<"CONSUMED", TLCGet("stats").diameter - 1, Len(Tr)>>)
=============================================================================
