------------------------------ MODULE Validate ------------------------------
\* `check_settings` (conf.py:178-273) and the settings argument check of `apply_settings`: which settings
\* dictionaries are accepted, which are rejected with SettingValidationError, which with TypeError.
\* A value is abstract: its Python type tag, its text when it is a string, its items when it is a list, and for
\* numbers whether 0 <= x <= 1.
\*     v == [t |-> "str" | "bool" | "int" | "float" | "list" | "datetime" | "none" | "dict" | "tuple",
\*           s |-> STRING, items |-> Seq([t, s]), in01 |-> BOOLEAN]
\* A settings dict is the sequence of its <<key, value>> entries in insertion order.
EXTENDS Naturals, Sequences, FiniteSets

CONSTANT Languages            \* the supported language codes (exported from the tree's data)

Orders == {"DMY", "DYM", "MDY", "MYD", "YDM", "YMD"}
Parsers == {"timestamp", "relative-time", "custom-formats", "absolute-time", "no-spaces-time", "negative-timestamp"}
Parts == {"day", "month", "year"}

TypeOf(key) ==
  CASE key \in {"DATE_ORDER", "TIMEZONE", "TO_TIMEZONE", "PREFER_MONTH_OF_YEAR", "PREFER_DAY_OF_MONTH", "PREFER_DATES_FROM"} -> "str"
    [] key \in {"RETURN_AS_TIMEZONE_AWARE", "STRICT_PARSING", "NORMALIZE", "RETURN_TIME_AS_PERIOD", "FUZZY", "PREFER_LOCALE_DATE_ORDER"} -> "bool"
    [] key = "RELATIVE_BASE" -> "datetime"
    [] key \in {"REQUIRE_PARTS", "SKIP_TOKENS", "PARSERS", "DEFAULT_LANGUAGES"} -> "list"
    [] key = "LANGUAGE_DETECTION_CONFIDENCE_THRESHOLD" -> "float"
    [] key = "CACHE_SIZE_LIMIT" -> "int"
    [] OTHER -> "unknown"
Known(key) == TypeOf(key) # "unknown"

\* isinstance: bool is a subclass of int
IsInstance(vt, t) == IF t = "int" THEN vt \in {"int", "bool"} ELSE vt = t

Enumerated(key) ==
  CASE key = "DATE_ORDER" -> Orders
    [] key \in {"PREFER_MONTH_OF_YEAR", "PREFER_DAY_OF_MONTH"} -> {"current", "first", "last"}
    [] key = "PREFER_DATES_FROM" -> {"current_period", "past", "future"}
    [] OTHER -> {}

\* items of a list are put into a set(): a list or dict among them is unhashable -> TypeError
Unhashable(v) == \E i \in 1..Len(v.items) : v.items[i].t \in {"list", "dict"}
Repeated(v) == \E i, j \in 1..Len(v.items) : i < j /\ v.items[i] = v.items[j]
AllIn(v, S) == \A i \in 1..Len(v.items) : v.items[i].t = "str" /\ v.items[i].s \in S

Allowed(key) == CASE key = "REQUIRE_PARTS" -> Parts [] key = "PARSERS" -> Parsers [] key = "DEFAULT_LANGUAGES" -> Languages [] OTHER -> {}

\* verdict for one entry whose key is known: "ok" | "sve" | "typeerror"
EntryVerdict(key, v) ==
  IF ~IsInstance(v.t, TypeOf(key)) THEN "sve"
  ELSE IF Enumerated(key) # {} /\ v.s \notin Enumerated(key) THEN "sve"
  ELSE IF key \in {"REQUIRE_PARTS", "PARSERS", "DEFAULT_LANGUAGES"} THEN
         (IF Unhashable(v) THEN "typeerror"
          \* the message of the rejection joins the offending items: str.join refuses non-strings (TypeError); the
          \* DEFAULT_LANGUAGES message joins their repr() and so always gets as far as SettingValidationError
          ELSE IF ~AllIn(v, Allowed(key)) THEN (IF key # "DEFAULT_LANGUAGES" /\ \E i \in 1..Len(v.items) : v.items[i].t # "str" THEN "typeerror" ELSE "sve")
          ELSE IF Repeated(v) THEN "sve" ELSE "ok")
  \* SKIP_TOKENS is only checked to be a list; what a non-string token does later is not specified
  ELSE IF key = "SKIP_TOKENS" /\ \E i \in 1..Len(v.items) : v.items[i].t # "str" THEN "unspecified"
  ELSE IF key = "LANGUAGE_DETECTION_CONFIDENCE_THRESHOLD" /\ ~v.in01 THEN "sve"
  ELSE "ok"

\* the whole dict: first every key must be known, then the entries are judged in insertion order
RECURSIVE FirstBad(_, _)
FirstBad(d, i) == IF i > Len(d) THEN "ok"
                  ELSE LET r == EntryVerdict(d[i][1], d[i][2]) IN IF r # "ok" THEN r ELSE FirstBad(d, i + 1)
\* Settings.replace runs first and refuses any None value with TypeError, whatever the key
DictVerdict(d) == IF \E i \in 1..Len(d) : d[i][2].t = "none" THEN "typeerror"
                  ELSE IF \E i \in 1..Len(d) : ~Known(d[i][1]) THEN "sve" ELSE FirstBad(d, 1)

\* what is passed as `settings=`: a non-empty dict (judged above); None or any other FALSY object (the defaults are
\* used: `mod_settings or settings`); a Settings object; anything else is refused with TypeError
ArgVerdict(kind, d) == CASE kind = "dict" -> DictVerdict(d) [] kind \in {"none", "falsy", "settings"} -> "ok" [] OTHER -> "typeerror"

\* ------------------------------------------------------------------ the other arguments
\* DateDataParser(languages, locales, region, try_previous_locales, use_given_order) (date.py: constructor) and
\* get_date_data(date_string, date_formats).  An argument is abstract: a = [t |-> type tag, items |-> Seq([t, s]),
\* falsy |-> BOOLEAN, s |-> text of a str].  Outcome classes: "ok" | "typeerror" | "valueerror".
Containers == {"list", "tuple", "set", "frozenset"}
\* the constructor: the checks in the order in which the code makes them
CtorVerdict(c) ==
  IF c.languages.t \notin Containers \cup {"none"} THEN "typeerror"
  ELSE IF c.locales.t \notin Containers \cup {"none"} THEN "typeerror"
  ELSE IF c.region.t \notin {"none", "str"} THEN "typeerror"
  ELSE IF c.tpl.t # "bool" THEN "typeerror"
  ELSE IF c.ugo.t # "bool" THEN "typeerror"
  ELSE IF c.locales.falsy /\ c.languages.falsy /\ ~c.ugo.falsy THEN "valueerror"
  ELSE "ok"
\* the first call: the string's type; the formats (tried on the raw string first, type-checked only when a locale gets to
\* work on the string); the language codes (looked up when the locales are loaded)
KnownLanguage(i) == i.t = "str" /\ i.s \in Languages
LanguagesVerdict(a) ==
  IF a.t = "none" \/ a.falsy THEN "ok"
  ELSE IF \E i \in 1..Len(a.items) : a.items[i].t \in {"list", "dict"} THEN "typeerror"      \* unhashable: they are put into a set
  ELSE IF \E i \in 1..Len(a.items) : ~KnownLanguage(a.items[i]) THEN "valueerror"
  ELSE "ok"
\* none of the generated formats matches the string (they begin with '#'), so every one of them is tried
FormatsVerdict(f, applicable) ==
  IF f.t = "none" THEN "ok"
  ELSE IF f.t \in Containers THEN (IF \E i \in 1..Len(f.items) : f.items[i].t # "str" THEN "typeerror" ELSE "ok")
  ELSE IF f.falsy THEN (IF applicable THEN "typeerror" ELSE "ok")           \* `date_formats or []`, refused later by the locale parser
  ELSE IF f.t \in {"int", "float", "bool", "datetime"} THEN "typeerror"     \* not iterable
  ELSE IF f.t = "bytes" THEN "typeerror"                                     \* iterates to ints: strptime refuses them
  ELSE IF f.t \in {"str", "dict"} THEN (IF applicable THEN "typeerror" ELSE "ok")   \* characters / keys tried as formats, refused later
  ELSE "typeerror"
CallVerdict(c) ==
  IF c.ds.t # "str" THEN "typeerror"
  ELSE LET fv == FormatsVerdict(c.fmts, c.applicable /\ LanguagesVerdict(c.languages) = "ok") IN
       \* formats are tried on the raw string before the locales are loaded
       IF c.fmts.t \in Containers /\ fv = "typeerror" THEN "typeerror"
       ELSE IF ~c.fmts.falsy /\ c.fmts.t \in {"int", "float", "bool", "datetime", "bytes"} THEN "typeerror"
       ELSE IF LanguagesVerdict(c.languages) # "ok" THEN LanguagesVerdict(c.languages)
       ELSE fv
ArgsVerdict(c) == IF CtorVerdict(c) # "ok" THEN <<"construct", CtorVerdict(c)>> ELSE <<"call", CallVerdict(c)>>
=============================================================================
