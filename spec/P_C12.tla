------------------------------- MODULE P_C12 -------------------------------
(* E1 for C12: the four parsers' localize / convert / strip pipelines (Timezone.tla) against the    *)
(* oracle, over a grid of zone offsets (whole, half and 45-minute, date line), wall clocks next to   *)
(* day / month / year boundaries, own-zone yes / no, TO_TIMEZONE yes / no, three awareness settings. *)
EXTENDS O_C12, Timezone

CONSTANTS OffCodes, Walls   \* OffCodes: UTC offsets + 43200 (cfg files take no negative numbers); Walls: indices into WallTab
Offs == {o - 43200 : o \in OffCodes}
WallTab == << <<2015, 3, 5, 10, 11, 12, 0>>, <<2015, 1, 1, 0, 0, 0, 0>>, <<2015, 12, 31, 23, 59, 59, 999999>>,
              <<2016, 2, 29, 12, 0, 0, 0>>, <<2016, 3, 1, 0, 30, 0, 0>>, <<1950, 1, 1, 0, 0, 0, 0>>, <<2037, 12, 31, 23, 59, 59, 0>> >>
Parsers == {"absolute", "relative", "timestamp", "custom"}
Ratas == {"true", "false", "default"}

VARIABLE c
Init == c = [stage |-> 0]
Pick1 == c.stage = 0 /\ \E oa \in Offs, wi \in Walls : c' = [stage |-> 1, offA |-> oa, w |-> WallTab[wi]]
Pick2 == /\ c.stage = 1
         /\ \E otz \in Offs, oto \in Offs, hasTo \in BOOLEAN, own \in BOOLEAN, p \in Parsers, r \in Ratas :
              /\ (own => p = "absolute")
              /\ c' = [stage |-> 2, offA |-> c.offA, w |-> c.w, offTz |-> otz, offTo |-> oto, hasTo |-> hasTo,
                       own |-> own, parser |-> p, rata |-> r]
Next == Pick1 \/ Pick2
Spec == Init /\ [][Next]_c

\* own zone: offA is the string's zone and offTz the TIMEZONE setting; otherwise TIMEZONE = offA
Z(cc) == [ptzHas |-> cc.own, ptzOff |-> cc.offA, tzLocal |-> FALSE,
          tzOffWall |-> cc.offA, tzOffInst |-> cc.offTz, toHas |-> cc.hasTo, toOff |-> cc.offTo]
Machine(cc) == CASE cc.parser = "absolute" -> AbsolutePipeline(cc.w, Z(cc), cc.rata)
                 [] cc.parser = "relative" -> RelativePipeline(cc.w, Z(cc), cc.rata)
                 [] OTHER -> SettingsPipeline(cc.w, Z(cc), cc.rata)
TargetOff(cc) == IF cc.hasTo THEN cc.offTo ELSE IF cc.own THEN cc.offTz ELSE cc.offA

InstantPreserved ==
  c.stage = 2 =>
    LET m == Machine(c) IN
    /\ m.wall = ExpWall(c.w, c.offA, TargetOff(c))
    /\ m.off = ExpOff(c.rata, c.own, TargetOff(c))
=============================================================================
