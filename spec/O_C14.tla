------------------------------- MODULE O_C14 -------------------------------
(* C14 - custom date_formats round-trip what the format expresses (oracle from the statement).       *)
(* fl: which parts the format states [year, month, day, time (hour), min, sec, us : BOOLEAN]                *)
(* dt: the datetime that was rendered; today: the system clock's date; prefs: pdom, pmoy               *)
EXTENDS Calendar

PickMonth(pmoy, ref) == CASE pmoy = "first" -> 1 [] pmoy = "last" -> 12 [] OTHER -> ref[2]
Clamp(d, y, m) == IF d > DIM(y, m) THEN DIM(y, m) ELSE d
PickDay(pdom, y, m, ref) == CASE pdom = "first" -> 1 [] pdom = "last" -> DIM(y, m) [] OTHER -> Clamp(ref[3], y, m)

Expected(fl, dt, pdom, pmoy, today) ==
  LET y == IF fl.year THEN dt[1] ELSE today[1]
      m == IF fl.month THEN dt[2] ELSE PickMonth(pmoy, today)
      d == IF fl.day THEN dt[3] ELSE PickDay(pdom, y, m, today)
  IN <<y, m, d, IF fl.time THEN dt[4] ELSE 0, IF fl.min THEN dt[5] ELSE 0,
       IF fl.sec THEN dt[6] ELSE 0, IF fl.us THEN dt[7] ELSE 0>>
ExpectedPeriod(fl) == IF ~fl.month THEN "year" ELSE IF ~fl.day THEN "month" ELSE "day"

InDomain(fl, dt, pdom, pmoy, today) ==
  /\ ValidDT(dt) /\ dt[1] >= 1900 /\ dt[1] <= 2100
  \* a stated day must exist in the completed month / year
  /\ LET e == Expected(fl, dt, pdom, pmoy, today) IN ValidDate(e[1], e[2], e[3])
  \* year-less formats: dates other than Feb 29; and (day-less too) February is left out because the
  \* last-day rule is then applied to the placeholder year
  /\ (~fl.year => ~(dt[2] = 2 /\ dt[3] = 29) /\ ~(~fl.day /\ Expected(fl, dt, pdom, pmoy, today)[2] = 2))
  \* a stated day with a missing month: keep to days that exist in every month
  /\ (fl.day /\ ~fl.month => dt[3] <= 28)
=============================================================================
