------------------------------ MODULE NoSpaces ------------------------------
(* `_no_spaces_parser` (parser.py:103-225): dates written as one run of digits ("20150305", "1030").   *)
(* The parser strips colons, then tries an ORDERED list of strptime formats on the digit string; the     *)
(* formats that start with the configured date order come first.  strptime is a regular expression with   *)
(* ordered alternatives and backtracking: every directive offers its candidate widths in a fixed order     *)
(* and the first complete match wins -- transcribed here as a depth-first search over widths.             *)
(* A result whose year has fewer than four digits is only remembered as a fallback; a format that leaves    *)
(* parts unstated is skipped under STRICT_PARSING / REQUIRE_PARTS.                                       *)
EXTENDS Calendar, FiniteSets

NSFail == <<"fail">>

\* value of the digit substring d[i..i+w-1]
RECURSIVE ValOfDigits(_, _, _)
ValOfDigits(d, i, w) == IF w = 0 THEN 0 ELSE ValOfDigits(d, i, w - 1) * 10 + d[i + w - 1]

\* candidate widths of a directive, in the order the regular expression tries them
\* "f" stands for ".%f": the formats with microseconds contain a literal period, which a run of digits never has
Widths(dir) == CASE dir = "Y" -> <<4>> [] dir = "y" -> <<2>> [] dir = "f" -> <<>> [] OTHER -> <<2, 1>>
\* is the digit string d[i..i+w-1] in the language of the directive?
Fits(dir, d, i, w) ==
  /\ i + w - 1 <= Len(d)
  /\ LET v == ValOfDigits(d, i, w)  lead == d[i] IN
     CASE dir = "Y" -> TRUE
       [] dir = "y" -> TRUE
       [] dir = "m" -> IF w = 2 THEN v >= 1 /\ v <= 12 ELSE v >= 1
       [] dir = "d" -> IF w = 2 THEN v >= 1 /\ v <= 31 ELSE v >= 1
       [] dir = "H" -> IF w = 2 THEN v <= 23 ELSE TRUE
       [] dir = "M" -> IF w = 2 THEN v <= 59 ELSE TRUE
       [] dir = "S" -> IF w = 2 THEN v <= 61 ELSE TRUE
       [] dir = "f" -> TRUE

\* depth-first search: directives dirs[k..], position pos; returns [ok, m |-> sequence of <<dir, position, width>>]
RECURSIVE MatchFrom(_, _, _, _)
RECURSIVE TryWidths(_, _, _, _, _)
NoMatch == [ok |-> FALSE, m |-> <<>>]
TryWidths(dirs, d, k, pos, wi) ==
  LET ws == Widths(dirs[k]) IN
  IF wi > Len(ws) THEN NoMatch
  ELSE LET w == ws[wi] IN
       IF Fits(dirs[k], d, pos, w)
         THEN LET rest == MatchFrom(dirs, d, k + 1, pos + w) IN
              IF rest.ok THEN [ok |-> TRUE, m |-> <<<<dirs[k], pos, w>>>> \o rest.m] ELSE TryWidths(dirs, d, k, pos, wi + 1)
         ELSE TryWidths(dirs, d, k, pos, wi + 1)
MatchFrom(dirs, d, k, pos) ==
  IF k > Len(dirs) THEN (IF pos = Len(d) + 1 THEN [ok |-> TRUE, m |-> <<>>] ELSE NoMatch)
  ELSE IF pos > Len(d) THEN NoMatch
  ELSE TryWidths(dirs, d, k, pos, 1)

\* the datetime a match denotes (strptime defaults 1900-01-01 00:00:00; %y pivots at 69; %f right-padded)
RECURSIVE P10(_)
P10(n) == IF n = 0 THEN 1 ELSE 10 * P10(n - 1)
FieldVal(m, d, dir, default) ==
  IF \E i \in 1..Len(m) : m[i][1] = dir
    THEN LET i == CHOOSE i \in 1..Len(m) : m[i][1] = dir IN ValOfDigits(d, m[i][2], m[i][3])
    ELSE default
Width(m, dir) == LET i == CHOOSE i \in 1..Len(m) : m[i][1] = dir IN m[i][3]
HasDir(m, dir) == \E i \in 1..Len(m) : m[i][1] = dir
ToDatetime(m, d) ==
  LET y == IF HasDir(m, "Y") THEN FieldVal(m, d, "Y", 1900)
           ELSE IF HasDir(m, "y") THEN (LET v == FieldVal(m, d, "y", 0) IN IF v >= 69 THEN 1900 + v ELSE 2000 + v)
           ELSE 1900
      mo == FieldVal(m, d, "m", 1)  da == FieldVal(m, d, "d", 1)
      h == FieldVal(m, d, "H", 0)  mi == FieldVal(m, d, "M", 0)  s == FieldVal(m, d, "S", 0)
      us == IF HasDir(m, "f") THEN FieldVal(m, d, "f", 0) * P10(6 - Width(m, "f")) ELSE 0
  IN IF y < 1 \/ ~ValidDate(y, mo, da) \/ s > 59 THEN NSFail ELSE <<y, mo, da, h, mi, s, us>>

\* the ordered format list for a date order (parser.py:136-167); a format is a sequence of directives
DateFormats == << <<"Y","m","d">>, <<"Y","d","m">>, <<"m","Y","d">>, <<"m","d","Y">>, <<"d","Y","m">>, <<"d","m","Y">>,
                  <<"y","m","d">>, <<"y","d","m">>, <<"m","y","d">>, <<"m","d","y">>, <<"d","y","m">>, <<"d","m","y">> >>
TimeFormats == << <<"H","M","S","f">>, <<"H","M","S">>, <<"H","M">>, <<"H">> >>
RECURSIVE Cross(_, _)
Cross(i, j) == IF i > Len(DateFormats) THEN <<>>
               ELSE IF j > Len(TimeFormats) THEN Cross(i + 1, 1)
               ELSE <<DateFormats[i] \o TimeFormats[j]>> \o Cross(i, j + 1)
AllFormats == DateFormats \o Cross(1, 1) \o TimeFormats
Preferred == << <<"Y","m","d","H","M">>, <<"Y","m","d","H","M","S">>, <<"Y","m","d","H","M","S","f">> >>
Lower(x) == IF x = "Y" THEN "y" ELSE x
StartsWith(f, o) == Len(f) >= 3 /\ Lower(f[1]) = o[1] /\ Lower(f[2]) = o[2] /\ Lower(f[3]) = o[3]
OrderDirs(order) == CASE order = "DMY" -> <<"d","m","y">> [] order = "DYM" -> <<"d","y","m">> [] order = "MDY" -> <<"m","d","y">>
                      [] order = "MYD" -> <<"m","y","d">> [] order = "YDM" -> <<"y","d","m">> [] order = "YMD" -> <<"y","m","d">>
\* sorted(..., key=startswith(order), reverse=True) is stable: matching formats first, both groups in list order
FormatsFor(order) ==
  LET o == OrderDirs(order)
      first == SelectSeq(AllFormats, LAMBDA f : StartsWith(f, o))
      rest == SelectSeq(AllFormats, LAMBDA f : ~StartsWith(f, o))
  IN (IF order = "MDY" THEN Preferred ELSE <<>>) \o first \o rest

MissingOf(f) == (IF \E i \in 1..Len(f) : f[i] = "d" THEN {} ELSE {"day"})
                \cup (IF \E i \in 1..Len(f) : f[i] = "m" THEN {} ELSE {"month"})
                \cup (IF \E i \in 1..Len(f) : f[i] \in {"y", "Y"} THEN {} ELSE {"year"})
PeriodOfFormat(f) == IF \E i \in 1..Len(f) : f[i] \in {"d", "H", "M", "S"} THEN "day"
                     ELSE IF \E i \in 1..Len(f) : f[i] = "m" THEN "month" ELSE "year"
Rejected(f, strict, require) == (strict /\ MissingOf(f) # {}) \/ (~strict /\ (require \cap MissingOf(f)) # {})

\* the loop over the formats: first match with a four-digit year that passes strictness wins; a match with a
\* shorter year is remembered (the LAST such one) as fallback
RECURSIVE Loop(_, _, _, _, _, _)
Loop(fs, d, i, strict, require, amb) ==
  IF i > Len(fs) THEN amb
  ELSE LET mm == MatchFrom(fs[i], d, 1, 1) IN
       IF ~mm.ok THEN Loop(fs, d, i + 1, strict, require, amb)
       ELSE LET dt == ToDatetime(mm.m, d) IN
            IF dt = NSFail THEN Loop(fs, d, i + 1, strict, require, amb)
            ELSE IF dt[1] < 1000 THEN Loop(fs, d, i + 1, strict, require, [out |-> dt, period |-> PeriodOfFormat(fs[i]), final |-> FALSE])
            ELSE IF Rejected(fs[i], strict, require) THEN Loop(fs, d, i + 1, strict, require, amb)
            ELSE [out |-> dt, period |-> PeriodOfFormat(fs[i]), final |-> TRUE]

\* toks: the digit runs of the string with its colons removed, in order (other tokens match no format);
\* the first token with an acceptable match wins, the fallback is carried across tokens
RECURSIVE OverTokens(_, _, _, _, _, _)
OverTokens(toks, i, fs, strict, require, amb) ==
  IF i > Len(toks) THEN amb
  ELSE LET r == Loop(fs, toks[i], 1, strict, require, [out |-> NSFail, period |-> "", final |-> FALSE]) IN
       IF r.final THEN r
       ELSE OverTokens(toks, i + 1, fs, strict, require, IF r.out # NSFail THEN r ELSE amb)
NoSpacesParse(toks, order, strict, require) ==
  LET r == OverTokens(toks, 1, FormatsFor(order), strict, require, [out |-> NSFail, period |-> "", final |-> FALSE])
  IN [out |-> r.out, period |-> r.period]
=============================================================================
