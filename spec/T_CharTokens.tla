------------------------------ MODULE T_CharTokens ------------------------------
\* Refinement-on-trace of the character scanner (CharTokens.tla): one record per string put through the REAL `tokenizer`
\* and the REAL `_parser.__init__` of the tree under test.  The model's lists are compared with the code's, and the laws
\* are evaluated on the code's own output (so a wrong list is named by the law it breaks as well).
EXTENDS CharTokens, Json, IOUtils, TLC

Tr == ndJsonDeserialize(IOEnv.TRACE_FILE)
VARIABLE l
Rej(r, kind, clause, exp) == PrintT(<<"REJECT", r.tid, kind, clause, exp>>)
Check(r) ==
  IF Fails(r.s)
    THEN (IF r.exc = "IndexError" THEN TRUE ELSE Rej(r, "abs", "empty-input", <<"IndexError">>))
    ELSE /\ (IF r.exc = "" THEN TRUE ELSE Rej(r, "abs", "raised", <<>>))
         /\ (IF r.exc # "" \/ r.toks = Tokens(r.s) THEN TRUE ELSE Rej(r, "abs", "tokens", Tokens(r.s)))
         /\ (IF r.exc # "" \/ (NothingLost(r.s, r.toks) /\ Homogeneous(r.toks) /\ Maximal(r.toks)) THEN TRUE ELSE Rej(r, "law", "lost-mixed-or-split", <<>>))
         /\ (IF r.exc # "" \/ r.stripped = Stripped(r.s) THEN TRUE ELSE Rej(r, "abs", "stripped", Stripped(r.s)))
         /\ (IF r.exc # "" \/ r.filt = Filtered(r.s) THEN TRUE ELSE Rej(r, "abs", "filtered", Filtered(r.s)))
         /\ (IF r.exc # "" \/ Len(NoColon(r.s)) = 0 \/ r.nocolon = Tokens(NoColon(r.s)) THEN TRUE ELSE Rej(r, "abs", "nocolon", Tokens(NoColon(r.s))))
TInit == l = 0
TNext == l < Len(Tr) /\ l' = l + 1 /\ Check(Tr[l + 1])
TSpec == TInit /\ [][TNext]_l
Consumed == PrintT(<<"CONSUMED", TLCGet("stats").diameter - 1, Len(Tr)>>)
=============================================================================
