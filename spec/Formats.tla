------------------------------ MODULE Formats ------------------------------
(* `parse_with_formats` (date.py:176-212) for ONE format that matched: the strptime reading,        *)
(* completion of the parts the format cannot express, the current-year default.  The format is      *)
(* abstracted by which parts it states; `today` is the system clock (NOT the reference time: this   *)
(* parser ignores RELATIVE_BASE).  Timezone application is modelled in Timezone.tla.               *)
EXTENDS Calendar

\* fl: [day, month, year : BOOLEAN]  which parts the format has directives for (%d | %m %b %B | %y %Y)
\* rd: the raw strptime reading <<y,m,d,h,mi,s,us>> (1900 / 1 / 1 for absent parts)
\* sg: [pdom, pmoy]
FmtFail == <<"fail">>

SetMonth(dt, pmoy, today) ==
  LET m == CASE pmoy = "first" -> 1 [] pmoy = "last" -> 12 [] OTHER -> today[2] IN
  IF dt[3] <= DIM(dt[1], m) THEN <<dt[1], m, dt[3], dt[4], dt[5], dt[6], dt[7]>>
  ELSE <<dt[1], 12, dt[3], dt[4], dt[5], dt[6], dt[7]>>

SetDay(dt, pdom, today) ==
  LET last == DIM(dt[1], dt[2])
      d == CASE pdom = "first" -> 1 [] pdom = "last" -> last [] OTHER -> today[3] IN
  <<dt[1], dt[2], IF d <= last THEN d ELSE last, dt[4], dt[5], dt[6], dt[7]>>

FmtComplete(fl, rd, sg, today) ==
  LET a == IF ~fl.month /\ ~fl.day THEN SetDay(SetMonth(rd, sg.pmoy, today), sg.pdom, today)
           ELSE IF ~fl.month THEN SetMonth(rd, sg.pmoy, today)
           ELSE IF ~fl.day THEN SetDay(rd, sg.pdom, today)
           ELSE rd
      per == IF ~fl.month THEN "year" ELSE IF ~fl.day THEN "month" ELSE "day"
  IN IF fl.year THEN [out |-> a, period |-> per]
     ELSE IF ValidDate(today[1], a[2], a[3])
            THEN [out |-> <<today[1], a[2], a[3], a[4], a[5], a[6], a[7]>>, period |-> per]
            ELSE [out |-> FmtFail, period |-> ""]      \* replace(year=...) raises ValueError (Feb 29)
=============================================================================
