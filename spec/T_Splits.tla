------------------------------ MODULE T_Splits ------------------------------
\* Refinement-on-trace of the search's splitting of unparsed chunks (SearchSplit.tla): one record per observed call of
\* split_by (the number of pieces and the candidates the code returned, as ranges over the pieces) and of
\* choose_best_split (what came out of parsing each candidate's pieces, and which candidate the code returned).
EXTENDS SearchSplit, Json, IOUtils, TLC

Tr == ndJsonDeserialize(IOEnv.TRACE_FILE)
VARIABLE l
Check(r) ==
  IF r.kind = "relbase"
    THEN (IF r.chosen = RelativeBaseIndex(r.rel) THEN TRUE ELSE PrintT(<<"REJECT", r.tid, "abs", "relative-base", RelativeBaseIndex(r.rel)>>))
  ELSE IF r.kind = "splitby"
    THEN (IF r.aligned /\ r.cands = SplitBy(r.n) THEN TRUE ELSE PrintT(<<"REJECT", r.tid, "abs", "split-by", SplitBy(r.n)>>))
    ELSE (IF Len(r.cands) > 0 /\ r.chosen = Best(r.cands) THEN TRUE
          ELSE PrintT(<<"REJECT", r.tid, "abs", "best-split", IF Len(r.cands) > 0 THEN Best(r.cands) ELSE 0>>))
TInit == l = 0
TNext == l < Len(Tr) /\ l' = l + 1 /\ Check(Tr[l + 1])
TSpec == TInit /\ [][TNext]_l
Consumed == PrintT(<<"CONSUMED", TLCGet("stats").diameter - 1, Len(Tr)>>)
=============================================================================
