------------------------------ MODULE P_Periods ------------------------------
\* Laws of Periods.tla over a grid of instants around month / year / week / leap-day boundaries.
EXTENDS Periods, TLC
CONSTANTS Instants, Steps       \* Instants: set of datetimes; Steps: set of step records for date_range
VARIABLES lo, hi, p, kw
\* (the period and the step are varied one at a time: the two laws are about different functions)
Init == /\ lo \in Instants /\ hi \in Instants
        /\ \/ p \in PeriodNames /\ kw = CHOOSE k \in Steps : TRUE
           \/ p = "day" /\ kw \in Steps
Next == UNCHANGED <<lo, hi, p, kw>>
Spec == Init /\ [][Next]_<<lo, hi, p, kw>>

\* sub-day periods only over spans of less than two days (the model enumerates every start)
Small == p \in {"year", "month", "week", "day"} \/ OrdOf(hi) - OrdOf(lo) < 2
PeriodsTile == Small /\ (p # "second" \/ OrdOf(hi) = OrdOf(lo)) => Tiles(lo, hi, p, Intersecting(lo, hi, p))
RangeLaw == RangeOK(lo, hi, kw, DateRange(lo, hi, kw))
=============================================================================
