----------------------------- MODULE P_Validate -----------------------------
\* E1 for Validate.tla: settings dicts of up to MaxEntries entries over representative keys and one value of every
\* type class.  Laws: acceptance does not depend on the order of the entries (only the class of the rejection may),
\* a rejected dict stays rejected when entries are added, an accepted dict has every value of the declared type.
EXTENDS Validate, TLC

CONSTANT MaxEntries
Keys == {"DATE_ORDER", "TIMEZONE", "STRICT_PARSING", "RELATIVE_BASE", "REQUIRE_PARTS", "SKIP_TOKENS", "PARSERS", "DEFAULT_LANGUAGES",
         "LANGUAGE_DETECTION_CONFIDENCE_THRESHOLD", "CACHE_SIZE_LIMIT", "NOT_A_SETTING"}
V(t, s, items, in01) == [t |-> t, s |-> s, items |-> items, in01 |-> in01]
I(t, s) == [t |-> t, s |-> s]
Values == { V("str", "DMY", <<>>, FALSE), V("str", "dmy", <<>>, FALSE), V("str", "UTC", <<>>, FALSE), V("bool", "", <<>>, TRUE), V("int", "", <<>>, FALSE),
            V("float", "", <<>>, TRUE), V("float", "", <<>>, FALSE), V("none", "", <<>>, FALSE), V("datetime", "", <<>>, FALSE), V("tuple", "", <<I("str", "day")>>, FALSE),
            V("list", "", <<>>, FALSE), V("list", "", <<I("str", "day")>>, FALSE), V("list", "", <<I("str", "day"), I("str", "day")>>, FALSE),
            V("list", "", <<I("str", "en")>>, FALSE), V("list", "", <<I("str", "absolute-time")>>, FALSE), V("list", "", <<I("int", "int:1")>>, FALSE),
            V("list", "", <<I("list", "list")>>, FALSE) }

VARIABLE d
Init == d = <<>>
Add == Len(d) < MaxEntries /\ \E k \in Keys, v \in Values : (\A i \in 1..Len(d) : d[i][1] # k) /\ d' = Append(d, <<k, v>>)
Spec == Init /\ [][Add]_d

Reverse(s) == [i \in 1..Len(s) |-> s[Len(s) + 1 - i]]
Accepted(x) == DictVerdict(x) = "ok"
Unspecified(x) == \E i \in 1..Len(x) : Known(x[i][1]) /\ EntryVerdict(x[i][1], x[i][2]) = "unspecified"
OrderInsensitive == ~Unspecified(d) => (Accepted(d) <=> Accepted(Reverse(d)))
StaysRejected == [][~Accepted(d) => ~Accepted(d')]_d
AcceptedAreTyped == DictVerdict(d) = "ok" => \A i \in 1..Len(d) : Known(d[i][1]) /\ IsInstance(d[i][2].t, TypeOf(d[i][1]))
\* non-vacuity: both outcomes and both rejection classes occur
=============================================================================
