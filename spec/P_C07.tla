------------------------------ MODULE P_C07 ------------------------------
(* E1 for C07: TLC enumerates every case of the bounded domain and checks that the machine of     *)
(* AbsParser returns what the oracle of O_C07 demands.                                             *)
EXTENDS O_C07

CONSTANTS Years,        \* grid of years enumerated by TLC
          Orders        \* the six orders

Tokens(f, withTime, tm) ==
  LET date == <<NumT(f[1][1], f[1][2]), SepT(FALSE), NumT(f[2][1], f[2][2]), SepT(FALSE),
                NumT(f[3][1], f[3][2])>>
  IN IF withTime THEN date \o <<SepT(FALSE), ColT(<<<<2, tm[1]>>, <<2, tm[2]>>, <<2, tm[3]>>>>)>>
     ELSE date

Sg(order) == [order |-> order, pdf |-> "current_period", pdom |-> "current", pmoy |-> "current",
              base |-> <<2021, 6, 15, 12, 0, 0, 0>>, strict |-> FALSE, require |-> {},
              rtap |-> FALSE, tzoff |-> 0]

Digits(v) == IF v >= 1000 THEN 4 ELSE IF v >= 100 THEN 3 ELSE IF v >= 10 THEN 2 ELSE 1
FieldsOf(order, y, m, d, pad) ==
  [i \in 1..3 |->
     LET ch == OrderLetters(order)[i] IN
     IF ch = "Y" THEN <<4, y>>
     ELSE IF ch = "M" THEN <<IF pad THEN 2 ELSE Digits(m), m>>
     ELSE <<IF pad THEN 2 ELSE Digits(d), d>>]

VARIABLE c
Null == [stage |-> 0]
Init == c = Null
PickYear == /\ c.stage = 0
            /\ \E y \in Years : c' = [stage |-> 1, y |-> y]
PickRest == /\ c.stage = 1
            /\ \E m \in 1..12, o \in Orders, pad \in BOOLEAN, wt \in BOOLEAN :
                 \E d \in 1..DIM(c.y, m) :
                   c' = [stage |-> 2, y |-> c.y, m |-> m, d |-> d, o |-> o, pad |-> pad, wt |-> wt]
Next == PickYear \/ PickRest
Spec == Init /\ [][Next]_c

CaseTm(cc) == IF cc.wt THEN <<(cc.d * 7) % 24, (cc.m * 5 + cc.d) % 60, (cc.y + cc.d) % 60>> ELSE <<0, 0, 0>>
CaseF(cc) == FieldsOf(cc.o, cc.y, cc.m, cc.d, cc.pad)

\* every generated case is inside the domain (guards against a vacuous invariant)
GeneratedInDomain == c.stage = 2 => InDomain(c.o, CaseF(c), "/")
\* the machine returns the reading the statement demands, with period "day"
ExplicitOrderDecides ==
  c.stage = 2 =>
    LET r == Parse(Tokens(CaseF(c), c.wt, CaseTm(c)), Sg(c.o)) IN
    /\ r.out = Expected(c.o, CaseF(c), CaseTm(c))
    /\ r.period = "day"
\* a four-digit token is always the year, whatever the order says about that position
FourDigitPinsYear ==
  c.stage = 2 =>
    \A o2 \in Orders :
      LET r == Parse(Tokens(CaseF(c), FALSE, <<0, 0, 0>>), Sg(o2)) IN
      r.out # Fail => r.out[1] = c.y
=============================================================================
