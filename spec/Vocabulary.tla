----------------------------- MODULE Vocabulary -----------------------------
(* The per-locale dictionary of dateparser (languages/dictionary.py:75-108, 333-352) as an ordered   *)
(* override: sections are written into one map in code order -- skip, pertain, the known words in    *)
(* KNOWN_WORD_TOKENS order, the always-kept and parser tokens, relative-type words -- so a form       *)
(* listed in several sections resolves to the LAST one written.  The harness exports, per word form,  *)
(* the sequence of section keys that write it (string work -- lower-casing, NFKD -- is projection).   *)
EXTENDS Naturals, Sequences, FiniteSets

\* assign: sequence of keys written for this form, in construction order ("" for skip / pertain words)
Resolve(assign) == IF assign = <<>> THEN "<absent>" ELSE assign[Len(assign)]
Meanings(assign) == {assign[i] : i \in 1..Len(assign)}
SingleMeaning(assign) == Cardinality(Meanings(assign)) = 1
=============================================================================
