------------------------------- MODULE T_C04 -------------------------------
(* Trace validation for C04: "c04" (explicit reference time), "c04now" (implicit now, bracketed by    *)
(* the clock read before and after the call).  Refinement: the machine of Freshness must give the      *)
(* observed value for the abstract phrase.                                                          *)
EXTENDS O_C04, Freshness, Json, IOUtils, TLC

Tr == ndJsonDeserialize(IOEnv.TRACE_FILE)
VARIABLE l

SeqToSet(s) == {s[i] : i \in 1..Len(s)}
Exp(r) == Expected(r.b, r.kw, r.dir, r.pdf, r.tov)
ExpPeriod(r) == ExpectedPeriod(SeqToSet(r.counted), r.tov, r.rtap, r.b, r.kw, r.dir, r.pdf)

Verdict(r) ==
  IF ~InDomain(r.b, r.kw) THEN "skip"
  \* a bare phrase (neither "in" nor "ago") whose value is out of range falls through to the other
  \* parsers ("5000 years" is then read as the year 5000): not a form the statement speaks about
  ELSE IF r.dir = "none" /\ Exp(r) = None THEN "skip"
  ELSE IF r.exc # "" THEN "exception"
  ELSE IF r.out # Exp(r) THEN "wrong-datetime"
  ELSE IF r.out # None /\ r.period # ExpPeriod(r) THEN "wrong-period"
  ELSE "ok"

\* implicit now: utc clock c0 <= now <= c1; TIMEZONE offset zoff, TO_TIMEZONE offset tooff
NowExp(r, clk) ==
  LET e == Expected(ShiftSeconds(clk, r.zoff), r.kw, r.dir, r.pdf, r.tov) IN
  IF e = None THEN None ELSE ShiftSeconds(e, r.tooff - r.zoff)
NowVerdict(r) ==
  LET lo == NowExp(r, r.c0)  hi == NowExp(r, r.c1) IN
  IF r.exc # "" THEN "exception"
  ELSE IF lo = None \/ hi = None THEN "skip"
  ELSE IF r.out = None THEN "none"
  ELSE IF NotAfter(lo, r.out) /\ NotAfter(r.out, hi) THEN "ok" ELSE "outside-bracket"

\* refinement: the abstract phrase through the machine
MachineVerdict(r) ==
  LET m == FreshParse(r.b, [terms |-> r.terms, dir |-> r.dir, tov |-> r.tov], r.pdf, r.rtap) IN
  IF m.out = <<"unsupported">> \/ (r.dir = "none" /\ m.out = None) THEN "skip"
  ELSE IF m.out = r.out /\ (r.out = None \/ m.period = r.period) THEN "ok" ELSE "drift"

Check(r) ==
  IF r.kind = "c04now"
    THEN LET v == NowVerdict(r) IN
         IF v = "skip" THEN PrintT(<<"SKIP", r.tid, "prop">>)
         ELSE IF v # "ok" THEN PrintT(<<"REJECT", r.tid, "prop", v, <<NowExp(r, r.c0), NowExp(r, r.c1)>>>>) ELSE TRUE
    ELSE LET v == Verdict(r)  mv == MachineVerdict(r) IN
         /\ (IF v = "skip" THEN PrintT(<<"SKIP", r.tid, "prop">>)
             ELSE IF v # "ok" THEN PrintT(<<"REJECT", r.tid, "prop", v, <<Exp(r), ExpPeriod(r)>>>>) ELSE TRUE)
         /\ (IF mv = "drift" THEN PrintT(<<"REJECT", r.tid, "abs", mv, <<"Freshness">>>>) ELSE TRUE)

TInit == l = 0
TNext == l < Len(Tr) /\ l' = l + 1 /\ Check(Tr[l + 1])
TSpec == TInit /\ [][TNext]_l
Consumed == PrintT(<<"CONSUMED", TLCGet("stats").diameter - 1, Len(Tr)>>)
=============================================================================
