----------------------------- MODULE Freshness -----------------------------
(* The relative-date parser (freshness_date_parser.py) on abstract phrases.  One operator per      *)
(* implementation step: ExtractUnits (regex findall + decade folding, a repeated unit overwrites),  *)
(* PeriodOf, Direction, Apply (dateutil.relativedelta semantics: years, months with wrap-around,     *)
(* ONE clamp of the day, then the sub-month part as a timedelta), TimeOverride, Overflow -> None.   *)
(*                                                                                                 *)
(* A phrase is [terms |-> <<[u, num, den]...>>, dir \in {"in", "ago", "none"}, tov |-> <<>> | <<h,mi,s,us>>]; *)
(* counts are rationals num/den.  `now` is a 7-tuple (the wall clock of the reference in TIMEZONE).  *)
EXTENDS Calendar

Units == {"decade", "year", "month", "week", "day", "hour", "minute", "second"}
FNone == <<>>

\* get_kwargs: later occurrences of a unit overwrite earlier ones; decades fold into years
RECURSIVE LastOf(_, _, _)
LastOf(terms, u, i) == IF i = 0 THEN <<>> ELSE IF terms[i].u = u THEN <<terms[i].num, terms[i].den>>
                       ELSE LastOf(terms, u, i - 1)
Has(terms, u) == LastOf(terms, u, Len(terms)) # <<>>
Cnt(terms, u) == LET r == LastOf(terms, u, Len(terms)) IN IF r = <<>> THEN <<0, 1>> ELSE r

IsInt(q) == q[1] % q[2] = 0
IntOf(q) == q[1] \div q[2]

\* kwargs keys present after folding
HasYears(terms) == Has(terms, "year") \/ Has(terms, "decade")
PeriodOf(terms) ==
  IF Has(terms, "day") THEN "day"
  ELSE IF Has(terms, "week") THEN "week"
  ELSE IF Has(terms, "month") THEN "month"
  ELSE IF HasYears(terms) THEN "year"
  ELSE "day"

Sign(dir, pdf) == IF dir = "in" \/ (pdf = "future" /\ dir # "ago") THEN 1 ELSE -1

\* relativedelta(years, months, weeks, days, hours, minutes, seconds) applied with sign sg.
\* Non-integer years / months make dateutil raise ValueError -> None.
\* Sub-day units: whole seconds and microseconds of num/den units of U seconds.
WholeSecs(q, U) == (q[1] * U) \div q[2]
\* floor(rem * 10^6 / den) for 0 <= rem < den <= 10^6, without leaving TLC's 32-bit integers
ScaleMicros(rem, den) == LET a == rem * 1000 IN (a \div den) * 1000 + ((a % den) * 1000) \div den
RemMicros(q, U) == ScaleMicros((q[1] * U) % q[2], q[2])

Apply(now, terms, sg) ==
  LET yq == Cnt(terms, "year")  dq == Cnt(terms, "decade")  mq == Cnt(terms, "month")
      wq == Cnt(terms, "week")  ddq == Cnt(terms, "day")
      hq == Cnt(terms, "hour")  miq == Cnt(terms, "minute")  sq == Cnt(terms, "second")
  IN IF ~IsInt(mq) THEN FNone
     ELSE IF ~IsInt(<<yq[1] * dq[2] + 10 * dq[1] * yq[2], yq[2] * dq[2]>>) THEN FNone
     ELSE IF ~IsInt(wq) \/ ~IsInt(ddq) THEN <<"unsupported">>      \* fractional weeks / days: outside this model
     ELSE
       LET years0  == IntOf(<<yq[1] * dq[2] + 10 * dq[1] * yq[2], yq[2] * dq[2]>>)
           months0 == IntOf(mq)
           \* relativedelta._fix: months beyond 11 carry into years
           years   == years0 + (months0 \div 12)
           months  == months0 % 12
           y1      == now[1] + sg * years
           t       == (now[2] - 1) + sg * months
           y2      == y1 + (IF t > 11 THEN 1 ELSE IF t < 0 THEN -1 ELSE 0)
           m2      == (t % 12) + 1
       IN IF y2 < 1 \/ y2 > 9999 \/ y1 < 1 \/ y1 > 9999 THEN FNone
          ELSE LET d2 == IF now[3] > DIM(y2, m2) THEN DIM(y2, m2) ELSE now[3]
                   mid == <<y2, m2, d2, now[4], now[5], now[6], now[7]>>
                   days == sg * (7 * IntOf(wq) + IntOf(ddq))
                   secs == sg * (WholeSecs(hq, 3600) + WholeSecs(miq, 60) + WholeSecs(sq, 1))
                   us   == sg * (RemMicros(hq, 3600) + RemMicros(miq, 60) + RemMicros(sq, 1))
               IN AddDSU(mid, days, secs, us)

\* the whole parser: [out, period]
FreshParse(now, ph, pdf, rtap) ==
  IF ph.terms = <<>> THEN [out |-> FNone, period |-> ""]
  ELSE LET d == Apply(now, ph.terms, Sign(ph.dir, pdf)) IN
       IF d = FNone \/ d = <<"unsupported">> THEN [out |-> d, period |-> ""]
       ELSE LET d2 == IF ph.tov = <<>> THEN d ELSE WithTime(d, ph.tov[1], ph.tov[2], ph.tov[3], ph.tov[4])
                per == IF rtap /\ ph.tov # <<>> /\ d2 # d THEN "time" ELSE PeriodOf(ph.terms)
            IN [out |-> d2, period |-> per]
=============================================================================
