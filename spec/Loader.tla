------------------------------- MODULE Loader -------------------------------
\* The loader as a state machine over the process-wide cache (see LoaderOps.tla for the pairing): E1 explores every
\* sequence of MaxCalls calls over a small world; the pinned pairing (Paired = FALSE) must be refuted.
EXTENDS LoaderOps

CONSTANT MaxCalls
AllRegions == UNION {RegionsOf(l) : l \in Langs} \cup {"ZZ"}
VARIABLES cache, calls, last
vars == <<cache, calls, last>>

LangLists == {<<a>> : a \in Langs} \cup {<<a, b>> : a, b \in Langs}
Init == cache = [n \in {} |-> ""] /\ calls = 0 /\ last = <<>>
Load == /\ calls < MaxCalls
        /\ \E ls \in LangLists, r \in AllRegions \cup {""}, given \in BOOLEAN :
             LET plan == Plan(ls, r, given) IN
             /\ last' = [args |-> <<ls, r, given>>, out |-> Yielded(cache, plan), fresh |-> Yielded([n \in {} |-> ""], plan)]
             /\ cache' = Fill(cache, plan, 1)
        /\ calls' = calls + 1
Spec == Init /\ [][Load]_vars

\* every cached object was built from the data of the language its name says
CacheConsistent == \A n \in DOMAIN cache : n[1] = cache[n]
\* no object without a name
NoNamelessLocale == \A n \in DOMAIN cache : n[1] # NoName
\* what a call yields does not depend on earlier calls
HistoryFree == last # <<>> => last.out = last.fresh
\* every requested language is represented by exactly one yielded locale, built from its own data
EveryLanguageServed ==
  last # <<>> => \A i \in 1..Len(last.args[1]) :
                   \E j \in 1..Len(last.out) : last.out[j][1][1] = last.args[1][i] /\ last.out[j][2] = last.args[1][i]
=============================================================================
