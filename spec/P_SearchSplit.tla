--------------------------- MODULE P_SearchSplit ---------------------------
\* Laws of SearchSplit.tla, checked over every number of pieces up to MaxN and every list of up to three candidates of up
\* to MaxPieces parsed pieces.
EXTENDS SearchSplit, TLC
CONSTANTS MaxN, MaxPieces

Piece == [parsed : BOOLEAN, digit : BOOLEAN]
Cand == UNION {[1..k -> Piece] : k \in 0..MaxPieces}
VARIABLES n, cands
\* (the two groups of laws are about different things: the piece count and the candidate list are varied separately)
Init == \/ /\ n \in 1..MaxN
           /\ cands = << <<>> >>
        \/ /\ n = 1
           /\ cands \in UNION {[1..k -> Cand] : k \in 1..3}
Next == UNCHANGED <<n, cands>>
Spec == Init /\ [][Next]_<<n, cands>>

\* every candidate split is a partition of the chunk's pieces into consecutive runs: nothing is lost, doubled or invented
Lossless == \A k \in 1..Len(SplitBy(n)) : IsPartition(SplitBy(n)[k], n)
\* non-vacuity of Lossless: the "grouper" way of taking pieces `size` at a time, which pads the last group to full size
\* (seeded change F-C17), is NOT a partition whenever the piece count is not a multiple of the size
Padded(m, size) == [k \in 1..((m + size - 1) \div size) |-> <<(k - 1) * size + 1, k * size>>]
PaddedGrouperRefuted == \A size \in {2, 3} : (n > 3 /\ n % size # 0) => ~IsPartition(Padded(n, size), n)
\* one candidate for up to three pieces, three (singles, pairs, triples) beyond
CandidateCount == Len(SplitBy(n)) = IF n <= 3 THEN 1 ELSE 3
GroupSizes == n > 3 => /\ Len(SplitBy(n)[1]) = n
                       /\ Len(SplitBy(n)[2]) = (n + 1) \div 2
                       /\ Len(SplitBy(n)[3]) = (n + 2) \div 3
\* the chooser always picks one, nobody beats it, and every earlier candidate is beaten by it
BestExists == Best(cands) \in 1..Len(cands)
BestUnbeaten == \A j \in 1..Len(cands) : ~Better(cands[j], cands[Best(cands)])
\* a candidate all of whose pieces parsed is never passed over for one with an unparsed piece
FullyParsedWins == \A i, j \in 1..Len(cands) :
                     (NotParsed(cands[i]) = 0 /\ NotParsed(cands[j]) > 0) => Best(cands) # j
\* the base of a relative piece is an absolute one, and no absolute piece lies between it and the relative piece
RelFlags == UNION {[1..k -> BOOLEAN] : k \in 0..6}
RelativeBaseLaw == \A rel \in RelFlags : LET b == RelativeBaseIndex(rel) IN
                     /\ (b # 0 => ~rel[b] /\ \A j \in (b + 1)..Len(rel) : rel[j])
                     /\ (b = 0 => \A j \in 1..Len(rel) : rel[j])
\* (a peculiarity, stated so that a change to it is noticed: a candidate without any piece to parse has the best key)
EmptyCandidateWins == (\E i \in 1..Len(cands) : Len(cands[i]) = 0) => Len(cands[Best(cands)]) = 0
=============================================================================
