------------------------------- MODULE Detect -------------------------------
\* Language detection for search_dates (search/text_detection.py: FullTextLanguageDetector._best_language): which of
\* the candidate languages a text is searched in.  Per candidate language, in the order given, the text is abstracted to
\*     uniq   one of the language's UNIQUE letters (letters no other candidate has) occurs in the text
\*     chars  the text shares at least one letter with the language
\*     cnt    <<dictionary words, skip words / numbers>> of the text that the language knows (count_applicability),
\*            taken with the timezone left in and, if that finds nothing, with the timezone stripped
\* and symbolsOnly says that the text consists of digits and separators only.
EXTENDS Naturals, Sequences

None == 0
First(cands, P(_)) == IF \E i \in 1..Len(cands) : P(i) THEN CHOOSE i \in 1..Len(cands) : P(i) /\ \A j \in 1..(i - 1) : ~P(j) ELSE None

\* lexicographic maximum of (dict count, skip count); the FIRST candidate among equals (Python's max)
Better(a, b) == a[1] > b[1] \/ (a[1] = b[1] /\ a[2] > b[2])
BestOf(cands, S) ==
  IF S = {} THEN None
  ELSE CHOOSE i \in S : /\ \A j \in S : ~Better(cands[j].cnt, cands[i].cnt)
                         /\ \A k \in S : (k < i) => Better(cands[i].cnt, cands[k].cnt)

Applicable(c) == c.cnt[1] > 0 \/ c.cnt[2] > 0

\* index of the chosen candidate (0: none)
BestLanguage(cands, symbolsOnly) ==
  IF symbolsOnly THEN 1
  ELSE LET u == First(cands, LAMBDA i : cands[i].uniq) IN
       IF u # None THEN u
       ELSE LET keep == {i \in 1..Len(cands) : cands[i].chars} IN
            IF keep = {} THEN None
            ELSE IF \E i \in keep : keep = {i} THEN CHOOSE i \in keep : TRUE
            ELSE BestOf(cands, {i \in keep : Applicable(cands[i])})
=============================================================================
