------------------------------- MODULE O_C12 -------------------------------
(* C12 - timezone settings preserve the instant; awareness follows the setting (oracle).           *)
(* offA: UTC offset of the zone the written wall clock is read in (the string's own zone if it has  *)
(* one, else TIMEZONE), offT: offset of the target zone at that instant (TO_TIMEZONE if set, else    *)
(* TIMEZONE when the string carries its own zone, else the zone it was read in).                    *)
EXTENDS Calendar

NaiveOff == 100000
ExpWall(w, offA, offT) == ShiftSeconds(w, offT - offA)
ExpOff(rata, hasOwn, offT) == IF rata = "true" \/ (rata = "default" /\ hasOwn) THEN offT ELSE NaiveOff
InDomain(w, offA, offT) == ValidDT(w) /\ ExpWall(w, offA, offT) # None /\ ShiftSeconds(w, -offA) # None
=============================================================================
