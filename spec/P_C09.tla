------------------------------- MODULE P_C09 -------------------------------
(* E1 for C09: the faithful machine (month fix AFTER the weekday / time shift, as the code has it)  *)
(* satisfies `Holds` except exactly on the known-finding signature; with the month fix skipped for *)
(* weekday-only / time-only strings (the repaired design) it satisfies `Holds` everywhere.          *)
EXTENDS O_C09, AbsParser

CONSTANTS BaseYears, BaseDays, BaseTimes, ClockGrid, YYs
\* BaseDays: month*100+day codes, negative day = counted from the month end (-1 = last day)
Prefs == {"past", "future", "current_period"}

VARIABLE c
Init == c = [stage |-> 0]
DayOf(y, code) == LET m == code \div 100  d == code % 100 IN
                  IF d >= 90 THEN <<m, DIM(y, m) - (99 - d)>> ELSE <<m, d>>
PickBase == /\ c.stage = 0
            /\ \E y \in BaseYears, dc \in BaseDays, t \in BaseTimes :
                 LET md == DayOf(y, dc) IN
                 /\ ValidDate(y, md[1], md[2])
                 /\ c' = [stage |-> 1, base |-> <<y, md[1], md[2], t \div 100, t % 100, 0, 0>>]
Mk(form, pref, w, t, m, d, yy) ==
  [stage |-> 2, base |-> c.base, form |-> form, pref |-> pref, w |-> w, t |-> t, m |-> m, d |-> d,
   yy |-> yy, off |-> 0, boff |-> 0]
PickCase == /\ c.stage = 1
            /\ \E p \in Prefs :
                 \/ \E w \in 0..6 : c' = Mk("weekday", p, w, <<0, 0, 0, 0>>, 0, 0, 0)
                 \/ \E g \in ClockGrid : c' = Mk("time", p, 0, <<g \div 100, g % 100, 0, 0>>, 0, 0, 0)
                 \/ \E m \in 1..12 : c' = Mk("month", p, 0, <<0, 0, 0, 0>>, m, 0, 0)
                 \/ \E m \in 1..12, d \in {1, 15, 28, 29, 30, 31} :
                      d <= DIM(2000, m) /\ c' = Mk("daymonth", p, 0, <<0, 0, 0, 0>>, m, d, 0)
                 \* day and month with a clock time: the reference's own day and month (the time decides the side) and two others
                 \/ \E md \in {<<c.base[2], c.base[3]>>, <<1, 1>>, <<12, 31>>, <<6, 15>>}, g \in ClockGrid :
                      md[2] <= DIM(2000, md[1]) /\ c' = Mk("daymonthtime", p, 0, <<g \div 100, g % 100, 0, 0>>, md[1], md[2], 0)
                 \/ \E m \in {2, 6, 12}, d \in {1, 28, 30}, yy \in YYs :
                      d <= DIMTab[m] /\ c' = Mk("yy", p, 0, <<0, 0, 0, 0>>, m, d, yy)
Next == PickBase \/ PickCase
Spec == Init /\ [][Next]_c

Sg(cc) == [order |-> "MDY", pdf |-> cc.pref, pdom |-> "current", pmoy |-> "current", base |-> cc.base,
           strict |-> FALSE, require |-> {}, rtap |-> FALSE, tzoff |-> 0]
NLen(v) == IF v >= 10 THEN 2 ELSE 1
Toks(cc) ==
  CASE cc.form = "weekday"  -> <<WeekdayT(cc.w)>>
    [] cc.form = "time"     -> <<ColT(<<<<2, cc.t[1]>>, <<2, cc.t[2]>>>>)>>
    [] cc.form = "month"    -> <<MonthT(cc.m)>>
    [] cc.form = "daymonth" -> <<NumT(NLen(cc.d), cc.d), SepT(FALSE), MonthT(cc.m)>>
    [] cc.form = "daymonthtime" -> <<NumT(NLen(cc.d), cc.d), SepT(FALSE), MonthT(cc.m), SepT(FALSE), ColT(<<<<2, cc.t[1]>>, <<2, cc.t[2]>>>>)>>
    [] cc.form = "yy"       -> <<NumT(NLen(cc.d), cc.d), SepT(FALSE), MonthT(cc.m), SepT(FALSE), NumT(2, cc.yy)>>

GeneratedInDomain == c.stage = 2 => InDomain(c)
\* the pinned design: property or the exact known-finding signature
HoldsOrKnownFinding ==
  c.stage = 2 =>
    LET r == Parse(Toks(c), Sg(c)) IN
    \/ r.out = Fail /\ c.form = "yy" /\ c.m = 2 /\ c.d = 29      \* not generated; kept for clarity
    \/ Holds(c, r.out)
    \/ SigMonthOverride(c, r.out)
\* the signature is exact: whenever the demanded value leaves the reference month the pinned machine
\* shows the overridden value (so a different wrong value can never hide behind the finding)
SignatureExact ==
  c.stage = 2 /\ c.form \in {"weekday", "time"} =>
    LET r == Parse(Toks(c), Sg(c))  e == Demanded(c) IN
    IF e[2] # c.base[2] THEN r.out = MonthOverridden(e, c.base) ELSE r.out = e
\* the repaired design (month fix skipped when only a weekday / a time was given) satisfies the property
RepairedHolds ==
  c.stage = 2 /\ c.form \in {"weekday", "time"} =>
    LET m == Machine(Toks(c), Sg(c))
        tf == TimeFrame(m.st, Sg(c), Results(m.st, Sg(c)))
    IN Holds(c, DayFix(m.st, Sg(c), tf))
=============================================================================
