------------------------------- MODULE P_C10 -------------------------------
(* E1 for C10: every presence subset of {day, month, year, weekday, time} in several field shapes   *)
(* x every REQUIRE_PARTS subset x two distant reference times through the machine; the relational    *)
(* invariants of O_C10 hold on the machine's outputs.                                               *)
EXTENDS O_C10, AbsParser

B1 == <<1970, 1, 1, 0, 0, 0, 0>>
B2 == <<2033, 12, 31, 23, 59, 0, 0>>
B3 == <<2024, 2, 29, 12, 0, 0, 0>>
CONSTANT UseB3
Bases == IF UseB3 THEN {B1, B2, B3} ELSE {B1, B2}

DayShapes == {NumT(2, 15), NumT(1, 5), NumT(2, 31), NumT(2, 29)}
MonthShapes == {MonthT(3), MonthT(2), NumT(2, 11), NumT(1, 4)}
YearShapes == {NumT(4, 2015), NumT(4, 1), NumT(2, 30), NumT(2, 99)}

VARIABLE c
Init == c = [stage |-> 0]
Subsets == SUBSET {"day", "month", "year", "weekday", "time"}
PickPresence == c.stage = 0 /\ \E ps \in Subsets \ {{}} : c' = [stage |-> 1, ps |-> ps]
\* token order: weekday, day, month, year, time (a natural English order); a second order year-first
Build(ps, d, m, y, yfirst) ==
  LET wd == IF "weekday" \in ps THEN <<WeekdayT(2), SepT(FALSE)>> ELSE <<>>
      dd == IF "day" \in ps THEN <<d, SepT(FALSE)>> ELSE <<>>
      mm == IF "month" \in ps THEN <<m, SepT(FALSE)>> ELSE <<>>
      yy == IF "year" \in ps THEN <<y, SepT(FALSE)>> ELSE <<>>
      tt == IF "time" \in ps THEN <<ColT(<<<<2, 10>>, <<2, 30>>>>)>> ELSE <<>>
  IN IF yfirst THEN wd \o yy \o mm \o dd \o tt ELSE wd \o dd \o mm \o yy \o tt
PickShape == /\ c.stage = 1
             /\ \E d \in DayShapes, m \in MonthShapes, y \in YearShapes, yf \in BOOLEAN, R \in SUBSET AllParts,
                   o \in {"MDY", "DMY", "YMD"} :
                  c' = [stage |-> 2, ps |-> c.ps, toks |-> Build(c.ps, d, m, y, yf), R |-> R, o |-> o,
                        unamb |-> (m.k = "a" /\ y.len = 4 /\ d.val > 12)]
Next == PickPresence \/ PickShape
Spec == Init /\ [][Next]_c

Sg(o, base, strict, R) == [order |-> o, pdf |-> "current_period", pdom |-> "current", pmoy |-> "current",
                           base |-> base, strict |-> strict, require |-> R, rtap |-> FALSE, tzoff |-> 0]
Norm(x) == IF x = Fail \/ x = Overflow THEN None ELSE x
Run(cc, base, strict, R) == Norm(Parse(cc.toks, Sg(cc.o, base, strict, R)).out)

Relations ==
  c.stage = 2 =>
    \A b1 \in Bases, b2 \in Bases :
      LET outN == Run(c, b1, FALSE, {})
          outS == Run(c, b1, TRUE, {})  outS2 == Run(c, b2, TRUE, {})
          outR == Run(c, b1, FALSE, c.R)  outR2 == Run(c, b2, FALSE, c.R)
          outSR == Run(c, b1, TRUE, c.R)  outSR2 == Run(c, b2, TRUE, c.R)      \* both switches at once
      IN /\ StrictFilters(outN, outS)
         /\ StrictFilters(outR, outSR) /\ ClockFree(outSR, outSR2) /\ outSR = outS
         /\ ClockFree(outS, outS2)
         /\ RequireFilters(outN, outR)
         /\ RequireClockFree(outR, outR2, c.R)
\* "a result only if the string states all parts": decided on unambiguous spellings (month by name,
\* four-digit year), where which parts the string states is not a matter of interpretation.  (With
\* numeric months a displaced token may legitimately be read as two parts: '11 0001' under YMD.)
StrictNeedsAllParts ==
  c.stage = 2 /\ c.unamb /\ c.o \in {"MDY", "DMY"} =>
    /\ StatesAll(Run(c, B1, TRUE, {}), c.ps)
    /\ StatesAll(Run(c, B1, TRUE, c.R), c.ps)
    /\ RequireStates(Run(c, B1, FALSE, c.R), c.ps, c.R)
=============================================================================
