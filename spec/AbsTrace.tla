----------------------------- MODULE AbsTrace -----------------------------
(* Refinement-on-trace for the absolute parser: every logged run of `_parser.parse` (event       *)
(* "absparse": abstract tokens, the settings fields the machine reads, outcome) must be exactly    *)
(* what the machine of AbsParser computes.                                                         *)
EXTENDS AbsParser

SeqToSet(s) == {s[i] : i \in 1..Len(s)}

AbsSg(r) == [order |-> r.sg.order, pdf |-> r.sg.pdf, pdom |-> r.sg.pdom, pmoy |-> r.sg.pmoy,
             base |-> r.sg.base, strict |-> r.sg.strict, require |-> SeqToSet(r.sg.require),
             rtap |-> r.sg.rtap, tzoff |-> r.sg.tzoff]

AbsModel(r) == Parse(r.toks, AbsSg(r))

\* "ok" | "skip" (outside the abstraction) | "drift"
AbsVerdict(r) ==
  IF r.sg.base = <<>> \/ r.skip THEN "skip"
  ELSE LET m == AbsModel(r) IN
       IF m.out = r.out /\ (m.period = r.period \/ r.out = Fail \/ r.out = Overflow) THEN "ok" ELSE "drift"
=============================================================================
