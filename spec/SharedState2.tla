---------------------------- MODULE SharedState2 ----------------------------
(* Two threads making public calls concurrently (C20).  Every read or write of shared state is one  *)
(* action.  A call of thread t is a program over the shared Settings fields:                         *)
(*   Enter (take the process-wide re-entrant lock when `Locked`)                                     *)
(*   ReInit        - API entry with a settings dict re-initialises the registry object in place      *)
(*   SaveOrder     - _order := settings.DATE_ORDER                  (date.py:277)                    *)
(*   SetLocaleOrder- settings.DATE_ORDER := locale order or _order  (date.py:279-283)                *)
(*   ReadOrder     - the absolute parser reads settings.DATE_ORDER  (parser.py:276-279)              *)
(*   Restore       - settings.DATE_ORDER := _order                  (date.py:289/295)                *)
(*   ReadBase      - the relative parser reads settings.RELATIVE_BASE                                *)
(*   SetBase/ResetBase - search writes RELATIVE_BASE and puts the previous value back                *)
(*   Exit (release)                                                                                  *)
(* `OnePreempt` restricts schedules to the property's quantifier: one thread is preempted once, the  *)
(* other runs to completion, the first resumes.                                                      *)
EXTENDS Naturals, Sequences, FiniteSets, TLC

CONSTANTS Locked,          \* TRUE: calls are serialised by the lock (the repaired design)
          OnePreemptOnly   \* TRUE: explore single-preemption schedules only

Threads == {"A", "B"}
Keys == {"d", "k"}                  \* default settings object, one non-default registry object
LocOrderOf(L) == CASE L = "en" -> "MDY" [] L = "fr" -> "DMY" [] OTHER -> ""
\* call kinds: numeric date with a locale; relative word; search (writes RELATIVE_BASE)
Calls == { [kind |-> "num", key |-> k, loc |-> L] : k \in Keys, L \in {"en", "fr", "tl"} }
         \cup { [kind |-> "rel", key |-> k, loc |-> "en"] : k \in Keys }
         \cup { [kind |-> "search", key |-> k, loc |-> "en"] : k \in Keys }

Prog(c) == CASE c.kind = "num"    -> <<"Enter", "ReInit", "SaveOrder", "SetLocaleOrder", "ReadOrder", "Restore", "Exit">>
             [] c.kind = "rel"    -> <<"Enter", "ReInit", "ReadBase", "Exit">>
             [] c.kind = "search" -> <<"Enter", "ReInit", "SaveBase", "SetBase", "ReadBase", "ResetBase", "Exit">>

VARIABLES call, pc, order, base, saved, used, lock, switches, last
vars == <<call, pc, order, base, saved, used, lock, switches, last>>

Init == /\ call \in [Threads -> Calls]
        /\ pc = [t \in Threads |-> 1]
        /\ order = [k \in Keys |-> "MDY"]
        /\ base = [k \in Keys |-> "none"]
        /\ saved = [t \in Threads |-> ""]
        /\ used = [t \in Threads |-> ""]
        /\ lock = ""
        /\ switches = 0 /\ last = ""

Done(t) == pc[t] > Len(Prog(call[t]))
Other(t) == IF t = "A" THEN "B" ELSE "A"

Exec(t) ==
  LET c == call[t]  k == c.key  op == Prog(c)[pc[t]] IN
  /\ ~Done(t)
  /\ (op = "Enter" /\ Locked) => lock = ""
  /\ lock' = IF op = "Enter" /\ Locked THEN t ELSE IF op = "Exit" /\ Locked THEN "" ELSE lock
  /\ order' = CASE op = "ReInit" /\ k # "d" -> [order EXCEPT ![k] = "MDY"]
                [] op = "SetLocaleOrder" -> [order EXCEPT ![k] = IF LocOrderOf(c.loc) # "" THEN LocOrderOf(c.loc) ELSE saved[t]]
                [] op = "Restore" -> [order EXCEPT ![k] = saved[t]]
                [] OTHER -> order
  /\ base' = CASE op = "ReInit" /\ k # "d" -> [base EXCEPT ![k] = "none"]
               [] op = "SetBase" -> [base EXCEPT ![k] = "B"]
               [] op = "ResetBase" -> [base EXCEPT ![k] = saved[t]]
               [] OTHER -> base
  /\ saved' = CASE op = "SaveOrder" -> [saved EXCEPT ![t] = order[k]]
                [] op = "SaveBase" -> [saved EXCEPT ![t] = base[k]]
                [] OTHER -> saved
  /\ used' = CASE op = "ReadOrder" -> [used EXCEPT ![t] = order[k]]
               [] op = "ReadBase" -> [used EXCEPT ![t] = base[k]]
               [] OTHER -> used
  /\ pc' = [pc EXCEPT ![t] = @ + 1]
  /\ switches' = IF last # "" /\ last # t THEN switches + 1 ELSE switches
  /\ last' = t
  /\ UNCHANGED call

Next == \E t \in Threads : Exec(t)
Spec == Init /\ [][Next]_vars

\* the statement's schedules: at most two context switches, and a switch back only once the other is done
OnePreempt == ~OnePreemptOnly \/ (switches <= 2 /\ (switches = 2 => Done(Other(last))))

\* what the same call uses when run alone
Expected(c) == CASE c.kind = "num" -> (IF LocOrderOf(c.loc) # "" THEN LocOrderOf(c.loc) ELSE "MDY")
                 [] c.kind = "rel" -> "none"
                 [] c.kind = "search" -> "B"
Linearizable == \A t \in Threads : Done(t) => used[t] = Expected(call[t])
MutualExclusion == Locked => ~(\E t \in Threads : pc[t] > 1 /\ ~Done(t) /\ pc[Other(t)] > 1 /\ ~Done(Other(t)))
=============================================================================
