----------------------------- MODULE P_Tokenize -----------------------------
\* E1 for Tokenize.tla: every text over a small alphabet (letters of two cases, a digit, a kept and an unkept
\* separator, the underscore) up to MaxLen, every vocabulary drawn from a pool of words that overlap, contain
\* separators or digits, with and without word spacing.  TLC evaluates the laws below in every state; the same
\* domain is replayed into the real Dictionary class (synthetic locales) and validated by T_Tokenize.
EXTENDS Tokenize, TLC

CONSTANTS MaxLen, PoolSize
Alphabet == {"x", "y", "X", "1", " ", ".", ",", "_"}
Fold(c) == IF c = "X" THEN "x" ELSE c
ClassOf(c) == CASE c \in {"x", "y", "X"} -> "L" [] c = "1" -> "D" [] c = "_" -> "U" [] OTHER -> "N"
Pool == << <<"x">>, <<"x", "y">>, <<"y", ".">>, <<"x", " ", "y">>, <<"1", "x">>, <<"y">> >>
Fixed == << <<".">>, <<" ">> >>             \* the always-kept tokens that can occur in this alphabet

VARIABLES text, dict, nospace
vars == <<text, dict, nospace>>

\* the alternation of the split regex: the dictionary keys in insertion order (chosen words, then the fixed
\* tokens), sorted by length, longest first, stable
Chosen == SelectSeq([i \in 1..PoolSize |-> IF i \in dict THEN Pool[i] ELSE <<>>], LAMBDA w : w # <<>>)
Keys == Chosen \o Fixed
Sorted == SelectSeq(Keys, LAMBDA w : Len(w) = 3) \o SelectSeq(Keys, LAMBDA w : Len(w) = 2) \o SelectSeq(Keys, LAMBDA w : Len(w) = 1)
Cls == [i \in 1..Len(text) |-> ClassOf(text[i])]
Kt == [i \in 1..Len(text) |-> text[i] \in {" ", "."}]
OccOf == [w \in 1..Len(Sorted) |->
            [len |-> Len(Sorted[w]),
             at |-> {i \in 1..Len(text) : /\ i + Len(Sorted[w]) - 1 <= Len(text)
                                          /\ \A k \in 1..Len(Sorted[w]) : Fold(text[i + k - 1]) = Sorted[w][k]}]]
Spans(keep) == ByKnownWords(Cls, Kt, OccOf, nospace, keep, 1)

Init == text = <<>> /\ dict \in SUBSET (1..PoolSize) /\ nospace \in BOOLEAN
Grow == Len(text) < MaxLen /\ \E c \in Alphabet : text' = Append(text, c) /\ UNCHANGED <<dict, nospace>>
Spec == Init /\ [][Grow]_vars

\* with formatting kept nothing is lost: the tokens tile the text
Lossless ==
  LET s == Spans(TRUE) IN
  IF text = <<>> THEN s = <<>>
  ELSE /\ s # <<>> /\ s[1][1] = 1 /\ s[Len(s)][2] = Len(text)
       /\ \A k \in 1..Len(s) : s[k][1] <= s[k][2]
       /\ \A k \in 1..(Len(s) - 1) : s[k + 1][1] = s[k][2] + 1
\* without formatting the tokens are exactly the capturable ones among those
KeepRefines == LET s == Spans(TRUE) IN Spans(FALSE) = SelectSeq(s, LAMBDA sp : Capt(Cls, Kt, FALSE, sp[1], sp[2]))
\* a vocabulary word that is matched is never cut: the first match is one token
FirstMatchIsAToken ==
  LET i == FirstMatch(Cls, OccOf, 1, nospace) IN
  i # 0 => LET w == WordAt(Cls, OccOf, i, nospace)  s == Spans(TRUE) IN \E k \in 1..Len(s) : s[k] = <<i, i + OccOf[w].len - 1>>
\* digits never share a token with letters unless a vocabulary word says so: with an empty choice of words every
\* token is a run of digits or free of digits
DigitsApart ==
  dict = {} => LET s == Spans(TRUE) IN \A k \in 1..Len(s) :
                  (\A j \in s[k][1]..s[k][2] : Cls[j] = "D") \/ (\A j \in s[k][1]..s[k][2] : Cls[j] # "D")
=============================================================================
