------------------------------- MODULE O_C04 -------------------------------
(* C04 - relative expressions are exact calendar arithmetic on the base (oracle from the statement, *)
(* DESIGN Appendix B): months first with a single clamp, then the sub-month part; None when the      *)
(* result leaves 0001..9999.                                                                        *)
EXTENDS Calendar

\* kw: [decade, year, month, week, day : Int; hour, minute, second : <<num, den>>]
\* `counted`: set of units that occur in the phrase
Rel(b, kw, sign) ==
  LET b1 == AddMonthsClamped(b, sign * (12 * kw.year + 120 * kw.decade + kw.month)) IN
  IF b1 = None THEN None
  ELSE LET U(q, s) == (q[1] * s) \div q[2]
           \* floor(rem * 10^6 / den) for 0 <= rem < den <= 10^6, without leaving TLC's 32-bit integers
           Scale(rem, den) == LET a == rem * 1000 IN (a \div den) * 1000 + ((a % den) * 1000) \div den
           R(q, s) == Scale((q[1] * s) % q[2], q[2])
           secs == U(kw.hour, 3600) + U(kw.minute, 60) + U(kw.second, 1)
           us   == R(kw.hour, 3600) + R(kw.minute, 60) + R(kw.second, 1)
       IN AddDSU(b1, sign * (7 * kw.week + kw.day), sign * secs, sign * us)

Direction(dir, pdf) == IF dir = "in" THEN 1 ELSE IF dir = "ago" THEN -1
                       ELSE IF pdf = "future" THEN 1 ELSE -1

PeriodOracle(counted) ==
  IF "day" \in counted THEN "day"
  ELSE IF "week" \in counted THEN "week"
  ELSE IF "month" \in counted THEN "month"
  ELSE IF "year" \in counted \/ "decade" \in counted THEN "year"
  ELSE "day"

Expected(b, kw, dir, pdf, tov) ==
  LET r == Rel(b, kw, Direction(dir, pdf)) IN
  IF r = None \/ tov = <<>> THEN r ELSE WithTime(r, tov[1], tov[2], tov[3], tov[4])
ExpectedPeriod(counted, tov, rtap, b, kw, dir, pdf) ==
  IF rtap /\ tov # <<>> /\ Expected(b, kw, dir, pdf, tov) # Rel(b, kw, Direction(dir, pdf)) THEN "time"
  ELSE PeriodOracle(counted)

InDomain(b, kw) ==
  /\ ValidDT(b)
  /\ \A f \in {"decade", "year", "month", "week", "day"} : kw[f] >= 0 /\ kw[f] <= 5000
  /\ \A f \in {"hour", "minute", "second"} : kw[f][1] >= 0 /\ kw[f][2] \in {1, 2, 4, 10} /\ kw[f][1] <= 50000
=============================================================================
