------------------------------- MODULE T_C17 -------------------------------
(* Trace validation for C17: one record per real search_dates call; positions are computed by the      *)
(* projection (whitespace-insensitive search of each substring in the text).                           *)
(*   never raises; None or a NON-EMPTY list; every substring non-blank, found in the text, and the      *)
(*   hits found one after the other in text order; the language reported is one of those requested.     *)
EXTENDS Detect, FiniteSets, TLC, Json, IOUtils

Tr == ndJsonDeserialize(IOEnv.TRACE_FILE)
VARIABLE l
SeqToSet(s) == {s[i] : i \in 1..Len(s)}

Verdict(r) ==
  IF r.exc # "" THEN "raised"
  ELSE IF r.isnone THEN "ok"
  ELSE IF ~r.islist \/ Len(r.hits) = 0 THEN "empty-or-malformed-result"
  ELSE IF \E i \in 1..Len(r.hits) : ~r.hits[i].tuple THEN "hit-is-not-a-(substring, datetime)-pair"
  ELSE IF \E i \in 1..Len(r.hits) : r.hits[i].blank THEN "blank-substring"
  ELSE IF \E i \in 1..Len(r.hits) : r.hits[i].first < 0 THEN "substring-not-in-text"
  ELSE IF \E i \in 1..Len(r.hits) : r.hits[i].seq < 0 THEN "hits-out-of-text-order"
  ELSE IF r.withlang /\ Cardinality({r.hits[i].lang : i \in 1..Len(r.hits)}) # 1 THEN "more-than-one-language"
  ELSE IF r.withlang /\ r.requested # <<>> /\ ~(r.hits[1].lang \in SeqToSet(r.requested)) THEN "language-not-requested"
  ELSE "ok"
\* refinement-on-trace of the language choice (Detect.tla) for calls with several candidate languages
DetectOK(r) == \A i \in 1..Len(r.detect) : BestLanguage(r.detect[i].cands, r.detect[i].symbolsOnly) = r.detect[i].out
Check(r) == LET v == Verdict(r) IN
            /\ (IF v = "ok" THEN TRUE ELSE PrintT(<<"REJECT", r.tid, "prop", v, r.exc>>))
            /\ (IF DetectOK(r) THEN TRUE ELSE PrintT(<<"REJECT", r.tid, "abs", "language-choice", [i \in 1..Len(r.detect) |-> BestLanguage(r.detect[i].cands, r.detect[i].symbolsOnly)]>>))

TInit == l = 0
TNext == l < Len(Tr) /\ l' = l + 1 /\ Check(Tr[l + 1])
TSpec == TInit /\ [][TNext]_l
Consumed == PrintT(<<"CONSUMED", TLCGet("stats").diameter - 1, Len(Tr)>>)
=============================================================================
