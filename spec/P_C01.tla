------------------------------- MODULE P_C01 -------------------------------
(* E1 for C01: every date of a year grid x clock times x fraction shapes x 14 renderings through    *)
(* the machine of the absolute parser; the PREFER_* settings vary with the state and must be         *)
(* irrelevant.  Second generator: epoch numbers through the timestamp step.                         *)
EXTENDS O_C01, AbsParser

CONSTANTS Years, Times, Micros
\* Times: h*10000 + mi*100 + s ; Micros: microsecond values
Families == 1..14

PrefVals == <<"first", "last", "current">>
PdfVals == <<"past", "future", "current_period">>

VARIABLE c
Init == c = [stage |-> 0]
PickYear == c.stage = 0 /\ \E y \in Years : c' = [stage |-> 1, y |-> y]
PickRest == /\ c.stage = 1
            /\ \E m \in 1..12, t \in Times, us \in Micros, fam \in Families :
                 \E d \in 1..DIM(c.y, m) :
                   c' = [stage |-> 2, dt |-> <<c.y, m, d, t \div 10000, (t \div 100) % 100, t % 100, us>>, fam |-> fam]
Next == PickYear \/ PickRest
Spec == Init /\ [][Next]_c

N2(v) == NumT(2, v)
S == SepT(FALSE)
Dot == SepT(TRUE)
Digits(v) == IF v >= 10 THEN 2 ELSE 1
\* number of fraction digits written: the shortest that states the value exactly, at least 1
FracLen(us) == IF us % 10 # 0 THEN 6 ELSE IF us % 100 # 0 THEN 5 ELSE IF us % 1000 # 0 THEN 4
               ELSE IF us % 10000 # 0 THEN 3 ELSE IF us % 100000 # 0 THEN 2 ELSE 1
Clock3(dt) == ColT(<<<<2, dt[4]>>, <<2, dt[5]>>, <<2, dt[6]>>>>)
Clock2(dt) == ColT(<<<<2, dt[4]>>, <<2, dt[5]>>>>)
H12(h) == IF h % 12 = 0 THEN 12 ELSE h % 12
Mer(h) == IF h < 12 THEN "am" ELSE "pm"
Clock12(dt, sec) == IF sec THEN ColT(<<<<Digits(H12(dt[4])), H12(dt[4])>>, <<2, dt[5]>>, <<2, dt[6]>>>>)
                    ELSE ColT(<<<<Digits(H12(dt[4])), H12(dt[4])>>, <<2, dt[5]>>>>)
IsoDate(dt) == <<NumT(4, dt[1]), S, N2(dt[2]), S, N2(dt[3])>>
\* [toks, hasTime, hasSec, fl]
Render(dt, fam) ==
  LET fl == FracLen(dt[7])
      fr == NumT(fl, dt[7] \div P10(6 - fl))
      dnum == NumT(Digits(dt[3]), dt[3])
  IN CASE fam = 1  -> [toks |-> IsoDate(dt), ht |-> FALSE, hs |-> FALSE, fl |-> 0]
       [] fam = 2  -> [toks |-> IsoDate(dt) \o <<S, Clock3(dt)>>, ht |-> TRUE, hs |-> TRUE, fl |-> 0]
       [] fam = 3  -> [toks |-> IsoDate(dt) \o <<S, Clock3(dt), Dot, fr>>, ht |-> TRUE, hs |-> TRUE, fl |-> fl]
       [] fam = 4  -> [toks |-> IsoDate(dt) \o <<S, Clock2(dt)>>, ht |-> TRUE, hs |-> FALSE, fl |-> 0]
       [] fam = 5  -> [toks |-> <<WeekdayT(Weekday(dt[1], dt[2], dt[3])), S, N2(dt[3]), S, MonthT(dt[2]), S,
                                  NumT(4, dt[1]), S, Clock3(dt)>>, ht |-> TRUE, hs |-> TRUE, fl |-> 0]
       [] fam = 6  -> [toks |-> <<N2(dt[3]), S, MonthT(dt[2]), S, NumT(4, dt[1]), S, Clock3(dt)>>,
                       ht |-> TRUE, hs |-> TRUE, fl |-> 0]
       [] fam = 7  -> [toks |-> <<MonthT(dt[2]), S, dnum, S, NumT(4, dt[1])>>, ht |-> FALSE, hs |-> FALSE, fl |-> 0]
       [] fam = 8  -> [toks |-> <<dnum, S, MonthT(dt[2]), S, NumT(4, dt[1])>>, ht |-> FALSE, hs |-> FALSE, fl |-> 0]
       [] fam = 9  -> [toks |-> <<MonthT(dt[2]), S, dnum, S, NumT(4, dt[1]), S, Clock12(dt, FALSE), S, MerT(Mer(dt[4]))>>,
                       ht |-> TRUE, hs |-> FALSE, fl |-> 0]
       [] fam = 10 -> [toks |-> <<MonthT(dt[2]), S, dnum, S, NumT(4, dt[1]), S, Clock12(dt, TRUE), S, MerT(Mer(dt[4]))>>,
                       ht |-> TRUE, hs |-> TRUE, fl |-> 0]
       [] fam = 11 -> [toks |-> <<dnum, S, MonthT(dt[2]), S, NumT(4, dt[1]), S, Clock2(dt)>>, ht |-> TRUE, hs |-> FALSE, fl |-> 0]
       [] fam = 12 -> [toks |-> <<dnum, S, MonthT(dt[2]), S, NumT(4, dt[1]), S, Clock3(dt)>>, ht |-> TRUE, hs |-> TRUE, fl |-> 0]
       [] fam = 13 -> [toks |-> <<WeekdayT(Weekday(dt[1], dt[2], dt[3])), S, MonthT(dt[2]), S, dnum, S, NumT(4, dt[1])>>,
                       ht |-> FALSE, hs |-> FALSE, fl |-> 0]
       [] fam = 14 -> [toks |-> <<dnum, S, MonthT(dt[2]), S, NumT(4, dt[1]), S, Clock12(dt, TRUE), Dot, fr, S, MerT(Mer(dt[4]))>>,
                       ht |-> TRUE, hs |-> TRUE, fl |-> fl]

\* preferences derived from the state so that every one of the 27 combinations occurs
Sg(cc) == LET k == (OrdOf(cc.dt) + cc.fam) % 27 IN
          [order |-> "MDY", pdf |-> PdfVals[(k % 3) + 1], pdom |-> PrefVals[((k \div 3) % 3) + 1],
           pmoy |-> PrefVals[((k \div 9) % 3) + 1], base |-> <<2021, 6, 15, 12, 0, 0, 0>>,
           strict |-> (k % 2 = 0), require |-> {}, rtap |-> FALSE, tzoff |-> 0]

RoundTrip ==
  c.stage = 2 =>
    LET rr == Render(c.dt, c.fam)
        r == Parse(rr.toks, Sg(c))
    IN /\ InDomain(c.dt, rr.fl)
       /\ r.out = Trunc(c.dt, rr.ht, rr.hs, rr.fl)
       /\ r.period = "day"
=============================================================================
