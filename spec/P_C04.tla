------------------------------- MODULE P_C04 -------------------------------
(* E1 for C04: bases (month ends, leap days, first / 15th, two clock times) x counts x units x       *)
(* directions, 2- and 3-unit sums, decimals for sub-day units: machine (relativedelta semantics) =    *)
(* oracle (single clamp arithmetic), period truthful, out-of-range is None.                          *)
EXTENDS O_C04, Freshness

CONSTANTS Years, Counts, Combos
UnitSeq == <<"decade", "year", "month", "week", "day", "hour", "minute", "second">>
Dirs == {"in", "ago", "none"}
Pdfs == {"past", "future", "current_period"}

VARIABLE c
Init == c = [stage |-> 0]
PickYear == c.stage = 0 /\ \E y \in Years : c' = [stage |-> 1, y |-> y]
BaseDays(y) == {<<m, d>> : m \in 1..12, d \in {1, 15, 28, 29, 30, 31}} \cap {<<m, d>> \in (1..12) \X (1..31) : d <= DIM(y, m)}
PickBase == /\ c.stage = 1
            /\ \E md \in BaseDays(c.y), t \in {<<0, 0, 0, 0>>, <<10, 30, 17, 250000>>, <<23, 59, 59, 999999>>} :
                 c' = [stage |-> 2, b |-> <<c.y, md[1], md[2], t[1], t[2], t[3], t[4]>>]
Term(u, n, d) == [u |-> u, num |-> n, den |-> d]
PickPhrase ==
  /\ c.stage = 2
  /\ \E dir \in Dirs, pdf \in Pdfs :
       \/ \E u \in 1..8, n \in Counts :
            c' = [stage |-> 3, b |-> c.b, terms |-> <<Term(UnitSeq[u], n, 1)>>, dir |-> dir, pdf |-> pdf, tov |-> <<>>]
       \/ \E u \in 6..8, n \in {1, 3, 5, 9, 10001} :                        \* decimals n/2, n/4 for sub-day units
            \E den \in {2, 4} :
            c' = [stage |-> 3, b |-> c.b, terms |-> <<Term(UnitSeq[u], n, den)>>, dir |-> dir, pdf |-> pdf, tov |-> <<>>]
       \/ \E u1 \in 1..8, u2 \in 1..8, k \in Combos :
            u1 < u2 /\ c' = [stage |-> 3, b |-> c.b, terms |-> <<Term(UnitSeq[u1], k \div 100, 1), Term(UnitSeq[u2], k % 100, 1)>>,
                             dir |-> dir, pdf |-> pdf, tov |-> IF k % 2 = 0 THEN <<>> ELSE <<14, 5, 0, 0>>]
       \/ \E u1 \in {2, 3}, u2 \in {4, 5}, u3 \in {6, 7, 8} :
            c' = [stage |-> 3, b |-> c.b, terms |-> <<Term(UnitSeq[u1], 1, 1), Term(UnitSeq[u2], 2, 1), Term(UnitSeq[u3], 3, 1)>>,
                  dir |-> dir, pdf |-> pdf, tov |-> <<>>]
Next == PickYear \/ PickBase \/ PickPhrase
Spec == Init /\ [][Next]_c

\* the oracle's view of a phrase: per-unit totals (a unit occurs at most once in generated phrases)
RECURSIVE KwOf(_, _, _)
KwOf(terms, i, kw) ==
  IF i > Len(terms) THEN kw
  ELSE LET t == terms[i] IN
       KwOf(terms, i + 1,
            IF t.u \in {"hour", "minute", "second"} THEN [kw EXCEPT ![t.u] = <<t.num, t.den>>]
            ELSE [kw EXCEPT ![t.u] = t.num])
Kw0 == [decade |-> 0, year |-> 0, month |-> 0, week |-> 0, day |-> 0,
        hour |-> <<0, 1>>, minute |-> <<0, 1>>, second |-> <<0, 1>>]
Counted(terms) == {terms[i].u : i \in 1..Len(terms)}

ExactArithmetic ==
  c.stage = 3 =>
    LET kw == KwOf(c.terms, 1, Kw0)
        r == FreshParse(c.b, [terms |-> c.terms, dir |-> c.dir, tov |-> c.tov], c.pdf, TRUE)
    IN /\ InDomain(c.b, kw)
       /\ r.out = Expected(c.b, kw, c.dir, c.pdf, c.tov)
       /\ (r.out # None => r.period = ExpectedPeriod(Counted(c.terms), c.tov, TRUE, c.b, kw, c.dir, c.pdf))
=============================================================================
