------------------------------- MODULE P_Align -------------------------------
\* Laws of Align.tla over every pair of word lists up to MaxLen words over the words 0 (empty), 1..Words.
EXTENDS Align, TLC
CONSTANTS MaxLen, Words
Lists == UNION {[1..k -> 0..Words] : k \in 0..MaxLen}
VARIABLES o, s
Init == o \in Lists /\ s \in Lists
Next == UNCHANGED <<o, s>>
Spec == Init /\ [][Next]_<<o, s>>
NeverFails == Total(o, s)
EqualLength == SameLength(o, s)
NothingLost == WordsKept(o, s)
AgreeingPrefix == PrefixStays(o, s)
=============================================================================
