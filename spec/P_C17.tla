------------------------------- MODULE P_C17 -------------------------------
(* E1 for C17: every token sequence up to MaxLen over the abstract token alphabet x locale classes:    *)
(* the chunking loop never indexes beyond the sentence (IndexInRange).                                 *)
EXTENDS Search

CONSTANT MaxLen
Tok == [inDict : BOOLEAN, joinNextInDict : BOOLEAN, digits : BOOLEAN, tz : BOOLEAN, dash : BOOLEAN]
Loc == [noWordSpacing : BOOLEAN, jointUnsupported : BOOLEAN]
VARIABLES toks, loc
Init == toks = <<>> /\ loc \in Loc
Next == Len(toks) < MaxLen /\ \E t \in Tok : toks' = Append(toks, t) /\ UNCHANGED loc
Spec == Init /\ [][Next]_<<toks, loc>>
IndexInRange == ~Chunk(toks, loc).err
=============================================================================
