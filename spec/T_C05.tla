------------------------------- MODULE T_C05 -------------------------------
(* C05 - every locale's month and weekday names resolve to their meaning.                           *)
(* One record per (locale, word, NORMALIZE, probe): domain = the vocabulary lists the form with a     *)
(* single meaning; oracle = the key it is listed under (month number / weekday) -> the exact date.    *)
(* Refinement: the model's ordered-override value for the form equals the real dictionary's value.    *)
EXTENDS Vocabulary, Calendar, Json, IOUtils, TLC

Tr == ndJsonDeserialize(IOEnv.TRACE_FILE)
VARIABLE l

\* weekday alone: the most recent date within the seven days ending at the reference date
WeekdayExpected(b, w) == LET d0 == OrdOf(b)  back == (WeekdayOfOrd(d0) - w) % 7 IN FromParts(d0 - back, 0, 0)
Expected(r) == IF r.kind = "month" THEN <<r.y, r.val, r.d, 0, 0, 0, 0>> ELSE WeekdayExpected(r.base, r.val)
InDomain(r) == /\ SingleMeaning(r.assign)
               /\ (r.kind = "weekday" => r.base[3] >= 8 /\ r.base[3] <= 24)
               /\ (r.kind = "month" => r.d >= 1 /\ r.d <= 28)
PropVerdict(r) ==
  IF ~InDomain(r) THEN "skip"
  ELSE IF r.exc # "" THEN "exception"
  ELSE IF r.out = None THEN "not-understood"
  ELSE IF r.out # Expected(r) THEN "wrong-date"
  ELSE "ok"
Check(r) ==
  LET v == PropVerdict(r) IN
  /\ (IF v = "skip" THEN PrintT(<<"SKIP", r.tid, "prop">>)
      ELSE IF v # "ok" THEN PrintT(<<"REJECT", r.tid, "prop", v, Expected(r)>>) ELSE TRUE)
  \* r.writes: the values written for this form into the dictionary that is consulted (for NORMALIZE the
  \* conflict rule of NormalizedDictionary has been applied by the projection); the last write wins
  /\ (IF r.dictval # "<unobserved>" /\ Resolve(r.writes) # r.dictval
        THEN PrintT(<<"REJECT", r.tid, "abs", "dictionary-value", Resolve(r.writes)>>) ELSE TRUE)

TInit == l = 0
TNext == l < Len(Tr) /\ l' = l + 1 /\ Check(Tr[l + 1])
TSpec == TInit /\ [][TNext]_l
Consumed == PrintT(<<"CONSUMED", TLCGet("stats").diameter - 1, Len(Tr)>>)
=============================================================================
