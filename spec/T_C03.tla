------------------------------- MODULE T_C03 -------------------------------
(* Trace validation for C03.  A trace is one history executed in a fresh interpreter; each event     *)
(* carries the call, the concrete outcome, the outcome of the same call in a fresh process, the      *)
(* abstract outcome class and the projected shared state.                                           *)
(*   property-on-trace : outcome = fresh outcome, caller's arguments untouched                      *)
(*   refinement-on-trace: the event must be the corresponding action of SharedState with the logged   *)
(*                        outcome class, cache order, DATE_ORDER / RELATIVE_BASE fields              *)
EXTENDS SharedState, Json, IOUtils

Tr == ndJsonDeserialize(IOEnv.TRACE_FILE)
VARIABLES t, l
tvars == <<vars, t, l>>

\* traces flagged `modelled = FALSE` use settings outside the pool of SharedState: only the
\* property-on-trace clauses apply to them (their refinement step is a stutter over the whole trace)
TInit == /\ Init /\ l = 1 /\ \E k \in 1..Len(Tr) : t = k
Ev == Tr[t].ev[l]

Matches(e) ==
  /\ out' = e.abs
  /\ cacheSeq' = e.cache
  /\ \A k \in reg' : order'[k] = e.order[k] /\ base'[k] = e.base[k]

TStep ==
  /\ Tr[t].modelled
  /\ l <= Len(Tr[t].ev) /\ l' = l + 1 /\ t' = t
  /\ LET e == Ev  c == e.call IN
     /\ CASE c[1] = "parse"  -> Parse(c[2], c[3], c[4])
          [] c[1] = "new"    -> NewInst(c[2], c[3], c[4])
          [] c[1] = "get"    -> Get(c[2], c[3])
          [] c[1] = "search" -> Search(c[2], c[3])
     /\ Matches(e)
TSpec == TInit /\ [][TStep]_tvars

\* verdicts are total: every reached position is reported; the harness takes the deepest one
Progress == PrintT(<<"AT", Tr[t].tid, l - 1, Len(Tr[t].ev)>>)
\* property-on-trace, independent of the machine
PropOnTrace ==
  \A i \in 1..Len(Tr[t].ev) :
    LET e == Tr[t].ev[i] IN
    (l = 1) => /\ (e.conc # e.fresh => PrintT(<<"REJECT", Tr[t].tid, i, "history-dependent", e.fresh, e.conc>>))
               /\ (~e.untouched => PrintT(<<"REJECT", Tr[t].tid, i, "caller-arguments-modified", "", "">>))
=============================================================================
