------------------------------- MODULE T_C06 -------------------------------
(* C06 - every locale's relative phrases mean what their English canon means.                       *)
(* One record per (locale, phrase or instantiated counted pattern, reference time).  Domain: the       *)
(* phrase is listed under one key.  Oracle: the value the relative parser's specification             *)
(* (Freshness.tla, bound by C04) assigns to the canonical English key, and the real result for that    *)
(* canonical English expression.                                                                     *)
EXTENDS Vocabulary, Freshness, Json, IOUtils, TLC

Tr == ndJsonDeserialize(IOEnv.TRACE_FILE)
VARIABLE l

Spec(r) == FreshParse(r.base, [terms |-> r.terms, dir |-> r.dir, tov |-> <<>>], "current_period", FALSE)
PropVerdict(r) ==
  IF ~SingleMeaning(r.assign) \/ Spec(r).out = <<"unsupported">> THEN "skip"
  ELSE IF r.exc # "" THEN "exception"
  ELSE IF r.out # r.en_out \/ (r.out # <<>> /\ r.period # r.en_period) THEN "differs-from-english-canon"
  ELSE IF r.out # Spec(r).out THEN "differs-from-specification"
  ELSE "ok"
Check(r) ==
  LET v == PropVerdict(r) IN
  IF v = "skip" THEN PrintT(<<"SKIP", r.tid, "prop">>)
  ELSE IF v # "ok" THEN PrintT(<<"REJECT", r.tid, "prop", v, Spec(r).out>>) ELSE TRUE

TInit == l = 0
TNext == l < Len(Tr) /\ l' = l + 1 /\ Check(Tr[l + 1])
TSpec == TInit /\ [][TNext]_l
Consumed == PrintT(<<"CONSUMED", TLCGet("stats").diameter - 1, Len(Tr)>>)
=============================================================================
