------------------------------- MODULE P_C08 -------------------------------
(* E1 for C08: every (y, m) x 9 preference pairs x reference days, through the machine of the       *)
(* absolute parser and through the custom-format machine; machine = oracle in every state.          *)
EXTENDS O_C08, AbsParser, Formats

CONSTANTS Years, RefDays      \* RefDays: reference days encoded month * 100 + day
Prefs == {"first", "last", "current"}
RefYears == {2021, 2024}

VARIABLE c
Init == c = [stage |-> 0]
PickYear == c.stage = 0 /\ \E y \in Years : c' = [stage |-> 1, y |-> y]
PickRest == /\ c.stage = 1
            /\ \E m \in 1..12, pd \in Prefs, pm \in Prefs, rd \in RefDays, ry \in RefYears :
                 /\ ValidDate(ry, rd \div 100, rd % 100)
                 /\ c' = [stage |-> 2, y |-> c.y, m |-> m, pdom |-> pd, pmoy |-> pm,
                          ref |-> <<ry, rd \div 100, rd % 100, 10, 30, 0, 0>>]
Next == PickYear \/ PickRest
Spec == Init /\ [][Next]_c

Sg(cc) == [order |-> "MDY", pdf |-> "current_period", pdom |-> cc.pdom, pmoy |-> cc.pmoy,
           base |-> cc.ref, strict |-> FALSE, require |-> {}, rtap |-> FALSE, tzoff |-> 0]

MonthYearToks(cc) == <<MonthT(cc.m), SepT(FALSE), NumT(4, cc.y)>>
YearToks(cc) == <<NumT(4, cc.y)>>
\* a full date on the last valid day of the month (the day most exposed to clamping)
FullToks(cc) == <<NumT(2, DIM(cc.y, cc.m)), SepT(FALSE), MonthT(cc.m), SepT(FALSE), NumT(4, cc.y)>>

CompletionExact ==
  c.stage = 2 =>
    LET my == Parse(MonthYearToks(c), Sg(c))
        yo == Parse(YearToks(c), Sg(c))
    IN /\ my.out = Complete("my", c.y, c.m, 0, <<0, 0, 0>>, c.pdom, c.pmoy, c.ref)
       /\ my.period = "month"
       /\ yo.out = Complete("y", c.y, c.m, 0, <<0, 0, 0>>, c.pdom, c.pmoy, c.ref)
       /\ yo.period = "year"
FullDatesUntouched ==
  c.stage = 2 =>
    LET r == Parse(FullToks(c), Sg(c)) IN
    r.out = <<c.y, c.m, DIM(c.y, c.m), 0, 0, 0, 0>> /\ r.period = "day"
\* custom-format parser: '%B %Y' and '%Y' ("today" plays the part of the reference)
FormatCompletionExact ==
  c.stage = 2 =>
    LET sg == [pdom |-> c.pdom, pmoy |-> c.pmoy]
        my == FmtComplete([day |-> FALSE, month |-> TRUE, year |-> TRUE], <<c.y, c.m, 1, 0, 0, 0, 0>>, sg, c.ref)
        yo == FmtComplete([day |-> FALSE, month |-> FALSE, year |-> TRUE], <<c.y, 1, 1, 0, 0, 0, 0>>, sg, c.ref)
    IN /\ my.out = Complete("my", c.y, c.m, 0, <<0, 0, 0>>, c.pdom, c.pmoy, c.ref) /\ my.period = "month"
       /\ yo.out = Complete("y", c.y, c.m, 0, <<0, 0, 0>>, c.pdom, c.pmoy, c.ref) /\ yo.period = "year"
=============================================================================
