------------------------------- MODULE T_C11 -------------------------------
(* C11 - a timezone written in the string yields exactly that offset.                               *)
(*   "shadow": one record per spelling of a table entry with the (exported) list of table rows whose   *)
(*             compiled pattern matches it, in table order -> FirstMatchIsOwn on the ordered table     *)
(*   "c11":    one record per real call: offset, wall clock, pickling / copying                       *)
(*   "naive":  a string without a zone yields a naive result                                          *)
EXTENDS Timezone, Json, IOUtils, TLC

Tr == ndJsonDeserialize(IOEnv.TRACE_FILE)
VARIABLE l

ShadowVerdict(r) == LET p == PopTz(r.moffs) IN
                    IF ~p.has THEN "no-entry-matches" ELSE IF p.off # r.expoff THEN "shadowed-by-earlier-entry" ELSE "ok"
CallVerdict(r) ==
  IF r.exc # "" THEN "exception"
  ELSE IF r.out = None THEN "not-parsed"
  ELSE IF r.off = Naive THEN "naive-result"
  ELSE IF r.off # r.expoff THEN "wrong-offset"
  \* a body that is a clock time only: the date is chosen by the preference settings, the written time of day stays
  ELSE IF r.timeonly /\ <<r.out[4], r.out[5], r.out[6], r.out[7]>> # <<r.wall[4], r.wall[5], r.wall[6], r.wall[7]>> THEN "wall-clock-changed"
  ELSE IF ~r.timeonly /\ r.out # r.wall THEN "wall-clock-changed"
  ELSE IF ~r.pk THEN "pickle-or-copy-changed-the-value"
  ELSE "ok"
NaiveVerdict(r) == IF r.exc # "" THEN "exception" ELSE IF r.out = None THEN "not-parsed"
                   ELSE IF r.off # Naive THEN "aware-without-zone" ELSE IF r.out # r.wall THEN "wall-clock-changed" ELSE "ok"

Check(r) ==
  LET v == IF r.kind = "shadow" THEN ShadowVerdict(r) ELSE IF r.kind = "c11" THEN CallVerdict(r) ELSE NaiveVerdict(r) IN
  IF v = "ok" THEN TRUE ELSE PrintT(<<"REJECT", r.tid, "prop", v, r.expoff>>)

TInit == l = 0
TNext == l < Len(Tr) /\ l' = l + 1 /\ Check(Tr[l + 1])
TSpec == TInit /\ [][TNext]_l
Consumed == PrintT(<<"CONSUMED", TLCGet("stats").diameter - 1, Len(Tr)>>)
=============================================================================
