------------------------------ MODULE Timezone ------------------------------
(* Timezone handling of dateparser: popping a zone from the string (first match over the ordered     *)
(* table wins, timezone_parser.py:38-50) and the per-parser pipelines of localize / convert / strip   *)
(* steps (date_parser.py:22-52, freshness_date_parser.py:59-109, utils/__init__.py:72-147,            *)
(* date.py:147-173,204-210).  Zones are represented by their UTC offsets (seconds) at the instants    *)
(* that matter, supplied by the harness from pytz / the library table (DST zones have no single        *)
(* offset).  A result is [wall |-> 7-tuple, off |-> seconds | Naive].                                 *)
EXTENDS Calendar

Naive == 100000

\* ---- pop_tz_offset_from_string: the table is scanned in order, the first matching entry wins
\* matchOffs: offsets of the table rows that match the string, in table order
PopTz(matchOffs) == IF matchOffs = <<>> THEN [has |-> FALSE, off |-> 0]
                    ELSE [has |-> TRUE, off |-> matchOffs[1]]

Aware(w, off) == [wall |-> w, off |-> off]
Strip(r) == [wall |-> r.wall, off |-> Naive]
\* astimezone: same instant, other offset
Convert(r, newOff) == [wall |-> ShiftSeconds(r.wall, newOff - r.off), off |-> newOff]

\* rata: "true" | "false" | "default"
Awareness(r, rata, hasPtz) ==
  IF rata = "true" THEN r
  ELSE IF rata = "false" THEN Strip(r)
  ELSE IF hasPtz THEN r ELSE Strip(r)

\* z: [ptzHas, ptzOff,           the string's own zone
\*     tzLocal,                  TIMEZONE is 'local'
\*     tzOffWall,                offset of TIMEZONE for the written wall clock
\*     tzOffInst,                offset of TIMEZONE at the instant (string with own zone)
\*     toHas, toOff]             TO_TIMEZONE and its offset at the instant
\* absolute parser (date_parser.py:22-52)
AbsolutePipeline(w, z, rata) ==
  LET a == IF z.ptzHas THEN (IF z.tzLocal THEN Aware(w, z.ptzOff) ELSE Convert(Aware(w, z.ptzOff), z.tzOffInst))
           ELSE Aware(w, z.tzOffWall)
      b == IF z.toHas THEN Convert(a, z.toOff) ELSE a
  IN Awareness(b, rata, z.ptzHas)

\* timestamp and custom-format parsers (apply_timezone_from_settings): never aware by default
SettingsPipeline(w, z, rata) ==
  LET a == Aware(w, z.tzOffWall)
      b == IF z.toHas THEN Convert(a, z.toOff) ELSE a
  IN IF rata = "true" THEN b ELSE Strip(b)

\* relative parser with RELATIVE_BASE = w (freshness_date_parser.py:59-109), phrase "now"
RelativePipeline(w, z, rata) ==
  LET a == Aware(w, z.tzOffWall)
      b == IF z.toHas THEN Convert(a, z.toOff) ELSE a
  IN Awareness(b, rata, FALSE)
=============================================================================
