------------------------------- MODULE T_C01 -------------------------------
(* Trace validation for C01: "c01" rendering round-trips, "epoch" numbers, "abs" probe events.      *)
EXTENDS O_C01, AbsTrace, Json, IOUtils

Tr == ndJsonDeserialize(IOEnv.TRACE_FILE)
VARIABLE l

Expected(r) == IF r.kind = "c01" THEN Trunc(r.dt, r.ht, r.hs, r.fl)
               ELSE EpochInstant(r.days, r.sod, r.frac, r.zoff)
PropVerdict(r) ==
  IF r.kind = "c01" /\ ~InDomain(r.dt, r.fl) THEN "skip"
  ELSE IF r.kind = "epoch" /\ ~EpochInDomain(r.days, r.sod, r.frac) THEN "skip"
  ELSE IF r.exc # "" THEN "exception"
  \* known finding C01-negative-fraction: the fraction digits of a NEGATIVE epoch number are added forwards
  ELSE IF r.kind = "epoch" /\ r.neg /\ r.out # Expected(r) /\ r.out = EpochInstant(r.fwd[1], r.fwd[2], r.fwd[3], r.zoff) THEN "known"
  ELSE IF r.out # Expected(r) THEN "wrong-datetime"
  ELSE IF r.off # 100000 THEN "unexpected-awareness"
  ELSE IF r.period # "day" THEN "wrong-period"
  ELSE "ok"

Check(r) ==
  IF r.kind = "abs"
    THEN LET v == AbsVerdict(r) IN
         IF v = "drift" THEN PrintT(<<"REJECT", r.tid, "abs", v, AbsModel(r)>>)
         ELSE IF v = "skip" THEN PrintT(<<"SKIP", r.tid, "abs">>) ELSE TRUE
    ELSE LET v == PropVerdict(r) IN
         IF v = "skip" THEN PrintT(<<"SKIP", r.tid, "prop">>)
         ELSE IF v = "known" THEN PrintT(<<"KNOWN", r.tid, "C01-negative-fraction", Expected(r)>>)
         ELSE IF v # "ok" THEN PrintT(<<"REJECT", r.tid, "prop", v, Expected(r)>>)
         ELSE TRUE

TInit == l = 0
TNext == l < Len(Tr) /\ l' = l + 1 /\ Check(Tr[l + 1])
TSpec == TInit /\ [][TNext]_l
Consumed == PrintT(<<"CONSUMED", TLCGet("stats").diameter - 1, Len(Tr)>>)
=============================================================================
