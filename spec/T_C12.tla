------------------------------- MODULE T_C12 -------------------------------
(* Trace validation for C12: one record per real call; offsets of the zones at the relevant instant  *)
(* come from pytz / the library table (harness).  property-on-trace: instant, target wall clock,      *)
(* awareness;  refinement-on-trace: the pipeline of Timezone.tla gives the observed value.           *)
EXTENDS O_C12, Timezone, Json, IOUtils, TLC

Tr == ndJsonDeserialize(IOEnv.TRACE_FILE)
VARIABLE l

PropVerdict(r) ==
  IF ~InDomain(r.w, r.offA, r.offT) THEN "skip"
  ELSE IF r.exc # "" THEN "exception"
  ELSE IF r.out = None THEN "not-parsed"
  ELSE IF r.out # ExpWall(r.w, r.offA, r.offT) THEN "instant-or-wall-clock-wrong"
  ELSE IF r.off # ExpOff(r.rata, r.own, r.offT) THEN "awareness-or-offset-wrong"
  ELSE "ok"
Model(r) == LET z == [ptzHas |-> r.own, ptzOff |-> r.offA, tzLocal |-> FALSE, tzOffWall |-> r.offA,
                      tzOffInst |-> r.offTz, toHas |-> r.hasTo, toOff |-> r.offTo] IN
            CASE r.parser = "absolute" -> AbsolutePipeline(r.w, z, r.rata)
              [] r.parser = "relative" -> RelativePipeline(r.w, z, r.rata)
              [] OTHER -> SettingsPipeline(r.w, z, r.rata)
Check(r) ==
  LET v == PropVerdict(r) IN
  /\ (IF v = "skip" THEN PrintT(<<"SKIP", r.tid, "prop">>)
      ELSE IF v # "ok" THEN PrintT(<<"REJECT", r.tid, "prop", v, <<ExpWall(r.w, r.offA, r.offT), ExpOff(r.rata, r.own, r.offT)>>>>) ELSE TRUE)
  /\ (IF v # "skip" /\ r.exc = "" /\ r.out # None /\ (Model(r).wall # r.out \/ Model(r).off # r.off)
        THEN PrintT(<<"REJECT", r.tid, "abs", "drift", Model(r)>>) ELSE TRUE)

TInit == l = 0
TNext == l < Len(Tr) /\ l' = l + 1 /\ Check(Tr[l + 1])
TSpec == TInit /\ [][TNext]_l
Consumed == PrintT(<<"CONSUMED", TLCGet("stats").diameter - 1, Len(Tr)>>)
=============================================================================
