------------------------------- MODULE P_Args -------------------------------
\* Laws of Validate.tla's ArgsVerdict (the constructor's and get_date_data's argument checks) over one abstract value of
\* every type class per argument.
EXTENDS Validate, TLC

A(t, items, falsy, s) == [t |-> t, items |-> items, falsy |-> falsy, s |-> s]
I(t, s) == [t |-> t, s |-> s]
En == CHOOSE l \in Languages : TRUE
LangVals == { A("none", <<>>, TRUE, ""), A("list", <<I("str", En)>>, FALSE, ""), A("list", <<>>, TRUE, ""), A("tuple", <<I("str", En)>>, FALSE, ""),
              A("set", <<I("str", En)>>, FALSE, ""), A("list", <<I("str", "no such language")>>, FALSE, ""), A("list", <<I("str", En), I("int", "")>>, FALSE, ""),
              A("list", <<I("list", "")>>, FALSE, ""), A("str", <<>>, FALSE, En), A("int", <<>>, FALSE, ""), A("dict", <<>>, TRUE, ""), A("bytes", <<>>, FALSE, "") }
RegionVals == { A("none", <<>>, TRUE, ""), A("str", <<>>, FALSE, "GB"), A("int", <<>>, FALSE, ""), A("list", <<I("str", "GB")>>, FALSE, "") }
BoolVals == { A("bool", <<>>, TRUE, ""), A("bool", <<>>, FALSE, ""), A("int", <<>>, TRUE, ""), A("none", <<>>, TRUE, ""), A("str", <<>>, FALSE, "yes") }
DsVals == { A("str", <<>>, FALSE, "1 May 2020"), A("none", <<>>, TRUE, ""), A("int", <<>>, FALSE, ""), A("bytes", <<>>, FALSE, ""), A("list", <<I("str", "x")>>, FALSE, "") }
FmtVals == { A("none", <<>>, TRUE, ""), A("list", <<I("str", "#%Y")>>, FALSE, ""), A("list", <<>>, TRUE, ""), A("list", <<I("int", "")>>, FALSE, ""), A("str", <<>>, FALSE, "#en"),
             A("str", <<>>, TRUE, ""), A("int", <<>>, FALSE, ""), A("int", <<>>, TRUE, ""), A("bytes", <<>>, FALSE, ""), A("dict", <<>>, FALSE, ""), A("set", <<I("str", "#%Y")>>, FALSE, "") }

VARIABLE c
Init == c \in [languages : LangVals, locales : {A("none", <<>>, TRUE, ""), A("list", <<>>, TRUE, ""), A("str", <<>>, FALSE, "en-GB")}, region : RegionVals,
               tpl : BoolVals, ugo : BoolVals, ds : DsVals, fmts : FmtVals, applicable : BOOLEAN]
Next == UNCHANGED c
Spec == Init /\ [][Next]_c

WellTyped == /\ c.languages.t \in Containers \cup {"none"} /\ c.locales.t \in Containers \cup {"none"} /\ c.region.t \in {"none", "str"}
             /\ c.tpl.t = "bool" /\ c.ugo.t = "bool" /\ c.ds.t = "str"
             /\ (c.fmts.t = "none" \/ (c.fmts.t \in Containers /\ \A i \in 1..Len(c.fmts.items) : c.fmts.items[i].t = "str"))
             /\ \A i \in 1..Len(c.languages.items) : c.languages.items[i].t = "str"
KnownOnly == \A i \in 1..Len(c.languages.items) : KnownLanguage(c.languages.items[i])

\* only the documented classes, and the phase is one of the two
OutcomeClasses == ArgsVerdict(c)[1] \in {"construct", "call"} /\ ArgsVerdict(c)[2] \in {"ok", "typeerror", "valueerror"}
\* well-typed arguments naming known languages are accepted, unless use_given_order is asked for without languages
WellTypedAccepted == (WellTyped /\ KnownOnly /\ ~(c.languages.falsy /\ c.locales.falsy /\ ~c.ugo.falsy)) => ArgsVerdict(c)[2] = "ok"
\* a wrongly typed constructor argument is refused by the constructor, with TypeError
WrongTypeRefusedEarly == (c.languages.t \notin Containers \cup {"none"} \/ c.region.t \notin {"none", "str"} \/ c.tpl.t # "bool" \/ c.ugo.t # "bool"
                          \/ c.locales.t \notin Containers \cup {"none"}) => ArgsVerdict(c) = <<"construct", "typeerror">>
\* ValueError means: an unknown language code, or use_given_order without languages - never a wrong type
ValueErrorMeans == ArgsVerdict(c)[2] = "valueerror" => (~KnownOnly \/ (c.languages.falsy /\ c.locales.falsy /\ ~c.ugo.falsy))
=============================================================================
