------------------------------- MODULE P_C02 -------------------------------
(* E1 for C02: the exception flow of the pipeline.  TLC walks the stages in code order; at every stage *)
(* any class of its may-raise set may be raised; it either is caught by the enclosing handler (the      *)
(* parser is skipped) or escapes to the caller.  Invariant: only documented classes escape, and an       *)
(* invalid setting is rejected before any stage that looks at the string.                              *)
EXTENDS Pipeline

CONSTANTS CatchAbs, CatchFmt, AmbiguousHandled   \* handlers of _try_parser / parse_with_formats; pytz ambiguity handled at its source?
VARIABLES i, escaped, settingsValid, sawString
vars == <<i, escaped, settingsValid, sawString>>
Init == i = 1 /\ escaped = "" /\ settingsValid \in BOOLEAN /\ sawString = FALSE
StringStages == {"formats_first", "sanitize", "applicable", "timestamp", "relative", "custom_formats", "absolute", "nospaces"}
Raises(st) == IF AmbiguousHandled THEN MayRaise(st) \ {"AmbiguousTimeError"} ELSE MayRaise(st)
Step ==
  /\ i <= Len(Stages) /\ escaped = ""
  /\ LET st == Stages[i] IN
     /\ sawString' = (sawString \/ st \in StringStages)
     /\ \/ i' = i + 1 /\ escaped' = "" /\ (st = "check_settings" => settingsValid)
        \/ \E e \in Raises(st) :
             /\ (st = "check_settings" /\ e = "SettingValidationError") => ~settingsValid
             /\ IF e \in Caught(st, CatchAbs, CatchFmt) THEN i' = i + 1 /\ escaped' = "" ELSE i' = i /\ escaped' = e
  /\ UNCHANGED settingsValid
Spec == Init /\ [][Step]_vars
OnlyDocumentedEscape == escaped = "" \/ escaped \in Documented
InvalidSettingRejectedFirst == (~settingsValid /\ sawString) => FALSE
=============================================================================
