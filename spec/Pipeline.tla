------------------------------ MODULE Pipeline ------------------------------
(* The top-level pipeline of DateDataParser.get_date_data (date.py:465-593) and of                  *)
(* _DateLocaleParser._parse (date.py:240-331):                                                       *)
(*   FormatsFirst -> Sanitize -> locale loop (requested locales in priority / given order, each       *)
(*   tested for applicability on the string and on the string with its timezone stripped; then the    *)
(*   DEFAULT_LANGUAGES, which are NOT tested for applicability) -> per locale the configured parsers   *)
(*   in order, the first valid result wins and its locale is reported.                               *)
(* A language is abstracted, per input string, by [app, ok, res]: applicable?, does one of its        *)
(* parsers return a valid result?, which result.  Exception flow: every stage has a may-raise set     *)
(* and the enclosing try blocks their catch sets.                                                    *)
EXTENDS Naturals, Sequences, FiniteSets, TLC

NoResult == [loc |-> 0, res |-> 0]       \* locale index 0 = none, result id 0 = None

\* one pass over a sequence of language abstractions; `test` = whether applicability is tested
RECURSIVE FirstValid(_, _, _)
FirstValid(seq, i, test) ==
  IF i > Len(seq) THEN 0
  ELSE IF (~test \/ seq[i].app) /\ seq[i].ok THEN i
  ELSE FirstValid(seq, i + 1, test)

\* the locale loop: requested languages first, then the default languages
\* requested, defaults: sequences of [id, app, ok, res]
Loop(requested, defaults) ==
  LET i == FirstValid(requested, 1, TRUE) IN
  IF i # 0 THEN [loc |-> requested[i].id, res |-> requested[i].res]
  ELSE LET j == FirstValid(defaults, 1, FALSE) IN
       IF j # 0 THEN [loc |-> defaults[j].id, res |-> defaults[j].res] ELSE NoResult

\* a single-language run of language x (no default languages)
Single(x) == IF x.app /\ x.ok THEN [loc |-> x.id, res |-> x.res] ELSE NoResult

\* ------------------------------------------------------------------ the parser loop of one locale
\* _DateLocaleParser._parse: the parsers named in PARSERS run in that order; the first one whose result is valid ends
\* the loop.  tries: what ran, as <<name, valid>> pairs.
ParserLoopOK(parsers, tries, found) ==
  /\ Len(tries) <= Len(parsers)
  /\ \A i \in 1..Len(tries) : tries[i][1] = parsers[i]
  /\ \A i \in 1..Len(tries) : tries[i][2] <=> (i = Len(tries) /\ found)
  /\ (~found => Len(tries) = Len(parsers))

\* ------------------------------------------------------------------ exception flow (C02)
\* stages in code order with their may-raise sets, and what the enclosing handlers catch
Stages == <<"check_type", "check_settings", "formats_first", "sanitize", "load_locales", "applicable",
            "timestamp", "relative", "custom_formats", "absolute", "nospaces", "validity_filter">>
MayRaise(st) ==
  CASE st = "check_type"     -> {"TypeError"}
    [] st = "check_settings" -> {"SettingValidationError", "TypeError"}
    [] st = "formats_first"  -> {"ValueError", "TypeError", "OverflowError"}
    [] st = "sanitize"       -> {}
    [] st = "load_locales"   -> {"ValueError"}
    [] st = "applicable"     -> {}
    [] st = "timestamp"      -> {}        \* a 10-digit epoch (year <= 2286) cannot leave the datetime range
    [] st = "relative"       -> {"OverflowError", "ValueError"}
    [] st = "custom_formats" -> {"ValueError", "OverflowError"}
    [] st = "absolute"       -> {"ValueError", "OverflowError", "AmbiguousTimeError"}
    [] st = "nospaces"       -> {"ValueError"}
    [] OTHER -> {}
\* catchAbs: what _try_parser catches; catchFmt: what parse_with_formats catches around the timezone
\* application (constants so that the pinned and the repaired design can be compared)
Caught(st, catchAbs, catchFmt) ==
  CASE st = "relative" -> {"OverflowError", "ValueError"}
    [] st = "absolute" -> catchAbs
    [] st = "nospaces" -> catchAbs
    [] st = "formats_first" -> catchFmt
    [] st = "custom_formats" -> catchFmt
    [] OTHER -> {}
Escapes(st, catchAbs, catchFmt) == MayRaise(st) \ Caught(st, catchAbs, catchFmt)
Documented == {"TypeError", "ValueError", "SettingValidationError"}
=============================================================================
