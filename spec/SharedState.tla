---------------------------- MODULE SharedState ----------------------------
(* The process-wide mutable state of dateparser and the effect of every public call on it, in       *)
(* SEQUENTIAL mode (calls are atomic; C03).  Anchors:                                              *)
(*   registry of Settings objects + re-initialisation in place on every API entry that passes a    *)
(*     dict (utils/__init__.py:198-224, conf.py:40-44,66-102)                                        *)
(*   DATE_ORDER saved / overwritten with the locale's order / restored (date.py:276-296)             *)
(*   RELATIVE_BASE written by search and reset through `Settings()` (search.py:101-114,167-189)      *)
(*   class-level regex caches keyed by (settings key, locale) with FIFO eviction                    *)
(*     (languages/dictionary.py:176-182,228-331)                                                    *)
(*   live DateDataParser instances keep their Settings object and never re-initialise it            *)
(* Deliberate deviations of the code from the ideal are flags: EvictInserted (the pinned eviction   *)
(* may pop the key just inserted), SearchRestoresBase (the repaired search restores RELATIVE_BASE).  *)
EXTENDS Naturals, Sequences, FiniteSets, TLC

CONSTANTS EvictInserted,        \* TRUE = pinned design: pop the first key even if it is the one just used
          SearchRestoresBase,   \* TRUE = repaired design
          RestoreOnFailure,     \* TRUE = DATE_ORDER restored on the ValueError path too (the code does)
          MaxCalls

\* d default settings | k1 CACHE_SIZE_LIMIT 1 | k2 CACHE_SIZE_LIMIT 1000 + DATE_ORDER DMY | k3 CACHE_SIZE_LIMIT 2
\* k4 / k5 differ ONLY in RELATIVE_BASE | k6 DATE_ORDER MDY given explicitly | k7 NORMALIZE True given explicitly
\* (k6 and k7 have the same effective values as the defaults but are distinct registry objects, and k6
\* switches the locale's own order off because the order was supplied by the caller)
Keys == {"d", "k1", "k2", "k3", "k4", "k5", "k6", "k7"}
Locales == {"en", "fr", "tl"}
Insts == {"i1", "i2"}
Strs == {"N", "R", "F"}              \* ambiguous numeric date, relative word, string no parser accepts

Limit(k) == CASE k = "k1" -> 1 [] k = "k3" -> 2 [] OTHER -> 1000
ExplicitOrder(k) == IF k = "k2" THEN "DMY" ELSE IF k = "k6" THEN "MDY" ELSE ""
InitBase(k) == IF k = "k4" THEN "B1" ELSE IF k = "k5" THEN "B2" ELSE "none"
InitOrder(k) == IF k = "k2" THEN "DMY" ELSE "MDY"
LocOrder(L) == CASE L = "en" -> "MDY" [] L = "fr" -> "DMY" [] OTHER -> ""

NoInst == [key |-> "", loc |-> ""]

VARIABLES reg, order, base, cacheSeq, ent, inst, ncalls, out, call
vars == <<reg, order, base, cacheSeq, ent, inst, ncalls, out, call>>

Init == /\ reg = {"d"}
        /\ order = [k \in Keys |-> InitOrder(k)]
        /\ base = [k \in Keys |-> InitBase(k)]
        /\ cacheSeq = <<>>
        /\ ent = [k \in Keys |-> {}]
        /\ inst = [i \in Insts |-> NoInst]
        /\ ncalls = 0 /\ out = "" /\ call = <<>>

InCache(seq, k) == \E i \in 1..Len(seq) : seq[i] = k
Remove(seq, k) == SelectSeq(seq, LAMBDA x : x # k)

\* one access to a class-level cache for (settings key k, locale L): check, add if absent, read.
\* Result: [seq, ent, err]
Access(seq, en, k, L) ==
  IF InCache(seq, k) /\ L \in en[k] THEN [seq |-> seq, ent |-> en, err |-> FALSE]
  ELSE LET s1 == IF InCache(seq, k) THEN seq ELSE Append(seq, k)
           e1 == [en EXCEPT ![k] = @ \cup {L}]
       IN IF Limit(k) > 0 /\ Len(s1) > Limit(k)
            THEN LET victim == IF EvictInserted THEN Head(s1)
                               ELSE (CHOOSE i \in 1..Len(s1) : s1[i] # k /\ \A j \in 1..(i-1) : s1[j] = k)
                     v == IF EvictInserted THEN victim ELSE s1[victim]
                 IN [seq |-> Remove(s1, v), ent |-> [e1 EXCEPT ![v] = {}], err |-> v = k]
            ELSE [seq |-> s1, ent |-> e1, err |-> FALSE]

\* API entry with a settings dict: the registry object is re-initialised in place
ReInit(k, o, b) == IF k = "d" THEN <<o, b>>
                   ELSE <<[o EXCEPT ![k] = InitOrder(k)], [b EXCEPT ![k] = InitBase(k)]>>

\* what the absolute parser reads as DATE_ORDER for locale L under key k, given the field value
EffOrder(k, L, field) == IF ExplicitOrder(k) # "" THEN field
                         ELSE IF LocOrder(L) # "" THEN LocOrder(L) ELSE field
\* outcome of parsing string class s (after translation succeeded)
Outcome(s, k, L, o, b) ==
  CASE s = "N" -> IF EffOrder(k, L, o[k]) = "DMY" THEN "DM" ELSE "MD"
    [] s = "R" -> CASE b[k] = "none" -> "rel-now" [] b[k] = "B" -> "rel-leaked-base" [] b[k] = "B1" -> "rel-B1" [] OTHER -> "rel-B2"
    [] s = "F" -> "None"
\* DATE_ORDER field after one run of _try_parser
OrderAfter(s, k, L, o) ==
  IF s = "F" /\ ~RestoreOnFailure /\ ExplicitOrder(k) = "" /\ LocOrder(L) # ""
    THEN [o EXCEPT ![k] = LocOrder(L)]
    ELSE o

\* the same call evaluated on the initial state: what a fresh process returns
Fresh(s, k, L) == Outcome(s, k, L, [x \in Keys |-> InitOrder(x)], [x \in Keys |-> InitBase(x)])

Step(c, o2, b2, a, res) ==
  /\ order' = o2 /\ base' = b2 /\ cacheSeq' = a.seq /\ ent' = a.ent
  /\ out' = res /\ call' = c /\ ncalls' = ncalls + 1

\* dateparser.parse(s, languages=[L], settings=sigma_k)
Parse(k, L, s) ==
  /\ ncalls < MaxCalls
  /\ LET ri == ReInit(k, order, base)
         a == Access(cacheSeq, ent, k, L)
     IN /\ reg' = reg \cup {k}
        /\ IF a.err THEN Step(<<"parse", k, L, s>>, ri[1], ri[2], a, "KeyError")
           ELSE Step(<<"parse", k, L, s>>, OrderAfter(s, k, L, ri[1]), ri[2], a, Outcome(s, k, L, ri[1], ri[2]))
        /\ UNCHANGED inst

\* p = DateDataParser(languages=[L], settings=sigma_k)
NewInst(i, k, L) ==
  /\ ncalls < MaxCalls /\ inst[i] = NoInst
  /\ LET ri == ReInit(k, order, base) IN
     /\ reg' = reg \cup {k}
     /\ inst' = [inst EXCEPT ![i] = [key |-> k, loc |-> L]]
     /\ Step(<<"new", i, k, L>>, ri[1], ri[2], [seq |-> cacheSeq, ent |-> ent, err |-> FALSE], "created")

\* p.get_date_data(s): no API entry with a dict, hence no re-initialisation
Get(i, s) ==
  /\ ncalls < MaxCalls /\ inst[i] # NoInst
  /\ LET k == inst[i].key  L == inst[i].loc
         a == Access(cacheSeq, ent, k, L)
     IN IF a.err THEN Step(<<"get", i, s>>, order, base, a, "KeyError")
        ELSE Step(<<"get", i, s>>, OrderAfter(s, k, L, order), base, a, Outcome(s, k, L, order, base))
  /\ UNCHANGED <<reg, inst>>

\* search_dates('<absolute date> ... <relative word>', languages=[L], settings=sigma_k): the second hit
\* is parsed relative to the first; search writes RELATIVE_BASE into the shared Settings object and
\* finally calls Settings(), which re-initialises the DEFAULT object only.
Search(k, L) ==
  /\ ncalls < MaxCalls
  /\ LET ri == ReInit(k, order, base)
         \* languages written with spaces are split on whitespace by translate_search (no regex cache is
         \* touched for L); the chunks are then parsed by DateDataParser(languages=['en'])
         a2 == Access(cacheSeq, ent, k, "en")
         \* search writes RELATIVE_BASE only when the caller did not supply one (need_relative_base)
         bset == IF InitBase(k) = "none" THEN [ri[2] EXCEPT ![k] = "B"] ELSE ri[2]
         bend == IF SearchRestoresBase THEN ri[2] ELSE bset
         bfin == [bend EXCEPT !["d"] = "none"]                 \* Settings(): default object re-initialised
         ofin == [ri[1] EXCEPT !["d"] = "MDY"]
     IN /\ reg' = reg \cup {k}
        /\ IF a2.err THEN Step(<<"search", k, L>>, ri[1], ri[2], a2, "KeyError")
           ELSE Step(<<"search", k, L>>, ofin, bfin, a2, "hits")
        /\ UNCHANGED inst

Next == \/ \E k \in Keys, L \in Locales, s \in Strs : Parse(k, L, s)
        \/ \E i \in Insts, k \in Keys, L \in Locales : NewInst(i, k, L)
        \/ \E i \in Insts, s \in Strs : Get(i, s)
        \/ \E k \in Keys, L \in Locales : Search(k, L)
Spec == Init /\ [][Next]_vars

\* ------------------------------------------------------------------ the property
FreshOf(c) == CASE c[1] = "parse" -> Fresh(c[4], c[2], c[3])
                [] c[1] = "get" -> Fresh(c[3], inst[c[2]].key, inst[c[2]].loc)
                [] c[1] = "new" -> "created"
                [] c[1] = "search" -> "hits"
HistoryFree == call # <<>> => out = FreshOf(call)
NoCacheKeyError == out # "KeyError"
\* calls made with custom settings never change what later default-settings calls return
DefaultsUnaffected == order["d"] = "MDY" /\ base["d"] = "none"
\* the registry objects of different settings are different objects: fields never leak between keys
KeysIndependent == \A k \in Keys : base[k] \in {InitBase(k), "B"}
=============================================================================
