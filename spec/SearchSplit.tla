---------------------------- MODULE SearchSplit ----------------------------
\* What `search_dates` does with a chunk that does not parse as a whole (search/search.py: split_if_not_parsed, split_by,
\* choose_best_split, the tail of parse_found_objects).
\*   The chunk is cut at one of the marks  ","  "،"  "——"  "—"  "–"  "."  " "  into n pieces.  Candidate splits are: every
\*   piece on its own; and, when the mark occurs more than twice, the pieces taken two at a time and three at a time
\*   (the last group takes what is left).  Every piece longer than two characters of every candidate is parsed; the
\*   candidate with the smallest (share of unparsed pieces, number of pieces, share of pieces without a digit) wins -
\*   the first one among equals - and its parsed pieces with a non-empty substring are reported.
\* A group is a range <<first piece, last piece>> of the all-split; a candidate is a sequence of groups.
EXTENDS Naturals, Sequences

Min2(a, b) == IF a < b THEN a ELSE b

RECURSIVE GroupsFrom(_, _, _)
GroupsFrom(j, n, size) == IF j > n THEN <<>> ELSE <<<<j, Min2(j + size - 1, n)>>>> \o GroupsFrom(j + size, n, size)
Groups(n, size) == GroupsFrom(1, n, size)

\* n pieces, i.e. the mark occurs n - 1 times
SplitBy(n) == IF n - 1 <= 2 THEN <<Groups(n, 1)>> ELSE <<Groups(n, 1), Groups(n, 2), Groups(n, 3)>>

\* ---- the law behind "every reported substring occurs in the text": a candidate is a partition of 1..n into
\* consecutive ranges, so each of its pieces is a run of consecutive pieces of the chunk joined by the very mark that
\* stood between them
IsPartition(g, n) ==
  /\ Len(g) > 0
  /\ g[1][1] = 1 /\ g[Len(g)][2] = n
  /\ \A k \in 1..Len(g) : g[k][1] <= g[k][2]
  /\ \A k \in 1..(Len(g) - 1) : g[k + 1][1] = g[k][2] + 1

\* ---- choosing among candidates.  A candidate (as the chooser sees it) is the sequence of its pieces that were parsed
\* at all (pieces of one or two characters are left out): [parsed |-> a date came out, digit |-> the substring has a digit]
CountP(c, P(_)) == LET RECURSIVE F(_)
                       F(i) == IF i > Len(c) THEN 0 ELSE (IF P(c[i]) THEN 1 ELSE 0) + F(i + 1)
                   IN F(1)
NotParsed(c) == CountP(c, LAMBDA x : ~x.parsed)
NoDigit(c) == CountP(c, LAMBDA x : ~x.digit)
\* a/b < c/d for shares of candidates with b, d pieces (0 pieces: the share is 0)
ShareLess(a, b, c, d) == (IF b = 0 THEN 0 ELSE a * (IF d = 0 THEN 1 ELSE d)) < (IF d = 0 THEN 0 ELSE c * (IF b = 0 THEN 1 ELSE b))
ShareEq(a, b, c, d) == ~ShareLess(a, b, c, d) /\ ~ShareLess(c, d, a, b)
\* candidate x is strictly better than candidate y
Better(x, y) ==
  \/ ShareLess(NotParsed(x), Len(x), NotParsed(y), Len(y))
  \/ /\ ShareEq(NotParsed(x), Len(x), NotParsed(y), Len(y))
     /\ \/ Len(x) < Len(y)
        \/ Len(x) = Len(y) /\ ShareLess(NoDigit(x), Len(x), NoDigit(y), Len(y))
\* the first candidate that no other candidate beats (Python's min keeps the first of equal keys)
Best(cands) == CHOOSE i \in 1..Len(cands) :
                 /\ \A j \in 1..Len(cands) : ~Better(cands[j], cands[i])
                 /\ \A j \in 1..(i - 1) : Better(cands[i], cands[j])

\* ---- which earlier hit a relative piece is computed from, when the caller gave no RELATIVE_BASE (set_relative_base):
\* the LAST already parsed piece that is not itself relative; none if every earlier piece is relative (or there is none).
\* rel: for each already parsed piece, whether it is a relative phrase.  Result: its index, 0 for none.
RECURSIVE LastAbsolute(_, _)
LastAbsolute(rel, i) == IF i = 0 THEN 0 ELSE IF ~rel[i] THEN i ELSE LastAbsolute(rel, i - 1)
RelativeBaseIndex(rel) == LastAbsolute(rel, Len(rel))
=============================================================================
