-------------------------------- MODULE Align --------------------------------
\* `Locale._simplify_split_align` (languages/locale.py): the words of a sentence as written (o) and the words of the same
\* sentence after normalisation and the language's simplifications (s) are brought to the same length so that the k-th
\* simplified word can be reported with the k-th original word.  Simplification may merge or split words, so the lists
\* can differ in length; empty words (0) are inserted where the lists stop agreeing, and removed again from the longer list
\* until the lengths agree.
\* Words are naturals: equal numbers = "the simplified word is the normalised original word"; 0 = the empty word.
EXTENDS Integers, Sequences

InsertAt(q, i, x) == IF i > Len(q) THEN Append(q, x) ELSE SubSeq(q, 1, i - 1) \o <<x>> \o SubSeq(q, i, Len(q))

\* one pass over the LONGER list `fixed`; the shorter list `grow` receives empty words.  ae: an empty word is due
\* (the first disagreement is let through - the lists may just differ in one word - from the second on words are inserted)
RECURSIVE Pass(_, _, _, _)
Pass(fixed, grow, i, ae) ==
  IF i > Len(fixed) THEN grow
  ELSE IF i <= Len(grow)
         THEN IF fixed[i] = grow[i] THEN Pass(fixed, grow, i + 1, FALSE)
              ELSE IF ~ae THEN Pass(fixed, grow, i + 1, TRUE)
              ELSE Pass(fixed, InsertAt(grow, i, 0), i + 1, TRUE)
         ELSE Pass(fixed, Append(grow, 0), i + 1, ae)

Fail == <<0 - 1>>          \* (a value no word list can be)
RECURSIVE FirstEmpty(_, _)
FirstEmpty(q, i) == IF i > Len(q) THEN 0 ELSE IF q[i] = 0 THEN i ELSE FirstEmpty(q, i + 1)
RemoveFirstEmpty(q) == LET i == FirstEmpty(q, 1) IN IF i = 0 THEN Fail ELSE SubSeq(q, 1, i - 1) \o SubSeq(q, i + 1, Len(q))
\* list.remove("") on the longer list until the lengths agree; no empty word left to remove = ValueError in the code
RECURSIVE Trim(_, _)
Trim(o, s) == IF o = Fail \/ s = Fail THEN Fail
              ELSE IF Len(o) = Len(s) THEN <<o, s>>
              ELSE IF Len(o) > Len(s) THEN Trim(RemoveFirstEmpty(o), s) ELSE Trim(o, RemoveFirstEmpty(s))

Align(o, s) == IF Len(o) = Len(s) THEN <<o, s>>
               ELSE IF Len(o) < Len(s) THEN Trim(Pass(s, o, 1, FALSE), s)
               ELSE Trim(o, Pass(o, s, 1, FALSE))

\* ---- laws
NonEmpty(q) == SelectSeq(q, LAMBDA x : x # 0)
\* never fails; both lists end up equally long; no word that was written or produced is lost or reordered
Total(o, s) == Align(o, s) # Fail
SameLength(o, s) == LET r == Align(o, s) IN r # Fail => Len(r[1]) = Len(r[2])
WordsKept(o, s) == LET r == Align(o, s) IN r # Fail => NonEmpty(r[1]) = NonEmpty(o) /\ NonEmpty(r[2]) = NonEmpty(s)
\* lists that agree word by word up to the end of the shorter one stay aligned on that prefix
PrefixStays(o, s) == LET r == Align(o, s)  n == IF Len(o) < Len(s) THEN Len(o) ELSE Len(s) IN
                     (r # Fail /\ \A i \in 1..n : o[i] = s[i]) => \A i \in 1..n : r[1][i] = o[i] /\ r[2][i] = s[i]
=============================================================================
