---------------------------- MODULE Calendar ----------------------------
(* Proleptic Gregorian calendar arithmetic as used by dateparser (datetime, calendar.monthrange,   *)
(* dateutil.relativedelta).  TLC integers are 32 bit, so instants are never folded into one        *)
(* number: a datetime is the 7-tuple <<y, m, d, h, mi, s, us>>, the value None is <<>>.            *)
EXTENDS Integers, Sequences

None == <<>>
IsNone(x) == x = <<>>

IsLeap(y) == (y % 4 = 0 /\ y % 100 # 0) \/ y % 400 = 0

DIMTab == <<31, 28, 31, 30, 31, 30, 31, 31, 30, 31, 30, 31>>
DIM(y, m) == IF m = 2 /\ IsLeap(y) THEN 29 ELSE DIMTab[m]

DaysBeforeMonthTab == <<0, 31, 59, 90, 120, 151, 181, 212, 243, 273, 304, 334>>
DaysBeforeMonth(y, m) == DaysBeforeMonthTab[m] + (IF m > 2 /\ IsLeap(y) THEN 1 ELSE 0)
DaysBeforeYear(y) == LET p == y - 1 IN 365 * p + (p \div 4) - (p \div 100) + (p \div 400)

MinYear == 1
MaxYear == 9999

ValidDate(y, m, d) == /\ y >= MinYear /\ y <= MaxYear /\ m >= 1 /\ m <= 12
                      /\ d >= 1 /\ d <= DIM(y, m)

\* ordinal: 0001-01-01 is 1 (datetime.toordinal)
Ord(y, m, d) == DaysBeforeYear(y) + DaysBeforeMonth(y, m) + d
MaxOrd == 3652059

\* datetime.fromordinal, transcribed from CPython's _ord2ymd
FromOrd(o) ==
  LET n0   == o - 1
      n400 == n0 \div 146097
      r400 == n0 % 146097
      n100 == r400 \div 36524
      r100 == r400 % 36524
      n4   == r100 \div 1461
      r4   == r100 % 1461
      n1   == r4 \div 365
      n    == r4 % 365
      yr   == n400 * 400 + 1 + n100 * 100 + n4 * 4 + n1
  IN IF n1 = 4 \/ n100 = 4 THEN <<yr - 1, 12, 31>>
     ELSE LET leap  == n1 = 3 /\ (n4 # 24 \/ n100 = 3)
              m0    == (n + 50) \div 32
              pre0  == DaysBeforeMonthTab[m0] + (IF m0 > 2 /\ leap THEN 1 ELSE 0)
              mon   == IF pre0 > n THEN m0 - 1 ELSE m0
              pre   == IF pre0 > n
                         THEN pre0 - (DIMTab[mon] + (IF mon = 2 /\ leap THEN 1 ELSE 0))
                         ELSE pre0
          IN <<yr, mon, n - pre + 1>>

\* Monday = 0 ... Sunday = 6  (calendar.weekday / datetime.weekday)
WeekdayOfOrd(o) == (o + 6) % 7
Weekday(y, m, d) == WeekdayOfOrd(Ord(y, m, d))

\* ----------------------------------------------------------------- datetimes
DT(y, m, d, h, mi, s, us) == <<y, m, d, h, mi, s, us>>
DateOf(dt) == <<dt[1], dt[2], dt[3]>>
TimeOf(dt) == <<dt[4], dt[5], dt[6], dt[7]>>
OrdOf(dt) == Ord(dt[1], dt[2], dt[3])
SodOf(dt) == dt[4] * 3600 + dt[5] * 60 + dt[6]
ValidDT(dt) == /\ Len(dt) = 7 /\ ValidDate(dt[1], dt[2], dt[3])
               /\ dt[4] \in 0..23 /\ dt[5] \in 0..59 /\ dt[6] \in 0..59 /\ dt[7] \in 0..999999

WithDate(dt, ymd) == <<ymd[1], ymd[2], ymd[3], dt[4], dt[5], dt[6], dt[7]>>
WithTime(dt, h, mi, s, us) == <<dt[1], dt[2], dt[3], h, mi, s, us>>
Midnight(dt) == WithTime(dt, 0, 0, 0, 0)

\* lexicographic comparison of two datetimes (tuples of equal length)
RECURSIVE LexLess(_, _, _)
LexLess(a, b, i) == IF i > Len(a) THEN FALSE
                    ELSE IF a[i] < b[i] THEN TRUE
                    ELSE IF a[i] > b[i] THEN FALSE
                    ELSE LexLess(a, b, i + 1)
Before(a, b) == LexLess(a, b, 1)          \* a < b
NotAfter(a, b) == ~LexLess(b, a, 1)       \* a <= b

\* from (ordinal, second of day, microsecond) back to a datetime; None when outside the range
FromParts(o, sod, us) ==
  IF o < 1 \/ o > MaxOrd THEN None
  ELSE LET ymd == FromOrd(o)
       IN <<ymd[1], ymd[2], ymd[3], sod \div 3600, (sod % 3600) \div 60, sod % 60, us>>

\* floor division / modulo that are safe for negative numerators (TLC's \div and % already floor)
\* dt + (days, seconds, micros) with seconds, micros of either sign and any magnitude < 2^31
AddDSU(dt, days, secs, us) ==
  LET us1   == dt[7] + us
      cs    == us1 \div 1000000
      usN   == us1 % 1000000
      s1    == SodOf(dt) + secs + cs
      cd    == s1 \div 86400
      sN    == s1 % 86400
  IN FromParts(OrdOf(dt) + days + cd, sN, usN)

AddDays(dt, n) == AddDSU(dt, n, 0, 0)

\* relativedelta(years, months): add months, clamp the day to the target month's length; None if
\* the year leaves 1..9999
AddMonthsClamped(dt, n) ==
  LET t  == (dt[1] * 12 + (dt[2] - 1)) + n
      y  == t \div 12
      m  == (t % 12) + 1
  IN IF y < MinYear \/ y > MaxYear THEN None
     ELSE LET d == IF dt[3] > DIM(y, m) THEN DIM(y, m) ELSE dt[3]
          IN <<y, m, d, dt[4], dt[5], dt[6], dt[7]>>

\* difference a - b in whole seconds would overflow 32 bits; compare instants through (ord, sod, us)
InstantKey(dt) == <<OrdOf(dt), SodOf(dt), dt[7]>>

\* shift by a UTC offset given in seconds (|off| < 86400*2)
ShiftSeconds(dt, secs) == AddDSU(dt, 0, secs, 0)

Min(a, b) == IF a < b THEN a ELSE b
Max(a, b) == IF a > b THEN a ELSE b
Abs(a) == IF a < 0 THEN -a ELSE a

\* leap years next to y (utils._get_leap_year)
RECURSIVE NextLeap(_)
NextLeap(y) == IF IsLeap(y + 1) THEN y + 1 ELSE NextLeap(y + 1)
RECURSIVE PrevLeap(_)
PrevLeap(y) == IF IsLeap(y - 1) THEN y - 1 ELSE PrevLeap(y - 1)
=============================================================================
