------------------------------ MODULE LoaderOps ------------------------------
\* `LocaleDataLoader._load_data` (languages/loader.py:153-221): from the arguments languages / locales / region /
\* use_given_order to the ordered list of locales that will be tried, and the process-wide cache of Locale objects
\* keyed by locale name.  A cache entry is abstracted to the LANGUAGE whose data it was built from.
\*
\*   Paired = TRUE   each language is paired with its own '<language>-<region>' name (or, when the language has no
\*                   such region, with itself)                                                  [repaired, 1499210]
\*   Paired = FALSE  the pinned design: the list of VALID names is zipped against the unfiltered list of languages
\*                   (zip_longest): names and languages shift as soon as one language lacks the region, and the
\*                   leftover languages are filed under the name None
EXTENDS Naturals, Sequences, FiniteSets

CONSTANTS Paired,          \* TRUE: repaired pairing, FALSE: the pinned zip
          Order,           \* sequence of language codes in priority order (language_order)
          ValidLocales     \* set of <<language, region>> names that exist besides the bare languages
Langs == {Order[i] : i \in 1..Len(Order)}
Rank(l) == CHOOSE i \in 1..Len(Order) : Order[i] = l
RegionsOf(l) == {n[2] : n \in {m \in ValidLocales : m[1] = l}}
NoName == "<None>"

Name(l, r) == <<l, r>>                               \* a locale name: <<language, region>>, region "" for the bare language
ValidName(n) == n[1] \in Langs /\ (n[2] = "" \/ n[2] \in RegionsOf(n[1]))

\* ---- the pairs <<name, language whose data is used>> for languages + region
RECURSIVE PairsRepaired(_, _)
PairsRepaired(ls, r) ==
  IF ls = <<>> THEN <<>>
  ELSE LET l == Head(ls)  n == IF r # "" /\ r \in RegionsOf(l) THEN Name(l, r) ELSE Name(l, "") IN
       <<<<n, l>>>> \o PairsRepaired(Tail(ls), r)
ValidNames(ls, r) == SelectSeq([i \in 1..Len(ls) |-> Name(ls[i], r)], LAMBDA n : r = "" \/ ValidName(n))
PairsPinned(ls, r) ==
  LET names == ValidNames(ls, r)
      n == IF Len(names) > Len(ls) THEN Len(names) ELSE Len(ls) IN
  [i \in 1..n |-> <<IF i <= Len(names) THEN names[i] ELSE <<NoName, "">>, IF i <= Len(ls) THEN ls[i] ELSE NoName>>]
Pairs(ls, r) == IF Paired THEN PairsRepaired(ls, r) ELSE PairsPinned(ls, r)

\* later pairs with the same name overwrite earlier ones (dict.update), the position of the first stays
RECURSIVE Dedup(_, _)
Dedup(ps, seen) == IF ps = <<>> THEN <<>>
                   ELSE IF Head(ps)[1] \in seen THEN Dedup(Tail(ps), seen)
                   ELSE <<Head(ps)>> \o Dedup(Tail(ps), seen \cup {Head(ps)[1]})
LastFor(ps, n) == LET idx == {i \in 1..Len(ps) : ps[i][1] = n} IN ps[CHOOSE i \in idx : \A j \in idx : j <= i][2]
AsDict(ps) == LET d == Dedup(ps, {}) IN [i \in 1..Len(d) |-> <<d[i][1], LastFor(ps, d[i][1])>>]

\* stable sort by the priority of the PAIRED language (not of the name)
RECURSIVE InsertSorted(_, _)
InsertSorted(s, p) == IF s = <<>> THEN <<p>>
                      ELSE IF Rank(Head(s)[2]) <= Rank(p[2]) THEN <<Head(s)>> \o InsertSorted(Tail(s), p)
                      ELSE <<p>> \o s
RECURSIVE SortByRank(_)
SortByRank(s) == IF s = <<>> THEN <<>> ELSE InsertSorted(SortByRank(SubSeq(s, 1, Len(s) - 1)), s[Len(s)])

\* what one call yields, given the cache: sequence of <<name, language of the data behind the object>>
Plan(ls, r, given) == LET d == AsDict(Pairs(ls, r)) IN IF given THEN d ELSE SortByRank([i \in 1..Len(d) |-> d[i]])
DataOf(c, p) == IF p[1] \in DOMAIN c THEN c[p[1]] ELSE p[2]
Yielded(c, plan) == [i \in 1..Len(plan) |-> <<plan[i][1], DataOf(c, plan[i])>>]
RECURSIVE Fill(_, _, _)
Fill(c, plan, i) == IF i > Len(plan) THEN c
                    ELSE Fill(IF plan[i][1] \in DOMAIN c THEN c ELSE [n \in DOMAIN c \cup {plan[i][1]} |-> IF n = plan[i][1] THEN plan[i][2] ELSE c[n]], plan, i + 1)


\* ---- locales=[...] : each name is split into language and region; unknown names and (unless allowed) two names of
\* one language are refused with ValueError
PairsFromLocales(names) == [i \in 1..Len(names) |-> <<names[i], names[i][1]>>]
LocalesRejected(names, allowConflicts) ==
  \/ \E i \in 1..Len(names) : ~ValidName(names[i])
  \/ (~allowConflicts /\ Cardinality({names[i] : i \in 1..Len(names)}) > Cardinality({names[i][1] : i \in 1..Len(names)}))
LanguagesRejected(ls) == \E i \in 1..Len(ls) : ls[i] \notin Langs
PlanFromLocales(names, given) == LET d == AsDict(PairsFromLocales(names)) IN IF given THEN d ELSE SortByRank([i \in 1..Len(d) |-> d[i]])
=============================================================================
