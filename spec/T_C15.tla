------------------------------- MODULE T_C15 -------------------------------
(* C15 - Jalali and Hijri dates convert to the right Gregorian date.                                *)
(* One record per real call.  property-on-trace: result = reference conversion of the written date     *)
(* with the written clock time.  refinement-on-trace: the machine of CalParsers on the tokens of the     *)
(* latinised string reads the written (y, m, d) and produces the observed value.                       *)
EXTENDS CalParsers, Json, IOUtils

Tr == ndJsonDeserialize(IOEnv.TRACE_FILE)
VARIABLE l

Expected(r) == <<r.ref[1], r.ref[2], r.ref[3], r.tm[1], r.tm[2], r.tm[3], r.tm[4]>>
InDomain(r) == /\ r.y >= 1 /\ r.m \in 1..12 /\ r.d >= 1 /\ r.d <= r.monthLen /\ r.d <= r.defLen
PropVerdict(r) ==
  IF ~InDomain(r) THEN "skip"
  ELSE IF r.exc # "" THEN "exception"
  ELSE IF r.out = None THEN "not-parsed"
  ELSE IF r.out # Expected(r) THEN "wrong-date"
  ELSE "ok"
ModelVerdict(r) ==
  IF r.toks = <<>> THEN "skip"
  ELSE LET m == CalParse(r.toks, r.defLen, r.monthLen, r.ref) IN
       IF ~m.ok THEN (IF r.out = None THEN "ok" ELSE "drift")
       ELSE IF m.ymd = <<r.y, r.m, r.d>> /\ m.out = r.out THEN "ok" ELSE "drift"
Check(r) ==
  LET v == PropVerdict(r) IN
  /\ (IF v = "skip" THEN PrintT(<<"SKIP", r.tid, "prop">>)
      ELSE IF v # "ok" THEN PrintT(<<"REJECT", r.tid, "prop", v, Expected(r)>>) ELSE TRUE)
  /\ (IF v # "skip" /\ r.exc = "" /\ ModelVerdict(r) = "drift" THEN PrintT(<<"REJECT", r.tid, "abs", "drift", <<"CalParsers">>>>) ELSE TRUE)

TInit == l = 0
TNext == l < Len(Tr) /\ l' = l + 1 /\ Check(Tr[l + 1])
TSpec == TInit /\ [][TNext]_l
Consumed == PrintT(<<"CONSUMED", TLCGet("stats").diameter - 1, Len(Tr)>>)
=============================================================================
