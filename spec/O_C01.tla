------------------------------- MODULE O_C01 -------------------------------
(* C01 - standard absolute date/time formats round-trip exactly; epoch numbers give that instant.   *)
EXTENDS Calendar

RECURSIVE P10(_)
P10(n) == IF n = 0 THEN 1 ELSE 10 * P10(n - 1)

\* the datetime a rendering states: truncated to the precision written
\* hasTime / hasSec: whether a clock time / seconds are written; fl: number of fraction digits (0..6)
Trunc(dt, hasTime, hasSec, fl) ==
  IF ~hasTime THEN <<dt[1], dt[2], dt[3], 0, 0, 0, 0>>
  ELSE IF ~hasSec THEN <<dt[1], dt[2], dt[3], dt[4], dt[5], 0, 0>>
  ELSE <<dt[1], dt[2], dt[3], dt[4], dt[5], dt[6],
         IF fl = 0 THEN 0 ELSE (dt[7] \div P10(6 - fl)) * P10(6 - fl)>>

InDomain(dt, fl) == ValidDT(dt) /\ fl \in 0..6

\* ---- epoch numbers.  The instant is given as days since 1970-01-01 and second of day (the 10-digit
\* number itself never enters TLC: 32-bit integers); frac = microseconds stated by the 3/6-digit suffix;
\* off = UTC offset (seconds) of the configured zone at that instant.
EpochOrd == 719163         \* ordinal of 1970-01-01
EpochInstant(days, sod, frac, off) == AddDSU(FromParts(EpochOrd + days, sod, 0), 0, off, frac)
EpochInDomain(days, sod, frac) ==
  /\ sod \in 0..86399 /\ frac \in 0..999999
  /\ days >= -115741 /\ days <= 115740       \* |n| < 10^10
=============================================================================
