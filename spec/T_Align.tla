------------------------------- MODULE T_Align -------------------------------
\* Refinement-on-trace of Locale._simplify_split_align (Align.tla): one record per real call - the two word lists that
\* went in and the two that came out, words numbered by the projection (equal numbers = the simplified word equals the
\* normalised original word, 0 = empty word).
EXTENDS Align, Json, IOUtils, TLC

Tr == ndJsonDeserialize(IOEnv.TRACE_FILE)
VARIABLE l
Check(r) == LET m == Align(r.o, r.s) IN
            IF r.raised THEN (IF m = Fail THEN TRUE ELSE PrintT(<<"REJECT", r.tid, "abs", "align-raised", m>>))
            ELSE IF m # Fail /\ m[1] = r.oo /\ m[2] = r.so THEN TRUE ELSE PrintT(<<"REJECT", r.tid, "abs", "align", m>>)
TInit == l = 0
TNext == l < Len(Tr) /\ l' = l + 1 /\ Check(Tr[l + 1])
TSpec == TInit /\ [][TNext]_l
Consumed == PrintT(<<"CONSUMED", TLCGet("stats").diameter - 1, Len(Tr)>>)
=============================================================================
