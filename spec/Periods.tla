------------------------------- MODULE Periods -------------------------------
\* Two public helpers of dateparser/date.py that no listed property speaks about:
\*   get_intersecting_periods(low, high, period)   the starts of the calendar periods (year .. second) that meet [low, high)
\*   date_range(begin, end, **step)                 begin, begin + step, ... while < end, the step being a relativedelta that
\*                                                  is ADDED AGAIN to the previous value (so a day clamped at a month's
\*                                                  end stays clamped), plus `end` itself when stepping by months ends in
\*                                                  end's month
\* Datetimes are <<y, m, d, h, mi, s, us>> (Calendar.tla).
EXTENDS Calendar

PeriodNames == {"year", "month", "week", "day", "hour", "minute", "second"}

\* the start of the period that contains dt
Floor(dt, p) ==
  CASE p = "second" -> WithTime(dt, dt[4], dt[5], dt[6], 0)
    [] p = "minute" -> WithTime(dt, dt[4], dt[5], 0, 0)
    [] p = "hour"   -> WithTime(dt, dt[4], 0, 0, 0)
    [] p = "day"    -> Midnight(dt)
    [] p = "week"   -> AddDays(Midnight(dt), 0 - WeekdayOfOrd(OrdOf(dt)))       \* Monday
    [] p = "month"  -> <<dt[1], dt[2], 1, 0, 0, 0, 0>>
    [] p = "year"   -> <<dt[1], 1, 1, 0, 0, 0, 0>>

Next1(dt, p) ==
  CASE p = "second" -> AddDSU(dt, 0, 1, 0)
    [] p = "minute" -> AddDSU(dt, 0, 60, 0)
    [] p = "hour"   -> AddDSU(dt, 0, 3600, 0)
    [] p = "day"    -> AddDays(dt, 1)
    [] p = "week"   -> AddDays(dt, 7)
    [] p = "month"  -> AddMonthsClamped(dt, 1)
    [] p = "year"   -> AddMonthsClamped(dt, 12)

\* the k-th start after f = Floor(low, p) (k = 0, 1, ...): f's day is 1 for months and years, so k single steps and one
\* step of k land on the same value
Kth(f, p, k) ==
  CASE p = "second" -> AddDSU(f, 0, k, 0)
    [] p = "minute" -> AddDSU(f, 0, 60 * k, 0)
    [] p = "hour"   -> AddDSU(f, 0, 3600 * k, 0)
    [] p = "day"    -> AddDays(f, k)
    [] p = "week"   -> AddDays(f, 7 * k)
    [] p = "month"  -> AddMonthsClamped(f, k)
    [] p = "year"   -> AddMonthsClamped(f, 12 * k)
\* an upper bound of the number of starts below `high`
Bound(f, high, p) ==
  LET dd == OrdOf(high) - OrdOf(f) + 1
      \* seconds from f to high, rounded up (spans of sub-day periods are short: no 32-bit trouble below 20 000 days)
      secs == IF dd < 20000 THEN (dd - 1) * 86400 + SodOf(high) - SodOf(f) + 1 ELSE 0
  IN
  CASE p = "second" -> secs + 1
    [] p = "minute" -> secs \div 60 + 1
    [] p = "hour"   -> secs \div 3600 + 1
    [] p = "day"    -> dd
    [] p = "week"   -> dd \div 7 + 1
    [] p = "month"  -> (high[1] - f[1]) * 12 + (high[2] - f[2]) + 1
    [] p = "year"   -> high[1] - f[1] + 1
Intersecting(low, high, p) ==
  IF NotAfter(high, low) THEN <<>>
  ELSE LET f == Floor(low, p)
           all == [k \in 1..Bound(f, high, p) |-> Kth(f, p, k - 1)]
       IN SelectSeq(all, LAMBDA x : x # None /\ Before(x, high))

\* ---- date_range.  kw: [years, months, weeks, days, hours, minutes, seconds : Int]
StepOnce(dt, kw) ==
  LET a == AddMonthsClamped(dt, 12 * kw.years + kw.months) IN
  IF a = None THEN None ELSE AddDSU(a, 7 * kw.weeks + kw.days, 3600 * kw.hours + 60 * kw.minutes + kw.seconds, 0)
RECURSIVE Walk(_, _, _)
\* -> <<values yielded in the loop, the value at which the loop stopped>>
Walk(cur, end, kw) == IF cur = None \/ ~Before(cur, end) THEN <<<<>>, cur>>
                      ELSE LET r == Walk(StepOnce(cur, kw), end, kw) IN <<<<cur>> \o r[1], r[2]>>
\* a step without years / months is a fixed span: the k-th value is begin + k spans (no recursion needed)
SpanDays(kw) == 7 * kw.weeks + kw.days
SpanSecs(kw) == 3600 * kw.hours + 60 * kw.minutes + kw.seconds
\* (days and seconds of the span are multiplied separately: TLC's integers have 32 bits)
FixedRange(begin, end, kw) ==
  LET wd == SpanDays(kw) + SpanSecs(kw) \div 86400        \* whole days of one step
      rs == SpanSecs(kw) % 86400                           \* and the rest of it in seconds
      dd == OrdOf(end) - OrdOf(begin) + 2
      secs == IF dd < 20000 THEN (dd - 2) * 86400 + SodOf(end) - SodOf(begin) + 1 ELSE 0       \* from begin to end, rounded up
      n  == IF wd > 0 THEN dd \div wd + 1 ELSE (IF dd < 20000 THEN secs \div rs + 2 ELSE dd * (86400 \div rs + 1))
      all == [k \in 1..n |-> AddDSU(begin, (k - 1) * wd, (k - 1) * rs, 0)]
  IN SelectSeq(all, LAMBDA x : x # None /\ Before(x, end))
DateRange(begin, end, kw) ==
  IF kw.years = 0 /\ kw.months = 0 THEN (IF Before(begin, end) THEN FixedRange(begin, end, kw) ELSE <<>>)
  ELSE LET w == Walk(begin, end, kw) IN
       IF kw.months > 0 /\ w[2] # None /\ w[2][1] = end[1] /\ w[2][2] = end[2] THEN Append(w[1], end) ELSE w[1]

\* ---- laws
\* the periods tile [low, high): the first one holds `low`, each next one starts where the previous ends, the last one
\* reaches `high`; every start is the start of its own period
Tiles(low, high, p, out) ==
  IF NotAfter(high, low) THEN out = <<>>
  ELSE /\ Len(out) > 0
       /\ NotAfter(out[1], low) /\ Before(low, Next1(out[1], p))
       /\ \A i \in 1..Len(out) : out[i] = Floor(out[i], p) /\ Before(out[i], high)
       /\ \A i \in 1..(Len(out) - 1) : out[i + 1] = Next1(out[i], p)
       /\ NotAfter(high, Next1(out[Len(out)], p))
\* date_range: starts at begin, ascends, stays below end except for the closing `end` of a month walk
RangeOK(begin, end, kw, out) ==
  /\ (Before(begin, end) => Len(out) > 0 /\ out[1] = begin)
  /\ \A i \in 1..(Len(out) - 1) : Before(out[i], out[i + 1]) \/ (i + 1 = Len(out) /\ out[i + 1] = end)
  /\ \A i \in 1..Len(out) : Before(out[i], end) \/ (i = Len(out) /\ out[i] = end /\ kw.months > 0)
=============================================================================
