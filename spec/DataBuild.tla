----------------------------- MODULE DataBuild -----------------------------
(* The data generator (dateparser_scripts/write_complete_data.py:33-125, utils.combine_dicts) and the   *)
(* timezone table builder (timezone_parser.py:61-82) over ordered association lists.                    *)
(* A value is a tagged record [t, v]:  "s" string, "i" integer, "b" boolean, "n" null,                  *)
(*   "l" list of values, "d" ordered dictionary = sequence of <<key, value>>,                           *)
(*   "p" a string of a relative-type-regex list cut at its "{0}" placeholders (sequence of segments).    *)
EXTENDS Naturals, Sequences, FiniteSets, TLC

NumberPattern == "(\\d+[.,]?\\d*)"

Index(d, k) == IF \E i \in 1..Len(d.v) : d.v[i][1] = k
               THEN CHOOSE i \in 1..Len(d.v) : d.v[i][1] = k /\ \A j \in 1..(i - 1) : d.v[j][1] # k
               ELSE 0
Has(d, k) == Index(d, k) # 0
Get(d, k) == d.v[Index(d, k)][2]

\* combine_dicts(primary, supplementary): primary order first; lists concatenate, dictionaries merge
\* recursively, scalars are overridden; keys only in the supplementary follow in its order
RECURSIVE Combine(_, _)
Combine(p, s) ==
  LET merged == [i \in 1..Len(p.v) |->
                   LET k == p.v[i][1]  val == p.v[i][2] IN
                   IF ~Has(s, k) THEN <<k, val>>
                   ELSE IF val.t = "l" THEN <<k, [t |-> "l", v |-> val.v \o Get(s, k).v]>>
                   ELSE IF val.t = "d" THEN <<k, Combine(val, Get(s, k))>>
                   ELSE <<k, Get(s, k)>>]
      rest == SelectSeq(s.v, LAMBDA e : ~Has(p, e[1]))
  IN [t |-> "d", v |-> merged \o rest]

WithName(d, lang) == IF Has(d, "name") THEN d ELSE [t |-> "d", v |-> Append(d.v, <<"name", [t |-> "s", v |-> lang]>>)]

\* _modify_data: "{0}" -> number pattern in the strings of relative-type-regex (top level and per locale)
RECURSIVE Join(_, _)
Join(segs, i) == IF i > Len(segs) THEN "" ELSE IF i = Len(segs) THEN segs[i] ELSE segs[i] \o NumberPattern \o Join(segs, i + 1)
RECURSIVE Resolve(_)
Resolve(x) == CASE x.t = "p" -> [t |-> "s", v |-> Join(x.v, 1)]
                [] x.t = "l" -> [t |-> "l", v |-> [i \in 1..Len(x.v) |-> Resolve(x.v[i])]]
                [] x.t = "d" -> [t |-> "d", v |-> [i \in 1..Len(x.v) |-> <<x.v[i][1], Resolve(x.v[i][2])>>]]
                [] OTHER -> x

Generate(lang, cldr, supp, base) == Resolve(Combine(WithName(Combine(cldr, supp), lang), base))

\* build_tz_offsets: for every group, pattern, timezone: the plain pattern, then one row per replacement
\* src: sequence of groups [np, nr, tzs |-> <<<<name, offset>>...>>]; pat[g][p][t][r+1] = pattern text (exported)
RECURSIVE RowsOfTz(_, _, _, _, _, _)
RowsOfTz(src, pat, g, p, t, r) ==
  IF r > src[g].nr THEN <<>>
  ELSE <<<<src[g].tzs[t][1], pat[g][p][t][r + 1], src[g].tzs[t][2]>>>> \o RowsOfTz(src, pat, g, p, t, r + 1)
RECURSIVE RowsOfPattern(_, _, _, _, _)
RowsOfPattern(src, pat, g, p, t) ==
  IF t > Len(src[g].tzs) THEN <<>> ELSE RowsOfTz(src, pat, g, p, t, 0) \o RowsOfPattern(src, pat, g, p, t + 1)
RECURSIVE RowsOfGroup(_, _, _, _)
RowsOfGroup(src, pat, g, p) ==
  IF p > src[g].np THEN <<>> ELSE RowsOfPattern(src, pat, g, p, 1) \o RowsOfGroup(src, pat, g, p + 1)
RECURSIVE BuildTzOffsets(_, _, _)
BuildTzOffsets(src, pat, g) ==
  IF g > Len(src) THEN <<>> ELSE RowsOfGroup(src, pat, g, 1) \o BuildTzOffsets(src, pat, g + 1)

SeqToSet(s) == {s[i] : i \in 1..Len(s)}
NoDup(s) == Cardinality(SeqToSet(s)) = Len(s)
=============================================================================
