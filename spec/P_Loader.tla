------------------------------ MODULE P_Loader ------------------------------
\* the small world of the E1 run of Loader.tla
EXTENDS Loader
MCOrder == <<"en", "fr", "de">>
MCLocales == {<<"en", "AU">>, <<"en", "GB">>, <<"fr", "BE">>, <<"fr", "CA">>, <<"de", "AT">>, <<"de", "BE">>}
=============================================================================
