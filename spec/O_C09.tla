------------------------------- MODULE O_C09 -------------------------------
(* C09 - PREFER_DATES_FROM selects the past / future occurrence, keeping the named parts.          *)
(* Oracle written from the statement (DESIGN Appendix B).  Forms:                                   *)
(*   "weekday" (w)          nearest occurrence on the demanded side, a same-weekday name moves 7    *)
(*   "time"    (h, mi)      nearest occurrence of that clock time on the demanded side              *)
(*   "month"   (m)          named month kept, side as demanded, current_period = reference year     *)
(*   "daymonth"(m, d)       named day and month kept, side as demanded                              *)
(*   "yy"      (m, d, yy)   century chosen on the demanded side, day / month / yy kept              *)
(* PREFER_DAY_OF_MONTH / PREFER_MONTH_OF_YEAR are at their defaults ("current").                    *)
EXTENDS Calendar

\* ---- weekday-only: an exact value
WeekdayOnly(b, w, pref) ==
  LET d0 == OrdOf(b)  cur == WeekdayOfOrd(d0)
      back == (cur - w) % 7   fwd == (w - cur) % 7
      o == CASE pref = "past"   -> d0 - (IF back = 0 THEN 7 ELSE back)
             [] pref = "future" -> d0 + (IF fwd = 0 THEN 7 ELSE fwd)
             [] OTHER           -> d0 - back
  IN FromParts(o, 0, 0)

\* ---- time-only: candidate k = wall time t on the reference day + k, in a zone `off` seconds east
TimeCand(b, t, k) == AddDays(<<b[1], b[2], b[3], t[1], t[2], t[3], t[4]>>, k)
TimeOnly(b, t, pref, off) ==
  LET c0 == TimeCand(b, t, 0)
      u0 == ShiftSeconds(c0, -off)            \* the candidate's instant on the reference's clock
  IN CASE pref = "past"   -> IF NotAfter(u0, b) THEN c0 ELSE TimeCand(b, t, -1)
       [] pref = "future" -> IF NotAfter(b, u0) THEN c0 ELSE TimeCand(b, t, 1)
       [] OTHER           -> c0

\* ---- month forms: predicates
SideOK(pref, b, out) == /\ (pref = "past" => NotAfter(out, b))
                        /\ (pref = "future" => NotAfter(b, out))
MonthOK(b, m, pref, out) ==
  /\ out[2] = m /\ TimeOf(out) = <<0, 0, 0, 0>>
  /\ SideOK(pref, b, out)
  /\ (pref = "current_period" => out[1] = b[1])
DayMonthOK(b, m, d, pref, out) ==
  /\ out[2] = m /\ out[3] = d /\ TimeOf(out) = <<0, 0, 0, 0>>
  /\ SideOK(pref, b, out)
  /\ (pref = "current_period" /\ ~(m = 2 /\ d = 29 /\ ~IsLeap(b[1])) => out[1] = b[1])
\* day and month WITH a clock time: the time of day takes part in "not after / not before the reference" - the named day
\* of the reference's own date with a later time is AFTER the reference
DayMonthTimeOK(b, m, d, t, pref, out) ==
  /\ out[2] = m /\ out[3] = d /\ TimeOf(out) = t
  /\ SideOK(pref, b, out)
  /\ (pref = "current_period" /\ ~(m = 2 /\ d = 29 /\ ~IsLeap(b[1])) => out[1] = b[1])
Pivot(yy) == IF yy >= 69 THEN 1900 + yy ELSE 2000 + yy
TwoDigitOK(b, m, d, yy, pref, out) ==
  /\ out[2] = m /\ out[3] = d /\ TimeOf(out) = <<0, 0, 0, 0>>
  /\ out[1] \in {Pivot(yy) - 100, Pivot(yy), Pivot(yy) + 100}
  /\ SideOK(pref, b, out)
  /\ (pref = "current_period" => out[1] = Pivot(yy))

\* ---- domain
InDomain(r) ==
  /\ r.pref \in {"past", "future", "current_period"}
  /\ ValidDT(r.base)
  /\ CASE r.form = "weekday"  -> r.w \in 0..6 /\ OrdOf(r.base) > 14 /\ OrdOf(r.base) < MaxOrd - 14
       [] r.form = "time"     -> r.t[1] \in 0..23 /\ r.t[2] \in 0..59 /\ r.t[3] \in 0..59
                                 /\ OrdOf(r.base) > 2 /\ OrdOf(r.base) < MaxOrd - 2
       [] r.form = "month"    -> r.m \in 1..12 /\ r.base[1] > 8 /\ r.base[1] < 9990
       [] r.form = "daymonth" -> r.m \in 1..12 /\ r.d >= 1 /\ r.d <= DIM(2000, r.m)
                                 /\ r.base[1] > 8 /\ r.base[1] < 9990
       [] r.form = "daymonthtime" -> r.m \in 1..12 /\ r.d >= 1 /\ r.d <= DIM(2000, r.m) /\ r.t[1] \in 0..23 /\ r.t[2] \in 0..59
                                 /\ r.base[1] > 8 /\ r.base[1] < 9990
       [] r.form = "yy"       -> r.m \in 1..12 /\ r.d >= 1 /\ r.d <= DIMTab[r.m] /\ r.yy \in 0..99
                                 /\ r.base[1] >= 1970 /\ r.base[1] <= 2067
       [] r.form = "timegap"  -> TRUE
       [] r.form = "timeaw"   -> r.t[1] \in 0..23 /\ r.t[2] \in 0..59 /\ r.t[3] \in 0..59
                                 /\ OrdOf(r.base) > 2 /\ OrdOf(r.base) < MaxOrd - 2
       [] r.form = "timez"    -> r.t[1] \in 0..23 /\ r.t[2] \in 0..59 /\ r.t[3] \in 0..59
                                 /\ OrdOf(r.base) > 2 /\ OrdOf(r.base) < MaxOrd - 2
       [] OTHER -> FALSE

\* a clock time alone under a zone WITH daylight saving, around its transitions (wall times that do not exist or exist
\* twice): whichever day is chosen, it is the reference day or a neighbour ('current_period': the reference day), and
\* "the time of day named in the string is preserved"
TimeKept(r, out) ==
  /\ out[4] = r.t[1] /\ out[5] = r.t[2] /\ out[6] = r.t[3]
  /\ LET dd == OrdOf(<<out[1], out[2], out[3]>>) - OrdOf(<<r.base[1], r.base[2], r.base[3]>>) IN
     IF r.pref = "current_period" THEN dd = 0 ELSE dd \in {-1, 0, 1}

\* "ok" | "wrong" ; out = None (<<>>) is always wrong inside the domain
Holds(r, out) ==
  IF out = None \/ Len(out) # 7 THEN FALSE
  ELSE CASE r.form = "weekday"  -> out = WeekdayOnly(r.base, r.w, r.pref)
         [] r.form = "time"     -> \/ out = TimeOnly(r.base, r.t, r.pref, r.off)
                                   \/ out = TimeOnly(r.base, r.t, r.pref, 0)
         [] r.form = "timegap"  -> TimeKept(r, out)
         \* a clock time that carries its own zone (r.soff seconds east): that zone, not TIMEZONE, places the candidate
         \* on the reference's clock; the result is then expressed in TIMEZONE (r.off seconds east)
         \* a clock time alone with a timezone-AWARE reference given in the zone that TIMEZONE names (r.off seconds east on
         \* that day): reference and candidate are on one clock, the reference's own calendar day is the candidate's day
         [] r.form = "timeaw"   -> out = TimeOnly(r.base, r.t, r.pref, 0)
         [] r.form = "timez"    -> out = ShiftSeconds(TimeOnly(r.base, r.t, r.pref, r.soff), r.off - r.soff)
         \* (a timezone-aware reference r.boff seconds east: its OWN calendar fields fill what the string leaves open, and
         \* "not after / not before the reference" is about instants - the result is a wall clock of TIMEZONE, UTC in these
         \* cases, so the reference is compared as its UTC wall clock; r.boff = 0 for naive references)
         [] r.form = "month"    -> /\ MonthOK(ShiftSeconds(r.base, 0 - r.boff), r.m, r.pref, out)
                                   /\ (r.pref = "current_period" => out[1] = r.base[1])
         [] r.form = "daymonth" -> /\ DayMonthOK(ShiftSeconds(r.base, 0 - r.boff), r.m, r.d, r.pref, out)
                                   /\ (r.pref = "current_period" /\ ~(r.m = 2 /\ r.d = 29 /\ ~IsLeap(r.base[1])) => out[1] = r.base[1])
         [] r.form = "daymonthtime" -> DayMonthTimeOK(ShiftSeconds(r.base, 0 - r.boff), r.m, r.d, r.t, r.pref, out)
         [] r.form = "yy"       -> TwoDigitOK(r.base, r.m, r.d, r.yy, r.pref, out)

\* ---- known finding C09-month-override: the month preference is applied after the weekday / time
\* shift, so a shifted date that left the reference month gets the reference month back (December when
\* the day does not exist there).  Signature: the demanded value is in another month than the
\* reference AND the observed value is exactly the month-overridden demanded value.
MonthOverridden(dt, b) ==
  IF dt[3] <= DIM(dt[1], b[2]) THEN <<dt[1], b[2], dt[3], dt[4], dt[5], dt[6], dt[7]>>
  ELSE <<dt[1], 12, dt[3], dt[4], dt[5], dt[6], dt[7]>>
Demanded(r) == IF r.form = "weekday" THEN WeekdayOnly(r.base, r.w, r.pref)
               ELSE TimeOnly(r.base, r.t, r.pref, r.off)
SigMonthOverride(r, out) ==
  /\ r.form \in {"weekday", "time"}
  /\ \E e \in (IF r.form = "weekday" THEN {WeekdayOnly(r.base, r.w, r.pref)}
               ELSE {TimeOnly(r.base, r.t, r.pref, r.off), TimeOnly(r.base, r.t, r.pref, 0)}) :
        e[2] # r.base[2] /\ out = MonthOverridden(e, r.base)
=============================================================================
