------------------------------- MODULE T_C13 -------------------------------
(* C13 - language selection is honoured; autodetection is reproducible.  One record per input and      *)
(* language list: the single-language outcomes (in the order the library tries the languages), the      *)
(* multi-language outcome with and without DEFAULT_LANGUAGES, the autodetected outcome and its re-parse. *)
EXTENDS Pipeline, Json, IOUtils
Ord7 == INSTANCE O_C07

Tr == ndJsonDeserialize(IOEnv.TRACE_FILE)
VARIABLE l

\* an outcome is [loc |-> STRING, res |-> <<out, period>>]; nothing recognised = [loc |-> "", res |-> <<>>]
Nothing == [loc |-> "", res |-> <<>>]
RECURSIVE FirstOk(_, _)
FirstOk(singles, i) == IF i > Len(singles) THEN 0 ELSE IF singles[i].res # <<>> THEN i ELSE FirstOk(singles, i + 1)
Expected(r) == LET k == FirstOk(r.singles, 1) IN IF k = 0 THEN Nothing ELSE r.singles[k]

ExpectedFallback(r) == LET k == FirstOk(r.defsingles, 1) IN IF k = 0 THEN Nothing ELSE r.defsingles[k]

Verdict(r) ==
  IF r.exc # "" THEN "exception"
  ELSE IF r.multi # Expected(r) THEN "not-the-first-successful-language"
  ELSE IF r.multi.loc # "" /\ ~(\E i \in 1..Len(r.order) : r.order[i] = r.multi.loc) THEN "reported-locale-not-selected"
  ELSE IF r.multi # Nothing /\ r.multidef # r.multi THEN "default-languages-changed-the-result"
  \* the fallback: when no selected language serves the string, the first DEFAULT_LANGUAGE - in the given order when
  \* requested, else in the library's priority order - that parses it decides (r.defsingles: each fallback language alone)
  ELSE IF r.multi = Nothing /\ r.multidef # ExpectedFallback(r) THEN "fallback-not-the-first-successful-default-language"
  ELSE IF ~r.held THEN "caller-list-modified"
  ELSE IF r.multidef.loc # "" /\ ~(\E i \in 1..Len(r.order) : r.order[i] = r.multidef.loc)
          /\ ~(\E i \in 1..Len(r.defaults) : r.defaults[i] = r.multidef.loc) THEN "reported-locale-not-selected"
  ELSE IF r.auto.res # <<>> /\ r.reparse # r.auto THEN "autodetection-not-reproducible"
  ELSE IF r.region # Nothing /\ r.region # r.asLocale THEN "region-differs-from-locale"
  ELSE "ok"
\* refinement-on-trace of the locale loop (Pipeline.tla): the locales for which a parse was attempted must
\* come in the order the loop is specified to try them (a subsequence of `order`: inapplicable ones are
\* skipped), every attempt but the last fails, and the loop stops at the first success
RECURSIVE IsSubseq(_, _, _, _)
IsSubseq(a, i, b, j) == IF i > Len(a) THEN TRUE ELSE IF j > Len(b) THEN FALSE
                        ELSE IF a[i] = b[j] THEN IsSubseq(a, i + 1, b, j + 1) ELSE IsSubseq(a, i, b, j + 1)
TriesOK(r) ==
  LET names == [i \in 1..Len(r.tries) |-> r.tries[i][1]] IN
  /\ IsSubseq(names, 1, r.order, 1)
  /\ \A i \in 1..Len(r.tries) : (r.tries[i][2] <=> (i = Len(r.tries) /\ r.multi.res # <<>>))
  /\ (r.multi.res # <<>> => Len(r.tries) > 0 /\ r.tries[Len(r.tries)][1] = r.multi.loc)
\* kind "conv": "selecting a region or locale applies that locale's conventions" - an ambiguous numeric date read under a
\* regional locale (given as locales=[..] or as language + region) follows THAT locale's date order (from the shipped
\* data), whichever locales of the same language the process loaded before
ConvVerdict(r) ==
  LET eff == IF r.locorder # "" THEN r.locorder ELSE "MDY" IN
  IF ~Ord7!InDomain(eff, r.f, r.sep) THEN "skip"
  ELSE IF r.exc # "" THEN "exception"
  ELSE IF r.out = Ord7!Expected(eff, r.f, <<0, 0, 0>>) THEN "ok" ELSE "locale-conventions-not-applied"
CheckConv(r) == LET v == ConvVerdict(r) IN
                IF v \in {"ok", "skip"} THEN TRUE
                ELSE PrintT(<<"REJECT", r.tid, "prop", v, Ord7!Expected(IF r.locorder # "" THEN r.locorder ELSE "MDY", r.f, <<0, 0, 0>>)>>)
CheckMain(r) == LET v == Verdict(r) IN
            /\ (IF v = "ok" THEN TRUE ELSE PrintT(<<"REJECT", r.tid, "prop", v, Expected(r)>>))
            /\ (IF r.bound /\ r.exc = "" /\ ~TriesOK(r) THEN PrintT(<<"REJECT", r.tid, "abs", "locale-loop-order", r.tries>>) ELSE TRUE)

TInit == l = 0
\* kind "tpl": a parser made with try_previous_locales=True for ONE language, used after another such parser of another
\* language in the same process: it still reports its own language and returns what that language alone gives
CheckTpl(r) ==
  IF r.exc # "" THEN PrintT(<<"REJECT", r.tid, "prop", "exception", r.single>>)
  ELSE IF r.out.loc # "" /\ ~(\E i \in 1..Len(r.selected) : r.selected[i] = r.out.loc) THEN PrintT(<<"REJECT", r.tid, "prop", "reported-locale-not-selected", r.single>>)
  ELSE IF r.out # r.single THEN PrintT(<<"REJECT", r.tid, "prop", "previous-locales-of-another-parser-used", r.single>>)
  ELSE TRUE
\* kind "convrel": the selected locale's date order reaches every parser that reads one (absolute, no-spaces): the outcome
\* equals the outcome of the same call with that order stated explicitly (r.stated)
CheckConvRel(r) == IF r.out = r.stated THEN TRUE
                   ELSE PrintT(<<"REJECT", r.tid, "prop", "locale-date-order-not-applied-by-every-parser", r.stated>>)
Check(r) == IF r.kind = "convrel" THEN CheckConvRel(r) ELSE IF r.kind = "conv" THEN CheckConv(r) ELSE IF r.kind = "tpl" THEN CheckTpl(r) ELSE CheckMain(r)
TNext == l < Len(Tr) /\ l' = l + 1 /\ Check(Tr[l + 1])
TSpec == TInit /\ [][TNext]_l
Consumed == PrintT(<<"CONSUMED", TLCGet("stats").diameter - 1, Len(Tr)>>)
=============================================================================
