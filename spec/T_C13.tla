------------------------------- MODULE T_C13 -------------------------------
(* C13 - language selection is honoured; autodetection is reproducible.  One record per input and      *)
(* language list: the single-language outcomes (in the order the library tries the languages), the      *)
(* multi-language outcome with and without DEFAULT_LANGUAGES, the autodetected outcome and its re-parse. *)
EXTENDS Pipeline, Json, IOUtils

Tr == ndJsonDeserialize(IOEnv.TRACE_FILE)
VARIABLE l

\* an outcome is [loc |-> STRING, res |-> <<out, period>>]; nothing recognised = [loc |-> "", res |-> <<>>]
Nothing == [loc |-> "", res |-> <<>>]
RECURSIVE FirstOk(_, _)
FirstOk(singles, i) == IF i > Len(singles) THEN 0 ELSE IF singles[i].res # <<>> THEN i ELSE FirstOk(singles, i + 1)
Expected(r) == LET k == FirstOk(r.singles, 1) IN IF k = 0 THEN Nothing ELSE r.singles[k]

Verdict(r) ==
  IF r.exc # "" THEN "exception"
  ELSE IF r.multi # Expected(r) THEN "not-the-first-successful-language"
  ELSE IF r.multi.loc # "" /\ ~(\E i \in 1..Len(r.order) : r.order[i] = r.multi.loc) THEN "reported-locale-not-selected"
  ELSE IF r.multi # Nothing /\ r.multidef # r.multi THEN "default-languages-changed-the-result"
  ELSE IF r.multidef.loc # "" /\ ~(\E i \in 1..Len(r.order) : r.order[i] = r.multidef.loc)
          /\ ~(\E i \in 1..Len(r.defaults) : r.defaults[i] = r.multidef.loc) THEN "reported-locale-not-selected"
  ELSE IF r.auto.res # <<>> /\ r.reparse # r.auto THEN "autodetection-not-reproducible"
  ELSE IF r.region # Nothing /\ r.region # r.asLocale THEN "region-differs-from-locale"
  ELSE "ok"
Check(r) == LET v == Verdict(r) IN IF v = "ok" THEN TRUE ELSE PrintT(<<"REJECT", r.tid, "prop", v, Expected(r)>>)

TInit == l = 0
TNext == l < Len(Tr) /\ l' = l + 1 /\ Check(Tr[l + 1])
TSpec == TInit /\ [][TNext]_l
Consumed == PrintT(<<"CONSUMED", TLCGet("stats").diameter - 1, Len(Tr)>>)
=============================================================================
