------------------------------- MODULE T_C10 -------------------------------
(* Trace validation for C10: one record per input holding the five outcomes (relational            *)
(* property-on-trace), plus the absolute-parser probe events of all runs (refinement-on-trace).     *)
EXTENDS O_C10, AbsTrace, NoSpaces, Json, IOUtils

Tr == ndJsonDeserialize(IOEnv.TRACE_FILE)
VARIABLE l

\* an outcome is <<7 ints, offset>> or None; exceptions are reported by the harness as ["exc", class]
IsExc(o) == Len(o) = 3
DtOf(o) == IF o = None THEN None ELSE o[1]

PropVerdict(r) ==
  LET R == SeqToSet(r.R)  ps == SeqToSet(r.present) IN
  \* under PREFER_DATES_FROM past / future a stated two-digit year is still pivoted by the clock: the clock-freedom
  \* clauses are judged for the default preference, and for every preference when the string is known to write its
  \* year (if any) with four digits (r.y4); "strictness only filters" holds for every preference
  IF \E o \in {r.outN, r.outS, r.outS2, r.outR, r.outR2, r.outSR, r.outSR2} : o # None /\ IsExc(o) THEN "exception"
  ELSE IF ~StrictFilters(r.outN, r.outS) THEN "strict-changed-result"
  ELSE IF (r.pdf = "current_period" \/ r.y4) /\ ~ClockFree(r.outS, r.outS2) THEN "strict-result-depends-on-reference-time"
  \* STRICT_PARSING switched on NEXT TO a REQUIRE_PARTS list (outSR, outSR2): it still only filters, its results are still
  \* free of the reference time and still state every part - a list of required parts never weakens it
  ELSE IF ~StrictFilters(r.outR, r.outSR) THEN "strict-changed-result-next-to-require-parts"
  ELSE IF (r.pdf = "current_period" \/ r.y4) /\ ~ClockFree(r.outSR, r.outSR2) THEN "strict-result-depends-on-reference-time-next-to-require-parts"
  ELSE IF r.gen /\ ~StatesAll(r.outSR, ps) THEN "strict-result-without-all-parts-next-to-require-parts"
  ELSE IF r.maxparts < 3 /\ r.outSR # None /\ r.dorder \notin {"YMD", "YDM"} THEN "strict-result-without-all-parts-next-to-require-parts"
  ELSE IF ~RequireFilters(r.outN, r.outR) THEN "require-parts-changed-result"
  \* (r.conv: the result is re-expressed in another zone (TO_TIMEZONE) - a part the string leaves open and that is NOT required,
  \* say the day of 'March 2015', comes from the reference and can carry the converted instant across a month end; the
  \* required parts are then compared only when every part is required)
  ELSE IF (r.pdf = "current_period" \/ r.y4) /\ (~r.conv \/ R = {"day", "month", "year"}) /\ ~RequireClockFree(DtOf(r.outR), DtOf(r.outR2), R) THEN "required-part-depends-on-reference-time"
  \* a string with fewer than three date tokens cannot state day, month and year.  Known finding C10-token-reused: under a
  \* year-first order the number displaced by the four-digit year is used for BOTH the month and the day
  ELSE IF r.maxparts < 3 /\ (r.outS # None \/ r.outR # None) THEN (IF r.dorder \in {"YMD", "YDM"} THEN "known" ELSE "strict-result-without-all-parts")
  ELSE IF r.gen /\ ~StatesAll(r.outS, ps) THEN "strict-result-without-all-parts"
  ELSE IF r.gen /\ ~RequireStates(r.outR, ps, R) THEN "result-without-required-part"
  ELSE "ok"

\* refinement-on-trace of the no-spaces parser (NoSpaces.tla)
NspModel(r) == IF ~r.eligible THEN [out |-> NSFail, period |-> ""]
               ELSE NoSpacesParse(r.toks, r.order, r.strict, SeqToSet(r.require))
NspVerdict(r) == IF r.skip THEN "skip"
                 ELSE LET m == NspModel(r) IN
                      IF m.out = r.out /\ (m.out = NSFail \/ m.period = r.period) THEN "ok" ELSE "drift"
Check(r) ==
  IF r.kind = "nsp"
    THEN LET v == NspVerdict(r) IN
         IF v = "drift" THEN PrintT(<<"REJECT", r.tid, "abs", "nospaces", NspModel(r)>>) ELSE TRUE
  ELSE IF r.kind = "abs"
    THEN LET v == AbsVerdict(r) IN
         IF v = "drift" THEN PrintT(<<"REJECT", r.tid, "abs", v, AbsModel(r)>>)
         ELSE IF v = "skip" THEN PrintT(<<"SKIP", r.tid, "abs">>) ELSE TRUE
    ELSE LET v == PropVerdict(r) IN
         IF v = "skip" THEN PrintT(<<"SKIP", r.tid, "prop">>)
         ELSE IF v = "known" THEN PrintT(<<"KNOWN", r.tid, "C10-token-reused", <<"relation">>>>)
         ELSE IF v # "ok" THEN PrintT(<<"REJECT", r.tid, "prop", v, <<"relation">>>>)
         ELSE TRUE

TInit == l = 0
TNext == l < Len(Tr) /\ l' = l + 1 /\ Check(Tr[l + 1])
TSpec == TInit /\ [][TNext]_l
Consumed == PrintT(<<"CONSUMED", TLCGet("stats").diameter - 1, Len(Tr)>>)
=============================================================================
