------------------------------- MODULE T_C20 -------------------------------
(* Trace validation for C20: one record per explored single-preemption schedule of the real code:    *)
(* where A was suspended (does it hold the library's lock there?), whether B could run to completion  *)
(* while A was suspended, and whether both results equal the sequential ones.                        *)
(*   property-on-trace : both results are the sequential results                                     *)
(*   refinement-on-trace (SharedState2 with Locked = TRUE): B's Enter is enabled iff the lock is free *)
(*     - B completing while A is inside its critical section is not a behaviour of the model, and     *)
(*       neither is B waiting while A is outside.                                                    *)
EXTENDS Naturals, Sequences, TLC, Json, IOUtils

Tr == ndJsonDeserialize(IOEnv.TRACE_FILE)
VARIABLE l

BMayRun(holds) == ~holds          \* Exec(B) at "Enter" requires lock = "" (SharedState2, Locked)

Check(r) ==
  /\ (IF ~(r.aok /\ r.bok) THEN PrintT(<<"REJECT", r.tid, "prop", "not-linearizable", r.k>>) ELSE TRUE)
  /\ (IF r.holds = "unknown" THEN PrintT(<<"SKIP", r.tid, "abs">>)
      ELSE IF (r.holds = "yes") = r.blocked THEN TRUE
      ELSE PrintT(<<"REJECT", r.tid, "abs", "lock-discipline", r.k>>))

TInit == l = 0
TNext == l < Len(Tr) /\ l' = l + 1 /\ Check(Tr[l + 1])
TSpec == TInit /\ [][TNext]_l
Consumed == PrintT(<<"CONSUMED", TLCGet("stats").diameter - 1, Len(Tr)>>)
=============================================================================
