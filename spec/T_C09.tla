------------------------------- MODULE T_C09 -------------------------------
(* Trace validation for C09 (property-on-trace: kind "c09"; refinement-on-trace: kind "abs").      *)
EXTENDS O_C09, AbsTrace, Json, IOUtils

Tr == ndJsonDeserialize(IOEnv.TRACE_FILE)
VARIABLE l

PropVerdict(r) ==
  IF ~InDomain(r) THEN "skip"
  ELSE IF r.exc # "" THEN "exception"
  ELSE IF Holds(r, r.out) THEN "ok"
  ELSE IF r.out # None /\ Len(r.out) = 7 /\ SigMonthOverride(r, r.out) THEN "known"
  ELSE "wrong"

PropExpected(r) == IF r.form \in {"weekday", "time"} THEN Demanded(r) ELSE <<"predicate", r.form>>

Check(r) ==
  IF r.kind = "abs"
    THEN LET v == AbsVerdict(r) IN
         IF v = "drift" THEN PrintT(<<"REJECT", r.tid, "abs", v, AbsModel(r)>>)
         ELSE IF v = "skip" THEN PrintT(<<"SKIP", r.tid, "abs">>) ELSE TRUE
    ELSE LET v == PropVerdict(r) IN
         IF v = "skip" THEN PrintT(<<"SKIP", r.tid, "prop">>)
         ELSE IF v = "known" THEN PrintT(<<"KNOWN", r.tid, "C09-month-override", PropExpected(r)>>)
         ELSE IF v # "ok" THEN PrintT(<<"REJECT", r.tid, "prop", v, PropExpected(r)>>)
         ELSE TRUE

TInit == l = 0
TNext == l < Len(Tr) /\ l' = l + 1 /\ Check(Tr[l + 1])
TSpec == TInit /\ [][TNext]_l
Consumed == PrintT(<<"CONSUMED", TLCGet("stats").diameter - 1, Len(Tr)>>)
=============================================================================
