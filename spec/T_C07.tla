------------------------------- MODULE T_C07 -------------------------------
(* Trace validation for C07: one record per real API call (kind "c07": property-on-trace) and one  *)
(* per logged run of the absolute parser (kind "abs": refinement-on-trace).                        *)
EXTENDS O_C07, AbsTrace, Json, IOUtils

Tr == ndJsonDeserialize(IOEnv.TRACE_FILE)
VARIABLE l

PropVerdict(r) ==
  LET eff == EffOrder(r.explicit, r.given, r.plo, r.locorder) IN
  IF ~InDomain(eff, r.f, r.sep) THEN "skip"
  ELSE IF r.exc # "" THEN "exception"
  ELSE IF r.out = ExpectedUs(eff, r.f, r.tm, r.us) /\ r.period = "day" THEN "ok"
  ELSE IF YearAsOffset(eff, r.f, r.sep) THEN "known" ELSE "wrong"

PropExpected(r) == LET eff == EffOrder(r.explicit, r.given, r.plo, r.locorder) IN
                   IF InDomain(eff, r.f, r.sep) THEN ExpectedUs(eff, r.f, r.tm, r.us) ELSE <<>>

Check(r) ==
  IF r.kind = "abs"
    THEN LET v == AbsVerdict(r) IN
         IF v = "drift" THEN PrintT(<<"REJECT", r.tid, "abs", v, AbsModel(r)>>)
         ELSE IF v = "skip" THEN PrintT(<<"SKIP", r.tid, "abs">>) ELSE TRUE
    ELSE LET v == PropVerdict(r) IN
         IF v = "known" THEN PrintT(<<"KNOWN", r.tid, "C07-year-as-offset", PropExpected(r)>>)
         ELSE IF v \in {"exception", "wrong"} THEN PrintT(<<"REJECT", r.tid, "prop", v, PropExpected(r)>>)
         ELSE IF v = "skip" THEN PrintT(<<"SKIP", r.tid, "prop">>) ELSE TRUE

TInit == l = 0
TNext == l < Len(Tr) /\ l' = l + 1 /\ Check(Tr[l + 1])
TSpec == TInit /\ [][TNext]_l
Consumed == PrintT(<<"CONSUMED", TLCGet("stats").diameter - 1, Len(Tr)>>)
=============================================================================
