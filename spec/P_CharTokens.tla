------------------------------ MODULE P_CharTokens ------------------------------
\* The scanner of parser.py as the loop it is (one action per branch of `tokenize`), over every string up to MaxLen of an
\* alphabet with a member of every class that matters: digit, colon, lower / upper ASCII letter, space, full stop, a
\* non-ASCII letter and a non-ASCII digit (both belong to the third class: only ASCII is a number or a word here).
EXTENDS CharTokens, TLC
CONSTANTS Alphabet, MaxLen
VARIABLES inp, pos, token, out, pc
vars == <<inp, pos, token, out, pc>>

Init == inp = <<>> /\ pos = 0 /\ token = <<>> /\ out = <<>> /\ pc = "choose"
Extend == pc = "choose" /\ Len(inp) < MaxLen /\ (\E c \in Alphabet : inp' = Append(inp, c)) /\ UNCHANGED <<pos, token, out, pc>>
Start  == pc = "choose" /\ pc' = "scan" /\ UNCHANGED <<inp, pos, token, out>>
Emit(o, t) == Append(o, <<t, TypeOf(Last(t))>>)
\* `else: token += nextchar` with nothing pending
ReadFirst  == pc = "scan" /\ pos < Len(inp) /\ token = <<>> /\ token' = <<inp[pos + 1]>> /\ pos' = pos + 1 /\ UNCHANGED <<inp, out, pc>>
\* `if not switch: token += nextchar`
ReadSame   == pc = "scan" /\ pos < Len(inp) /\ token # <<>> /\ ~Switch(Last(token), inp[pos + 1])
              /\ token' = Append(token, inp[pos + 1]) /\ pos' = pos + 1 /\ UNCHANGED <<inp, out, pc>>
\* `else: yield token, type; token = nextchar`
ReadSwitch == pc = "scan" /\ pos < Len(inp) /\ token # <<>> /\ Switch(Last(token), inp[pos + 1])
              /\ out' = Emit(out, token) /\ token' = <<inp[pos + 1]>> /\ pos' = pos + 1 /\ UNCHANGED <<inp, pc>>
\* `if not nextchar:` - `token[-1]` fails on the empty pending token, otherwise the last token is yielded
EndOfInput == pc = "scan" /\ pos = Len(inp)
              /\ (IF token = <<>> THEN pc' = "failed" /\ UNCHANGED out ELSE pc' = "done" /\ out' = Emit(out, token))
              /\ UNCHANGED <<inp, pos, token>>
Next == Extend \/ Start \/ ReadFirst \/ ReadSame \/ ReadSwitch \/ EndOfInput
Spec == Init /\ [][Next]_vars

\* while scanning, what was emitted plus what is pending is exactly what was read
ScanInvariant == pc = "scan" => Flatten(out) \o token = SubSeq(inp, 1, pos)
MachineIsFunction == pc = "done" => out = Tokens(inp)
EmptyFails == (pc = "failed" => Fails(inp)) /\ (pc = "done" => ~Fails(inp))
Laws == pc = "done" => NothingLost(inp, out) /\ Homogeneous(out) /\ Maximal(out)
InitLaws == pc = "done" => StripLaw(inp) /\ FilteredLaw(inp)
\* the no-spaces parser's view: without colons every type-0 token is digits only, and deleting colons never creates a word
NoColonLaw == pc = "done" => LET tk == Tokens(NoColon(inp)) IN
                 /\ \A k \in 1..Len(tk) : \A i \in 1..Len(tk[k][1]) : tk[k][1][i] # 58
                 /\ Cardinality({k \in 1..Len(tk) : tk[k][2] = 1}) <= Cardinality({k \in 1..Len(out) : out[k][2] = 1})
\* emitted tokens are never revised
OutGrows == [][IsPrefix(out, out')]_vars
=============================================================================
