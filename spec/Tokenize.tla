------------------------------ MODULE Tokenize ------------------------------
\* `Dictionary.split` and `Dictionary.are_tokens_valid` (languages/dictionary.py:118-232): how a date
\* string is cut into tokens with the vocabulary of ONE locale, and when that locale counts as
\* applicable.  Every later stage (translation, language selection, search) consumes these tokens.
\*
\* The text is abstract: a sequence `cls` of character classes
\*     "L" word character that is neither digit nor underscore   "D" decimal digit (\d)
\*     "U" underscore                                             "N" anything else (\W)
\* a sequence `kt` (kt[i]: the single character i is one of the always-kept tokens + : . space - /),
\* and `occ`, the vocabulary in the order of the split regex's alternation (longest first, ties in
\* dictionary order) with, per word, its length and the positions where it occurs literally.
\* The split regex is
\*     ^(.*?(?:\A|\W|_|\d))(w1|w2|...)((?:\Z|\W|_|\d).*)$        (languages with word spacing)
\*     ^(.*?)(w1|w2|...)(.*)$                                     (no_word_spacing)
\* i.e. the LEFTMOST position that follows a boundary where SOME word matches and is followed by a
\* boundary; among the words matching there, the FIRST in alternation order -- transcribed below.
EXTENDS Naturals, Sequences, FiniteSets

Bnd(cls, i) == cls[i] \in {"N", "U", "D"}
BeforeOK(cls, p, i, nospace) == nospace \/ i = p \/ Bnd(cls, i - 1)
AfterOK(cls, j, nospace) == nospace \/ j = Len(cls) \/ Bnd(cls, j + 1)

\* the first word of the alternation that matches at position i and is followed by a boundary (0: none)
WordAt(cls, occ, i, nospace) ==
  LET ok == {w \in 1..Len(occ) : /\ i \in occ[w].at
                                 /\ i + occ[w].len - 1 <= Len(cls)
                                 /\ AfterOK(cls, i + occ[w].len - 1, nospace)}
  IN IF ok = {} THEN 0 ELSE CHOOSE w \in ok : \A v \in ok : w <= v

\* the lazy prefix: the leftmost admissible position at or after p (0: the regex does not match)
FirstMatch(cls, occ, p, nospace) ==
  LET cand == {i \in p..Len(cls) : BeforeOK(cls, p, i, nospace) /\ WordAt(cls, occ, i, nospace) # 0}
  IN IF cand = {} THEN 0 ELSE CHOOSE i \in cand : \A k \in cand : i <= k

\* _should_capture: everything when formatting is kept; otherwise an always-kept token or a piece with a
\* letter or a digit in it (KEEP_TOKEN_PATTERN)
Capt(cls, kt, keep, i, j) == keep \/ (i = j /\ kt[i]) \/ \E k \in i..j : cls[k] \in {"L", "D"}

\* NUMERAL_PATTERN.split: maximal runs of digits / of non-digits, as spans <<first, last>>
RECURSIVE Runs(_, _, _)
Runs(cls, i, j) ==
  IF i > j THEN <<>>
  ELSE LET d == (cls[i] = "D")
           e == CHOOSE e \in i..j : /\ \A k \in i..e : (cls[k] = "D") = d
                                    /\ (e = j \/ (cls[e + 1] = "D") # d)
       IN <<<<i, e>>>> \o Runs(cls, e + 1, j)
Numerals(cls, kt, keep, i, j) == SelectSeq(Runs(cls, i, j), LAMBDA sp : Capt(cls, kt, keep, sp[1], sp[2]))

\* _split_by_known_words on the suffix that starts at p: the while loop, one regex match per round
RECURSIVE ByKnownWords(_, _, _, _, _, _)
ByKnownWords(cls, kt, occ, nospace, keep, p) ==
  IF p > Len(cls) THEN <<>>
  ELSE LET i == FirstMatch(cls, occ, p, nospace) IN
       IF i = 0
         THEN (IF Capt(cls, kt, keep, p, Len(cls)) THEN Numerals(cls, kt, keep, p, Len(cls)) ELSE <<>>)
         ELSE LET w == WordAt(cls, occ, i, nospace)
                  j == i + occ[w].len - 1
                  known == IF Capt(cls, kt, keep, i, j) THEN <<<<i, j>>>> ELSE <<>>
                  unparsed == IF i > p /\ Capt(cls, kt, keep, p, i - 1) THEN Numerals(cls, kt, keep, p, i - 1) ELSE <<>>
              IN unparsed \o known \o ByKnownWords(cls, kt, occ, nospace, keep, j + 1)

\* are_tokens_valid: not only always-kept tokens, and every token a number, a relative phrase or a
\* dictionary entry.  tok: sequence of [keeptok, digits, rel, known : BOOLEAN]
TokensValid(tok) ==
  /\ \E i \in 1..Len(tok) : ~tok[i].keeptok
  /\ \A i \in 1..Len(tok) : tok[i].digits \/ tok[i].rel \/ tok[i].known
=============================================================================
