------------------------------- MODULE P_C18 -------------------------------
(* E1 for C18: every class string up to MaxLen.  WsInvariant: for a clean string (a fixed point of the  *)
(* sanitiser) every rewriting of the fixed family sanitises back to it.  DigitScriptInvariant: the      *)
(* sanitiser commutes with writing the digits in another decimal-digit script.                          *)
EXTENDS Sanitize

CONSTANT MaxLen
Alphabet == {"D", "N", "S", "W", "B", "P", "C", "L", "U", "G"}
VARIABLE s
Init == s = <<>>
Next == Len(s) < MaxLen /\ \E c \in Alphabet : s' = Append(s, c)
Spec == Init /\ [][Next]_s

RECURSIVE Expand(_, _)
Expand(x, rep) == IF x = <<>> THEN <<>> ELSE (IF Head(x) = "S" THEN rep ELSE <<Head(x)>>) \o Expand(Tail(x), rep)
Rewrites(x) == { <<"S">> \o x \o <<"S">>, <<"S", "S">> \o x, x \o <<"S">>, <<"W">> \o x \o <<"W", "S">>, <<"B">> \o x \o <<"B">>,
                 Expand(x, <<"S", "S">>), Expand(x, <<"W">>), Expand(x, <<"B">>), Expand(x, <<"S", "W", "B">>),
                 x \o <<"C">>, x \o <<"C", "C">> }
\* two members of the family one after the other: the colon of a label, then the whitespace of the markup around it
Rewrites2(x) == { x \o <<"C", "S">>, x \o <<"C", "W">>, x \o <<"C", "B">>, <<"S">> \o x \o <<"C", "S", "S">>, <<"S", "S">> \o x \o <<"C">>,
                  Expand(x, <<"S", "S">>) \o <<"C">>, x \o <<"C", "C", "S">> }
Clean(x) == x # <<>> /\ San(x) = x /\ ~(\E i \in 1..Len(x) : x[i] \in {"W", "B"})
WsInvariant == Clean(s) => \A r \in Rewrites(s) : San(r) = s
ComposedInvariant == Clean(s) => \A r \in Rewrites2(s) : San(r) = s
\* ... and for strings that are not fixed points (they end in colons, carry whitespace of their own): padding never matters
\* (a string that BEGINS with the year mark is left out: the Russian rule needs a character in front of the mark, so the
\* lone mark 'g.' keeps its letter and ' g.' loses it - a degenerate string that is no date in either spelling; DESIGN 0.3)
PadInvariant == (\E i \in 1..Len(s) : ~IsWs(s[i])) /\ s[1] # "G" => \A r \in {<<"S">> \o s, s \o <<"S">>, s \o <<"W">>, s \o <<"B">>, <<"S">> \o s \o <<"S">>, <<"B">> \o s} : San(r) = San(s)
\* the dotted date of the Croatian rule, written with single blanks, then with every member of the family in their place:
\* what the sanitiser makes of it must not depend on the blanks (the rule runs before they are normalised)
CroatBases == { <<"D", "P", "S", "D", "P", "S", "D", "P">>, <<"D", "P", "D", "P", "D", "P", "S", "U", "S", "D", "C", "D">>,
                <<"D", "P", "S", "D", "P", "S", "D", "P", "S", "U", "S", "D">>, <<"D", "D", "P", "D", "P", "D", "D", "P", "S", "U">> }
CroatInvariant == s = <<>> => \A x \in CroatBases : \A r \in Rewrites(x) \cup Rewrites2(x) : San(r) = San(x)
\* the Russian year mark: a date with it sanitises to the date without it, under every rewriting
YearMarkInvariant == s = <<>> => \A x \in { <<"D", "S", "L", "S", "D">>, <<"D", "P", "D", "P", "D">>, <<"D", "S", "L", "S", "D", "C", "D">> } :
                       \A r \in Rewrites(x \o <<"S", "G", "P">>) \cup Rewrites2(x \o <<"S", "G", "P">>) \cup {x \o <<"G", "P">>, x \o <<"S", "G", "P">>} : San(r) = San(x)
DigitScriptInvariant == Num(San(s)) = San(Num(s))
=============================================================================
