------------------------------ MODULE T_Periods ------------------------------
\* Refinement-on-trace of get_intersecting_periods / date_range (Periods.tla): one record per real call; the model's
\* sequence is compared with the sequence the code produced, and the laws are evaluated on the code's own output.
EXTENDS Periods, Json, IOUtils, TLC

Tr == ndJsonDeserialize(IOEnv.TRACE_FILE)
VARIABLE l
Check(r) ==
  IF r.kind = "isect"
    THEN /\ (IF r.out = Intersecting(r.lo, r.hi, r.p) THEN TRUE ELSE PrintT(<<"REJECT", r.tid, "abs", "intersecting-periods", Intersecting(r.lo, r.hi, r.p)>>))
         /\ (IF Tiles(r.lo, r.hi, r.p, r.out) THEN TRUE ELSE PrintT(<<"REJECT", r.tid, "law", "periods-do-not-tile", <<>>>>))
    ELSE /\ (IF r.out = DateRange(r.lo, r.hi, r.kw) THEN TRUE ELSE PrintT(<<"REJECT", r.tid, "abs", "date-range", DateRange(r.lo, r.hi, r.kw)>>))
         /\ (IF RangeOK(r.lo, r.hi, r.kw, r.out) THEN TRUE ELSE PrintT(<<"REJECT", r.tid, "law", "range-law", <<>>>>))
TInit == l = 0
TNext == l < Len(Tr) /\ l' = l + 1 /\ Check(Tr[l + 1])
TSpec == TInit /\ [][TNext]_l
Consumed == PrintT(<<"CONSUMED", TLCGet("stats").diameter - 1, Len(Tr)>>)
=============================================================================
