------------------------------- MODULE T_C08 -------------------------------
(* Trace validation for C08 (property-on-trace: kind "c08"; refinement-on-trace: kind "abs").      *)
EXTENDS O_C08, AbsTrace, Json, IOUtils

Tr == ndJsonDeserialize(IOEnv.TRACE_FILE)
VARIABLE l

PropExpected(r) == Complete(r.parts, r.y, r.m, r.d, r.tm, r.pdom, r.pmoy, r.ref)
PropVerdict(r) ==
  IF ~InDomain(r.parts, r.y, r.m, r.d, r.pdom, r.pmoy) THEN "skip"
  ELSE IF r.exc # "" THEN "exception"
  ELSE IF r.out # PropExpected(r) THEN "wrong-date"
  ELSE IF r.period # PeriodOf(r.parts, r.hasTime, r.rtap) THEN "wrong-period"
  ELSE "ok"

Check(r) ==
  IF r.kind = "abs"
    THEN LET v == AbsVerdict(r) IN
         IF v = "drift" THEN PrintT(<<"REJECT", r.tid, "abs", v, AbsModel(r)>>)
         ELSE IF v = "skip" THEN PrintT(<<"SKIP", r.tid, "abs">>) ELSE TRUE
    ELSE LET v == PropVerdict(r) IN
         IF v = "skip" THEN PrintT(<<"SKIP", r.tid, "prop">>)
         ELSE IF v # "ok" THEN PrintT(<<"REJECT", r.tid, "prop", v,
                                       <<PropExpected(r), PeriodOf(r.parts, r.hasTime, r.rtap)>>>>)
         ELSE TRUE

TInit == l = 0
TNext == l < Len(Tr) /\ l' = l + 1 /\ Check(Tr[l + 1])
TSpec == TInit /\ [][TNext]_l
Consumed == PrintT(<<"CONSUMED", TLCGet("stats").diameter - 1, Len(Tr)>>)
=============================================================================
