------------------------------ MODULE Translate ------------------------------
(* `Locale.translate` after tokenization (languages/locale.py:112-152, 487-507): every token is replaced  *)
(* by its English canon, the tokens are joined again.  Strings are sequences of code points.              *)
(* A token comes with what the vocabulary says about its lower-cased form:                                *)
(*   hasrel / rel   it matches one of the locale's counted relative patterns; rel is the rewritten text    *)
(*   indict / val   it is a dictionary entry; val is its canon (empty for skip words)                      *)
(*   alpha          str.isalpha() of the lower-cased token                                                 *)
EXTENDS Naturals, Sequences

InWord == <<105, 110>>
FreshWords == { <<100, 97, 121>>, <<119, 101, 101, 107>>, <<109, 111, 110, 116, 104>>, <<121, 101, 97, 114>>,
                <<104, 111, 117, 114>>, <<109, 105, 110, 117, 116, 101>>, <<115, 101, 99, 111, 110, 100>> }
KeepChars == {43, 58, 46, 32, 45, 47}                       \* + : . space - /
IsKeepTok(t) == Len(t) = 1 /\ t[1] \in KeepChars

\* one token: relative pattern first, then the dictionary; an unknown token stays as written
Step(t, keep) ==
  IF t.hasrel THEN t.rel
  ELSE IF t.indict THEN (IF t.val # <<>> THEN t.val ELSE IF keep /\ ~t.alpha THEN t.low ELSE <<>>)
  ELSE t.orig

\* _clear_future_words: a lone "in" (no unit word in the sentence) is dropped -- the first one only
RECURSIVE DropFirst(_, _)
DropFirst(s, x) == IF s = <<>> THEN <<>> ELSE IF Head(s) = x THEN Tail(s) ELSE <<Head(s)>> \o DropFirst(Tail(s), x)
ClearFuture(s) ==
  IF (\E i \in 1..Len(s) : s[i] = InWord) /\ ~(\E i \in 1..Len(s) : s[i] \in FreshWords) THEN DropFirst(s, InWord) ELSE s

\* _join: no separator next to an always-kept token
RECURSIVE JoinFrom(_, _, _)
JoinFrom(s, i, sep) ==
  IF i > Len(s) THEN <<>>
  ELSE (IF ~IsKeepTok(s[i - 1]) /\ ~IsKeepTok(s[i]) THEN sep ELSE <<>>) \o s[i] \o JoinFrom(s, i + 1, sep)
Join(s, sep) == IF s = <<>> THEN <<>> ELSE s[1] \o JoinFrom(s, 2, sep)

TranslateTokens(toks, keep) ==
  LET stepped == [i \in 1..Len(toks) |-> Step(toks[i], keep)]
      cleared == ClearFuture(stepped)
      kept == SelectSeq(cleared, LAMBDA t : t # <<>>)
  IN Join(kept, IF keep THEN <<>> ELSE <<32>>)
=============================================================================
