------------------------------ MODULE CharTokens ------------------------------
\* `tokenizer` of dateparser/parser.py (the character scanner in front of BOTH the absolute parser `_parser.parse` and the
\* no-spaces parser `_no_spaces_parser.parse`) and the first lines of `_parser.__init__` that turn its output into the token
\* lists everything else works on (AbsParser.tla starts from those lists; until this module existed the scanner was part of
\* the abstraction function, i.e. trusted).
\*
\* Written the way the code is: one step per character read; a pending token is emitted when `_switch(last, next)` says
\* so, and once more when the input ends.  `Tokens(s)` is the same thing as a function (cut positions), and P_CharTokens
\* has TLC show that the machine ends in exactly `Tokens(inp)` and that the laws below hold for every string of the domain.
\* A string is a sequence of code points (naturals), so that non-ASCII text can be written in a module at all.
EXTENDS Naturals, Sequences, FiniteSets, SequencesExt

\* ---------------------------------------------------------------- character classes (parser.py: tokenizer.digits / .letters)
IsDigitCh(c)  == (c >= 48 /\ c <= 57) \/ c = 58                       \* "0123456789:" - the colon belongs to the numbers
IsLetterCh(c) == (c >= 65 /\ c <= 90) \/ (c >= 97 /\ c <= 122)        \* ASCII letters only: what arrives is translated to English
TypeOf(c) == IF IsDigitCh(c) THEN 0 ELSE IF IsLetterCh(c) THEN 1 ELSE 2
\* _switch(a, b)[1]: does b end the run that a belongs to?  (for the third class: only a digit or a letter ends it)
Switch(a, b) == IF IsDigitCh(a) THEN ~IsDigitCh(b)
                ELSE IF IsLetterCh(a) THEN ~IsLetterCh(b)
                ELSE IsDigitCh(b) \/ IsLetterCh(b)
\* str.strip() without arguments: the characters Python calls whitespace
IsSpaceCh(c) == (c >= 9 /\ c <= 13) \/ (c >= 28 /\ c <= 32) \/ c = 133 \/ c = 160 \/ c = 5760 \/ (c >= 8192 /\ c <= 8202)
                \/ c = 8232 \/ c = 8233 \/ c = 8239 \/ c = 8287 \/ c = 12288

\* ---------------------------------------------------------------- the scanner as a function
Cuts(s) == {i \in 2..Len(s) : Switch(s[i - 1], s[i])}
Starts(s) == IF Len(s) = 0 THEN {} ELSE {1} \cup Cuts(s)
StartSeq(s) == SetToSortSeq(Starts(s), <)
\* the k-th token: from its start to the character before the next start; its type is read off its LAST character (as the code does)
TokenAt(s, st, k) == LET e == IF k < Len(st) THEN st[k + 1] - 1 ELSE Len(s)
                         t == SubSeq(s, st[k], e)
                     IN <<t, TypeOf(Last(t))>>
Tokens(s) == LET st == StartSeq(s) IN [k \in 1..Len(st) |-> TokenAt(s, st, k)]
\* the empty input: `token[-1]` of an empty pending token - IndexError (both callers guard: an empty string never gets here
\* through the public API, see P_CharTokens.EmptyFails)
Fails(s) == Len(s) = 0

\* ---------------------------------------------------------------- `_parser.__init__`: stripped tokens, filtered tokens
RECURSIVE LStrip(_)
LStrip(t) == IF Len(t) > 0 /\ IsSpaceCh(t[1]) THEN LStrip(Tail(t)) ELSE t
RECURSIVE RStrip(_)
RStrip(t) == IF Len(t) > 0 /\ IsSpaceCh(t[Len(t)]) THEN RStrip(SubSeq(t, 1, Len(t) - 1)) ELSE t
Strip(t) == RStrip(LStrip(t))
Stripped(s) == LET tk == Tokens(s) IN [k \in 1..Len(tk) |-> <<Strip(tk[k][1]), tk[k][2]>>]
\* filtered_tokens: numbers and words with their (0-based) position in the full list; everything else is only looked at as a neighbour
Filtered(s) == LET st == Stripped(s)
                   idx == SelectSeq([k \in 1..Len(st) |-> k], LAMBDA k : st[k][2] <= 1)
               IN [j \in 1..Len(idx) |-> <<st[idx[j]][1], st[idx[j]][2], idx[j] - 1>>]
\* what the no-spaces parser offers to its formats: the colons are deleted first, then every token in turn
NoColon(s) == SelectSeq(s, LAMBDA c : c # 58)

\* ---------------------------------------------------------------- laws (about Tokens; P_CharTokens checks them on the machine's result too)
Flatten(tk) == FoldLeft(LAMBDA acc, t : acc \o t[1], <<>>, tk)
NothingLost(s, tk) == Flatten(tk) = s
Homogeneous(tk) == \A k \in 1..Len(tk) : Len(tk[k][1]) > 0 /\ \A i \in 1..Len(tk[k][1]) : TypeOf(tk[k][1][i]) = tk[k][2]
Maximal(tk) == \A k \in 1..(Len(tk) - 1) : tk[k][2] # tk[k + 1][2]
\* a number or a word is never touched by the stripping, and a separator token that is all spaces becomes the empty token
StripLaw(s) == LET tk == Tokens(s)  st == Stripped(s) IN
  \A k \in 1..Len(tk) : /\ (tk[k][2] <= 1 => st[k][1] = tk[k][1])
                        /\ ((\A i \in 1..Len(tk[k][1]) : IsSpaceCh(tk[k][1][i])) => st[k][1] = <<>>)
FilteredLaw(s) == LET st == Stripped(s)  f == Filtered(s) IN
  /\ \A j \in 1..Len(f) : f[j][2] <= 1 /\ st[f[j][3] + 1][1] = f[j][1]
  /\ \A j \in 1..(Len(f) - 1) : f[j][3] < f[j + 1][3]
  /\ Len(f) = Cardinality({k \in 1..Len(st) : st[k][2] <= 1})
=============================================================================
