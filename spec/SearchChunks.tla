---------------------------- MODULE SearchChunks ----------------------------
\* `Locale.translate_search` (languages/locale.py:187-266), the loop that decides which runs of tokens of a sentence are
\* candidate date expressions.  A sentence is its sequence of aligned tokens; per token the vocabulary of the locale
\* says (flags computed by the projection with the locale's own dictionary):
\*   blank      the simplified token is "" or " "                       dash     it is one of - —— — ～
\*   joint      token + next token, joined, is a dictionary entry       known    it is a dictionary entry
\*   stripped   it is one after stripping brackets / quotes / commas / periods
\*   digits     it contains a number (for languages without word spacing: digits or . : - /)
\*   tz         the ORIGINAL token is a timezone word (case sensitive)
\* jointOK: the language allows two-token entries (not zh, ja).
\* A chunk is a maximal run of accepted tokens; a token that is none of the above ends the current chunk.
\* Result: the chunks as <<first token, last token>> ranges.
EXTENDS Naturals, Sequences

\* what the loop does with token i, given whether a chunk is open: "take" | "take2" (joint entry: this and the next token)
\* | "break"
Action(t, i, n, jointOK, open) ==
  IF t[i].blank THEN "take"
  ELSE IF i < n /\ t[i].joint /\ ~t[i].dash /\ jointOK THEN "take2"
  ELSE IF t[i].known /\ ~t[i].dash THEN "take"
  ELSE IF t[i].stripped /\ ~t[i].dash THEN "take"
  ELSE IF t[i].digits THEN "take"
  ELSE IF open /\ t[i].tz THEN "take"
  ELSE "break"

\* walk: i = next token, start = first token of the open chunk (0: none), acc = closed chunks
RECURSIVE Walk(_, _, _, _, _)
Walk(t, i, start, jointOK, acc) ==
  LET n == Len(t) IN
  IF i > n THEN (IF start # 0 THEN Append(acc, <<start, n>>) ELSE acc)
  ELSE LET a == Action(t, i, n, jointOK, start # 0) IN
       IF a = "take" THEN Walk(t, i + 1, IF start = 0 THEN i ELSE start, jointOK, acc)
       ELSE IF a = "take2" THEN Walk(t, i + 2, IF start = 0 THEN i ELSE start, jointOK, acc)
       ELSE Walk(t, i + 1, 0, jointOK, IF start # 0 THEN Append(acc, <<start, i - 1>>) ELSE acc)
Chunks(t, jointOK) == Walk(t, 1, 0, jointOK, <<>>)
=============================================================================
