------------------------------ MODULE TzCache ------------------------------
(* The on-disk timezone cache and its loader `_load_offsets` (timezone_parser.py:98-124).           *)
(* One action per implementation step that reads or writes the file:                                *)
(*   OpenRead, LoadOk, LoadRaise(cls), Rebuild, OpenTruncate, WriteChunk, Close, Crash.              *)
(* The file is a sequence of `Chunks` write units, each absent/zero or written by a given process  *)
(* (two rebuilds do NOT produce the same bytes: compiled patterns pickle differently per process,     *)
(* measured), plus a length; in-place writing by two overlapping importers is therefore representable.  `CatchSet` is the   *)
(* set of exception classes the loader survives -- measured on the real code by the harness and      *)
(* passed in, so that TLC decides the property for the loader AS IT BEHAVES.                         *)
(* Phase 1: processes in `Crashers` may run and crash at any step (this produces every damaged file   *)
(* state a crash, a full disk or an interrupted first import can leave).  Phase 2: the importers in   *)
(* `Importers` run, interleaved in every possible way, without crashing.                            *)
EXTENDS Naturals, Sequences, FiniteSets, TLC

CONSTANTS Crashers, Importers, Late, Chunks,   \* Late \subseteq Importers: start only after all others finished, one at a time
          CatchSet,          \* exception classes the loader catches and answers by rebuilding
          GarbageRaises,     \* classes pickle.load may raise on unreadable content
          InitFiles          \* initial file classes to start from: subset of {"missing","empty","trunc","complete","garbage"}

Procs == Crashers \cup Importers

Shipped == "shipped"
VARIABLES file,      \* [exists, len : 0..Chunks, by : [1..Chunks -> writer | "-"], garbage]
          pc,        \* per process
          table,     \* per process: "none" | "good"
          wr,        \* per process: chunks written so far through its own descriptor
          exc        \* per process: class that escaped ("" if none)
vars == <<file, pc, table, wr, exc>>

FileOf(cls) ==
  CASE cls = "missing"  -> [exists |-> FALSE, len |-> 0, by |-> [k \in 1..Chunks |-> "-"], garbage |-> FALSE]
    [] cls = "empty"    -> [exists |-> TRUE, len |-> 0, by |-> [k \in 1..Chunks |-> "-"], garbage |-> FALSE]
    [] cls = "trunc"    -> [exists |-> TRUE, len |-> 1, by |-> [k \in 1..Chunks |-> IF k = 1 THEN Shipped ELSE "-"], garbage |-> FALSE]
    [] cls = "complete" -> [exists |-> TRUE, len |-> Chunks, by |-> [k \in 1..Chunks |-> Shipped], garbage |-> FALSE]
    [] cls = "garbage"  -> [exists |-> TRUE, len |-> Chunks, by |-> [k \in 1..Chunks |-> "-"], garbage |-> TRUE]

\* complete: every chunk present and all from ONE writer
Complete(f) == /\ f.exists /\ ~f.garbage /\ f.len = Chunks
               /\ \E w \in {Shipped} \cup {ToString(p) : p \in Crashers \cup Importers} : \A k \in 1..Chunks : f.by[k] = w
CleanPrefix(f) == \E w \in {Shipped} \cup {ToString(p) : p \in Crashers \cup Importers} :
                    /\ \A k \in 1..f.len : f.by[k] = w
\* what pickle.load does with the content
LoadOutcomes(f) ==
  IF Complete(f) THEN {"ok"}
  ELSE IF f.len = 0 THEN {"EOFError"}
  ELSE IF f.garbage \/ ~CleanPrefix(f) THEN GarbageRaises            \* holes or bytes of two different rebuilds
  ELSE {"UnpicklingError", "EOFError"}                               \* a clean prefix: "pickle data was truncated" / "Ran out of input"

Init == /\ \E c \in InitFiles : file = FileOf(c)
        /\ pc = [p \in Procs |-> "idle"]
        /\ table = [p \in Procs |-> "none"]
        /\ wr = [p \in Procs |-> 0]
        /\ exc = [p \in Procs |-> ""]

Phase2 == \A p \in Crashers : pc[p] \in {"idle", "crashed", "done", "failed"}
MayStep(p) == IF p \in Crashers THEN \A q \in Importers : pc[q] = "idle"
              ELSE IF p \in Late THEN /\ Phase2 /\ \A q \in Importers \ Late : pc[q] \in {"done", "failed"}
                                      /\ \A q \in Late \ {p} : pc[q] \in {"idle", "done", "failed"}
              ELSE Phase2

OpenRead(p) ==
  /\ pc[p] = "idle" /\ MayStep(p)
  /\ IF file.exists THEN pc' = [pc EXCEPT ![p] = "loading"] /\ exc' = exc
     ELSE IF "FileNotFoundError" \in CatchSet THEN pc' = [pc EXCEPT ![p] = "rebuild"] /\ exc' = exc
     ELSE pc' = [pc EXCEPT ![p] = "failed"] /\ exc' = [exc EXCEPT ![p] = "FileNotFoundError"]
  /\ UNCHANGED <<file, table, wr>>

Load(p) ==
  /\ pc[p] = "loading" /\ MayStep(p)
  /\ \E o \in LoadOutcomes(file) :
       IF o = "ok" THEN /\ table' = [table EXCEPT ![p] = "good"]       \* current_hash is None: return
                        /\ pc' = [pc EXCEPT ![p] = "done"] /\ exc' = exc
       ELSE IF o \in CatchSet THEN /\ pc' = [pc EXCEPT ![p] = "rebuild"] /\ UNCHANGED <<table, exc>>
       ELSE /\ pc' = [pc EXCEPT ![p] = "failed"] /\ exc' = [exc EXCEPT ![p] = o] /\ UNCHANGED table
  /\ UNCHANGED <<file, wr>>

Rebuild(p) ==
  /\ pc[p] = "rebuild" /\ MayStep(p)
  /\ table' = [table EXCEPT ![p] = "good"]
  /\ pc' = [pc EXCEPT ![p] = "openw"]
  /\ UNCHANGED <<file, wr, exc>>

OpenTruncate(p) ==                     \* open(path, "wb"): create or truncate in place
  /\ pc[p] = "openw" /\ MayStep(p)
  /\ file' = [exists |-> TRUE, len |-> 0, by |-> [k \in 1..Chunks |-> "-"], garbage |-> FALSE]
  /\ wr' = [wr EXCEPT ![p] = 0]
  /\ pc' = [pc EXCEPT ![p] = "writing"]
  /\ UNCHANGED <<table, exc>>

WriteChunk(p) ==                       \* the descriptor's own offset: chunk wr[p]+1 of the (identical) content
  /\ pc[p] = "writing" /\ MayStep(p) /\ wr[p] < Chunks
  /\ LET k == wr[p] + 1 IN
     file' = [file EXCEPT !.len = IF k > @ THEN k ELSE @, !.by[k] = ToString(p)]
  /\ wr' = [wr EXCEPT ![p] = @ + 1]
  /\ UNCHANGED <<pc, table, exc>>

Close(p) ==
  /\ pc[p] = "writing" /\ MayStep(p) /\ wr[p] = Chunks
  /\ pc' = [pc EXCEPT ![p] = "done"]
  /\ UNCHANGED <<file, table, wr, exc>>

Crash(p) ==
  /\ p \in Crashers /\ pc[p] \in {"loading", "rebuild", "openw", "writing"} /\ MayStep(p)
  /\ pc' = [pc EXCEPT ![p] = "crashed"]
  /\ UNCHANGED <<file, table, wr, exc>>

Next == \E p \in Procs : OpenRead(p) \/ Load(p) \/ Rebuild(p) \/ OpenTruncate(p) \/ WriteChunk(p) \/ Close(p) \/ Crash(p)
Step(p) == OpenRead(p) \/ Load(p) \/ Rebuild(p) \/ OpenTruncate(p) \/ WriteChunk(p) \/ Close(p)
Spec == /\ Init /\ [][Next]_vars
        /\ \A p \in Importers : WF_vars(Step(p))
        /\ \A p \in Crashers : WF_vars((pc[p] # "idle" /\ Step(p)) \/ Crash(p))

\* ------------------------------------------------------------------ the property
ImportSucceeds == \A p \in Importers : pc[p] # "failed"
SameTable == \A p \in Importers : pc[p] = "done" => table[p] = "good"
\* an import that did not overlap with another writer leaves a complete cache: stated for the late
\* importers (overlapping in-place writers may leave a mixed file -- which the next import repairs)
RepairedAfterImport == \A p \in Late : pc[p] = "done" => Complete(file)
\* informational (NOT part of the property): holds only for an atomic writer
RepairedAfterOverlap == (\A p \in Importers : pc[p] = "done") => Complete(file)
EventuallyComplete == <>(\A p \in Importers : pc[p] \in {"done", "failed"})
=============================================================================
