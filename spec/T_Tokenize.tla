----------------------------- MODULE T_Tokenize -----------------------------
(* Refinement-on-trace of tokenization, applicability and translation: every recorded `Dictionary.split`,  *)
(* `Locale.is_applicable` and `Locale.translate` of a public-API call is recomputed by Tokenize.tla /       *)
(* Translate.tla from the projected inputs and compared with what the code returned.                        *)
EXTENDS Tokenize, Translate, Json, IOUtils, TLC

Tr == ndJsonDeserialize(IOEnv.TRACE_FILE)
VARIABLE l

Range(f) == {f[k] : k \in DOMAIN f}
Occ(p) == [w \in 1..Len(p.occ) |-> [len |-> p.occ[w].len, at |-> Range(p.occ[w].at)]]
Spans(p, nospace, keep) == ByKnownWords(p.cls, p.kt, Occ(p), nospace, keep, 1)
PieceTokens(p, nospace, keep) ==
  IF p.isrel THEN (IF p.cp = <<>> THEN <<>> ELSE <<p.cp>>)
  ELSE LET sp == Spans(p, nospace, keep) IN [k \in 1..Len(sp) |-> SubSeq(p.cp, sp[k][1], sp[k][2])]
RECURSIVE Flat(_, _, _, _)
Flat(ps, i, nospace, keep) == IF i > Len(ps) THEN <<>> ELSE PieceTokens(ps[i], nospace, keep) \o Flat(ps, i + 1, nospace, keep)
SplitModel(r) == SelectSeq(Flat(r.pieces, 1, r.nospace, r.keep), LAMBDA t : t # <<>>)

Check(r) ==
  CASE r.kind = "split" ->
         LET m == SplitModel(r) IN IF m = r.out THEN TRUE ELSE PrintT(<<"REJECT", r.tid, "abs", "split", m>>)
    [] r.kind = "applicable" ->
         LET m == TokensValid(r.tok) IN IF m = r.out THEN TRUE ELSE PrintT(<<"REJECT", r.tid, "abs", "applicable", m>>)
    [] r.kind = "translate" ->
         LET m == TranslateTokens(r.toks, r.keep) IN IF m = r.out THEN TRUE ELSE PrintT(<<"REJECT", r.tid, "abs", "translate", m>>)
    [] OTHER -> PrintT(<<"REJECT", r.tid, "abs", "unknown-kind", r.kind>>)

TInit == l = 0
TNext == l < Len(Tr) /\ l' = l + 1 /\ Check(Tr[l + 1])
TSpec == TInit /\ [][TNext]_l
Consumed == PrintT(<<"CONSUMED", TLCGet("stats").diameter - 1, Len(Tr)>>)
=============================================================================
