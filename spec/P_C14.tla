------------------------------- MODULE P_C14 -------------------------------
(* E1 for C14: every subset of stated parts x datetimes x preferences x clock dates: the machine of  *)
(* parse_with_formats (Formats.tla) = oracle, inside the domain.                                     *)
EXTENDS O_C14, Formats

CONSTANTS Years, Todays      \* Todays: month*100+day of the clock date (year 2026 / 2028)
Prefs == {"first", "last", "current"}
VARIABLE c
Init == c = [stage |-> 0]
Pick1 == c.stage = 0 /\ \E y \in Years, m \in 1..12 : c' = [stage |-> 1, y |-> y, m |-> m]
Pick2 == /\ c.stage = 1
         /\ \E d \in {1, 15, 28, 29, 30, 31}, fy \in BOOLEAN, fm \in BOOLEAN, fd \in BOOLEAN, ft \in BOOLEAN,
               pd \in Prefs, pm \in Prefs, td \in Todays, ty \in {2026, 2028} :
              /\ d <= DIM(c.y, c.m) /\ ValidDate(ty, td \div 100, td % 100)
              /\ c' = [stage |-> 2, dt |-> <<c.y, c.m, d, 13, 5, 7, 123456>>,
                       fl |-> [year |-> fy, month |-> fm, day |-> fd, time |-> ft, min |-> ft, sec |-> ft, us |-> ft],
                       pdom |-> pd, pmoy |-> pm, today |-> <<ty, td \div 100, td % 100, 9, 0, 0, 0>>]
Next == Pick1 \/ Pick2
Spec == Init /\ [][Next]_c

Raw(cc) == <<IF cc.fl.year THEN cc.dt[1] ELSE 1900, IF cc.fl.month THEN cc.dt[2] ELSE 1, IF cc.fl.day THEN cc.dt[3] ELSE 1,
             IF cc.fl.time THEN cc.dt[4] ELSE 0, IF cc.fl.min THEN cc.dt[5] ELSE 0, IF cc.fl.sec THEN cc.dt[6] ELSE 0,
             IF cc.fl.us THEN cc.dt[7] ELSE 0>>
RoundTrip ==
  c.stage = 2 /\ InDomain(c.fl, c.dt, c.pdom, c.pmoy, c.today) =>
    LET m == FmtComplete([day |-> c.fl.day, month |-> c.fl.month, year |-> c.fl.year], Raw(c),
                         [pdom |-> c.pdom, pmoy |-> c.pmoy], c.today)
    IN m.out = Expected(c.fl, c.dt, c.pdom, c.pmoy, c.today) /\ m.period = ExpectedPeriod(c.fl)
=============================================================================
