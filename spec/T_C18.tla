------------------------------- MODULE T_C18 -------------------------------
(* Trace validation for C18: one record per (string, rewriting): the outcomes of the original and of   *)
(* the rewritten string (property-on-trace: they are equal), and the class strings of the input and of   *)
(* the real sanitiser's output (refinement-on-trace: the sanitiser of Sanitize.tla commutes with the     *)
(* character-class abstraction).                                                                      *)
EXTENDS Sanitize, Json, IOUtils, TLC

Tr == ndJsonDeserialize(IOEnv.TRACE_FILE)
VARIABLE l

Check(r) ==
  /\ (IF r.exc # "" THEN PrintT(<<"REJECT", r.tid, "prop", "exception", r.exc>>)
      ELSE IF r.base # r.rew THEN PrintT(<<"REJECT", r.tid, "prop", "result-changed", r.kind>>) ELSE TRUE)
  /\ (IF r.plain /\ San(r.cls) # r.sancls THEN PrintT(<<"REJECT", r.tid, "abs", "sanitiser", San(r.cls)>>) ELSE TRUE)

TInit == l = 0
TNext == l < Len(Tr) /\ l' = l + 1 /\ Check(Tr[l + 1])
TSpec == TInit /\ [][TNext]_l
Consumed == PrintT(<<"CONSUMED", TLCGet("stats").diameter - 1, Len(Tr)>>)
=============================================================================
