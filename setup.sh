#!/bin/sh
# Offline setup: nothing is fetched or built ahead of time; every check rebuilds what it needs from
# /repo's working tree per run.  This only verifies that the tools are present and the specs parse.
set -e
cd "$(dirname "$0")"
mkdir -p evidence replays
command -v java >/dev/null
test -f /opt/veriftools/tla/tla2tools.jar
/venv/bin/python -c "import regex, pytz, dateutil, tzlocal"
/venv/bin/python -m compileall -q harness >/dev/null 2>&1 || true
find harness -name __pycache__ -type d -exec rm -rf {} + 2>/dev/null || true
echo setup ok
