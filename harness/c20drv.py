"""Systematic single-preemption schedule exploration of the REAL code (C20), no source hooks.

Run in a fresh interpreter per ordered pair (A, B).  Call A runs in a thread under sys.settrace; at its
k-th executed library line it is suspended, B runs to completion in a second thread, then A resumes.
Results are compared with the sequential results.  A real lock may make B wait for A: if B has not
finished within a short timeout while A is suspended, the schedule is recorded as `blocked`, A is
resumed and B is joined afterwards (its result must still be the sequential one)."""

import json
import os
import sys
import threading
import time


def build_call(spec):
    """spec: {api, args...} -> zero-argument callable returning a JSON-able outcome"""
    import datetime

    def norm(d):
        if d is None:
            return "None"
        if isinstance(d, datetime.datetime):
            now = datetime.datetime.now()
            dd = d.replace(tzinfo=None)
            if abs((now - datetime.timedelta(days=1)) - dd) < datetime.timedelta(hours=30):
                return "rel-now"
            return d.isoformat()
        return repr(d)

    api = spec["api"]
    if api == "parse":
        import dateparser

        def f():
            st = dict(spec["settings"]) if spec.get("settings") is not None else None
            return norm(dateparser.parse(spec["s"], languages=spec.get("languages"), settings=st))
        return f
    if api == "search":
        from dateparser.search import search_dates

        def f():
            st = dict(spec["settings"]) if spec.get("settings") is not None else None
            if spec.get("adl"):       # with the detected language reported next to every hit
                r = search_dates(spec["s"], languages=spec.get("languages"), settings=st, add_detected_language=True)
                return "None" if r is None else repr([(a, norm(b), lang) for a, b, lang in r])
            r = search_dates(spec["s"], languages=spec.get("languages"), settings=st)
            return "None" if r is None else repr([(a, norm(b)) for a, b in r])
        return f
    if api == "ddp":
        from dateparser.date import DateDataParser
        st = dict(spec["settings"]) if spec.get("settings") is not None else None
        p = DateDataParser(languages=spec.get("languages"), settings=st)       # a live instance, created beforehand

        def f():
            return norm(p.get_date_data(spec["s"])["date_obj"])
        return f
    if api == "tuple":
        from dateparser.date import DateDataParser
        st = dict(spec["settings"]) if spec.get("settings") is not None else None
        p = DateDataParser(languages=spec.get("languages"), settings=st)

        def f():
            return norm(p.get_date_tuple(spec["s"]).date_obj)
        return f
    if api == "jalali":
        from dateparser.calendars.jalali import JalaliCalendar

        def f():
            r = JalaliCalendar(spec["s"]).get_date()
            return norm(r["date_obj"]) if r else "None"
        return f
    if api == "hijri":
        from dateparser.calendars.hijri import HijriCalendar

        def f():
            r = HijriCalendar(spec["s"]).get_date()
            return norm(r["date_obj"]) if r else "None"
        return f
    raise ValueError(api)


def outcome(fn):
    try:
        return fn()
    except BaseException as e:  # noqa
        return "exc:" + type(e).__name__


def clear_caches():
    try:
        from dateparser.languages.dictionary import Dictionary
        for n in ("_split_regex_cache", "_sorted_words_cache", "_split_relative_regex_cache",
                  "_sorted_relative_strings_cache", "_match_relative_regex_cache"):
            c = getattr(Dictionary, n, None)
            if isinstance(c, dict):
                c.clear()
    except Exception:
        pass


def main():
    req = json.load(sys.stdin)
    if req.get("fork"):
        # the same exploration inside a FORKED child of a process that has already imported and used the library
        # (pre-forking servers, multiprocessing with the fork start method): locks and caches are inherited
        import dateparser
        dateparser.parse("1 January 2020", languages=["en"])
        sys.stdout.flush()
        pid = os.fork()
        if pid != 0:
            _, status = os.waitpid(pid, 0)
            os._exit(0 if status == 0 else 3)
    libroot = os.path.join(sys.path[0] if os.path.isdir(os.path.join(sys.path[0], "dateparser")) else
                           [p for p in sys.path if os.path.isdir(os.path.join(p, "dateparser"))][0], "dateparser")
    fa, fb = build_call(req["A"]), build_call(req["B"])
    cold = req.get("cold", False)
    # sequential results, both orders (C03 makes them order independent; checked here again)
    if cold:
        clear_caches()
    seqA, seqB = outcome(fa), outcome(fb)
    t0 = time.time()
    seqB2 = outcome(fb)
    durB = time.time() - t0
    seqA2 = outcome(fa)
    res = {"seqA": seqA, "seqB": seqB, "seq_order_dependent": (seqA, seqB) != (seqA2, seqB2)}

    # count A's library line events
    def count_run():
        n = [0]
        lines = []
        try:
            from dateparser.conf import _lock as liblock       # the library's own serialisation, where the tree has one
            owned = liblock._is_owned
        except Exception:  # noqa
            owned = None

        def tracer(frame, event, arg):
            if event == "call":
                return tracer if frame.f_code.co_filename.startswith(libroot) else None
            if event == "line":
                n[0] += 1
                lines.append((os.path.relpath(frame.f_code.co_filename, libroot), frame.f_lineno, frame.f_code.co_name))
                if owned is not None and not owned():
                    free.add(n[0])
            return tracer

        def body():
            sys.settrace(tracer)
            try:
                outcome(fa)
            finally:
                sys.settrace(None)
        if cold:
            clear_caches()
        t = threading.Thread(target=body)
        t.start()
        t.join()
        return n[0], lines

    free = set()         # A's line events executed while A does not hold the library's lock: B can run there in full
    K, lines = count_run()
    res["K"] = K
    res["unlocked_points"] = len(free)
    # choose preemption points
    mode = req.get("points", "all")
    if mode == "all":
        points = list(range(1, K + 1))
    else:
        import random
        rng = random.Random(req.get("seed", 0))
        hot = ("date.py", "conf.py", "languages/dictionary.py", "languages/locale.py", "search/search.py", "utils/__init__.py",
               "calendars/__init__.py")
        hotfun = ("_try_parser", "wrapper", "replace", "__init__", "_updateall", "_get_dictionary", "_add_to_cache", "parse_item",
                  "search_parse", "_get_split_dictionary", "get_date", "_get_sorted_words_from_cache", "_get_split_regex_cache",
                  "_get_sorted_relative_strings_from_cache", "_get_split_relative_regex_cache", "_get_match_relative_regex_cache",
                  "constructor", "get_date_data", "_get_date_data", "parse", "_parse", "get_key")
        pts = {i + 1 for i, (f, ln, fn) in enumerate(lines) if f in hot and fn in hotfun}
        budget = int(req.get("budget", 300))
        if len(pts) > budget:
            pts = set(rng.sample(sorted(pts), budget))
        # every point outside the lock (entry and exit code of the public functions) - these are the points where the
        # other call really runs in between; capped like the others
        fr = sorted(free)
        pts |= set(fr if len(fr) <= budget else rng.sample(fr, budget))
        rest = [i for i in range(1, K + 1) if i not in pts]
        pts |= set(rng.sample(rest, min(len(rest), max(10, budget // 5))))
        pts |= {1, K}
        # the points outside the lock first (a time budget that runs out must not cut them off)
        points = sorted(pts & free) + sorted(pts - free)
    timeout = max(float(req.get("block_timeout", 0.03)), 4 * durB + 0.01)
    bad = []
    recs = []
    nblocked = 0
    t_end = time.time() + float(req.get("time_budget", 600))
    done = 0
    for k in points:
        if time.time() > t_end:
            break
        state = {"n": 0, "b": None, "rb": None, "blocked": False}

        def run_b():
            state["rb"] = outcome(fb)

        def tracer(frame, event, arg):
            if event == "call":
                return tracer if frame.f_code.co_filename.startswith(libroot) else None
            if event == "line":
                state["n"] += 1
                if state["n"] == k and state["b"] is None:
                    state["at"] = (os.path.relpath(frame.f_code.co_filename, libroot), frame.f_lineno, frame.f_code.co_name)
                    try:
                        import dateparser.conf as _c
                        state["holds"] = bool(_c._lock._is_owned())
                    except Exception:
                        state["holds"] = "unknown"
                    tb = threading.Thread(target=run_b)
                    state["b"] = tb
                    tb.start()
                    tb.join(timeout)
                    if tb.is_alive():
                        state["blocked"] = True
            return tracer

        ra = [None]

        def body():
            sys.settrace(tracer)
            try:
                ra[0] = outcome(fa)
            finally:
                sys.settrace(None)
        if cold:
            clear_caches()
        ta = threading.Thread(target=body)
        ta.start()
        ta.join(60)
        if ta.is_alive():
            bad.append({"k": k, "why": "A did not finish (deadlock?)", "at": state.get("at")})
            break
        if state["b"] is None:          # A's path was shorter this time: B never started
            continue
        state["b"].join(60)
        if state["b"].is_alive():
            bad.append({"k": k, "why": "B did not finish (deadlock?)", "at": state.get("at")})
            break
        done += 1
        nblocked += 1 if state["blocked"] else 0
        recs.append([k, state.get("holds", "unknown"), state["blocked"], ra[0] == seqA, state["rb"] == seqB])
        if ra[0] != seqA or state["rb"] != seqB:
            bad.append({"k": k, "at": state.get("at"), "A": ra[0], "B": state["rb"], "blocked": state["blocked"]})
    res.update({"schedules": done, "blocked": nblocked, "bad": bad[:50], "nbad": len(bad), "points": len(points), "recs": recs})
    json.dump(res, sys.stdout)


if __name__ == "__main__":
    main()
    sys.stdout.flush()
    os._exit(0)
