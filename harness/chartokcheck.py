"""Binding of spec/CharTokens.tla (the character scanner `tokenizer` of dateparser/parser.py and the token lists built by
the first lines of `_parser.__init__`) to the code.  Until this module the scanner was part of the abstraction function
of the AbsParser / NoSpaces refinements, i.e. trusted.  P_CharTokens: the loop as a state machine, its result equal to the
functional definition and the laws, for every string up to MaxLen of an eight-class alphabet.  T_CharTokens: every string
of a larger exhaustive domain, generated date-like strings and the strings that REALLY reach the scanner during parse calls
in many languages are put through the real scanner and the real constructor; TLC compares every list with the model's.
Mismatches are MODEL-DRIFT (no listed property speaks about the scanner alone)."""

import itertools

from . import core

CFG = ("SPECIFICATION Spec\nCONSTANTS\n  Alphabet = {49, 58, 97, 90, 32, 46, 233, 1635}\n  MaxLen = %d\nINVARIANT ScanInvariant\nINVARIANT MachineIsFunction\n"
       "INVARIANT EmptyFails\nINVARIANT Laws\nINVARIANT InitLaws\nINVARIANT NoColonLaw\nPROPERTY OutGrows\nCHECK_DEADLOCK FALSE\n")
# one member (or two) of every class the scanner and str.strip distinguish
ALPHABET = ["1", "0", ":", "a", "Z", " ", ".", "é", "٣", "\t", "-", " ", "/", "z", "9", "A", "@", "[", "`", "{", ";", "　", "ı", "１"]
FRAGMENTS = ["12", "2015", "03", ":", "13:45", "13.20", "10:00:05.123456", "pm", "a.m.", "march", "Tue", "t", "T", "z", "Z", "+05:30", "-0800", " ", "  ", "\t", " ", ".", ",", "/", "-",
             "–", "'", "é", "déc", "年", "٣٤", "１２", "1st", "of", "year", "hour", "|", "(", ")", "‏", "　", "\n", "UTC", "1e3", "0x1f", "ı", "ſ"]


def _cp(s):
    return [ord(c) for c in s]


def _scan(P, s):
    res = {"exc": "", "toks": [], "stripped": [], "filt": [], "nocolon": []}
    try:
        res["toks"] = [[_cp(t), ty] for t, ty in P.tokenizer(s).tokenize()]
    except Exception as e:  # noqa
        res["exc"] = type(e).__name__
        return res
    po = object.__new__(P._parser)
    try:
        P._parser.__init__(po, P.tokenizer(s).tokenize(), _scan.settings)
    except Exception:  # noqa  the constructor goes on to parse; the two lists are set before anything can fail
        pass
    try:
        res["stripped"] = [[_cp(t[0]), t[1]] for t in po.tokens]
        res["filt"] = [[_cp(t[0]), t[1], t[2]] for t in po.filtered_tokens]
    except Exception as e:  # noqa
        res["exc"] = "init:" + type(e).__name__
    nc = s.replace(":", "")
    if nc:
        try:
            res["nocolon"] = [[_cp(t), ty] for t, ty in P.tokenizer(nc).tokenize()]
        except Exception as e:  # noqa
            res["exc"] = "nocolon:" + type(e).__name__
    return res


def call(case):
    """direct: scan the given strings.  pipeline: run real parse calls and scan whatever reached the scanner during them."""
    import dateparser
    import dateparser.parser as P
    from dateparser.conf import settings
    _scan.settings = settings
    if case["kind"] == "direct":
        return {"strings": case["strings"], "scans": [_scan(P, s) for s in case["strings"]]}
    seen = []
    orig = P.tokenizer.__init__

    def init(self, ds):
        seen.append(ds)
        orig(self, ds)
    P.tokenizer.__init__ = init
    try:
        for s, lang in case["calls"]:
            todo = [s]
            if s == "@names":        # date strings written with this language's own listed names
                import importlib
                info = importlib.import_module("dateparser.data.date_translation_data." + lang).info
                mo = [w for k in ("march", "december") for w in info.get(k, [])[:2] if isinstance(w, str)]
                wd = [w for w in info.get("tuesday", [])[:1] if isinstance(w, str)]
                todo = ["12 %s 2015 10:30" % m for m in mo] + ["%s, 5. %s 14:05:09.25 +0530" % (w, m) for w in wd for m in mo[:1]]
            for t in todo:
                try:
                    dateparser.parse(t, languages=[lang] if lang else None)
                except Exception:  # noqa
                    pass
    finally:
        P.tokenizer.__init__ = orig
    seen = [s for s in dict.fromkeys(seen) if isinstance(s, str) and len(s) <= 120]
    return {"strings": seen, "scans": [_scan(P, s) for s in seen]}


def multilingual(langs):
    return [("@names", lang) for lang in sorted(langs)]


def run(ctx, calls=()):
    """calls: (string, language or None) pairs of the hosting check, executed for the strings that reach the scanner"""
    rng = ctx.rng
    mc = ctx.tlc("P_CharTokens", CFG % (4 if ctx.quick() else 6), timeout=1500, name="P_CharTokens")
    mc.require_clean()
    for inv in mc.invariant_violated + mc.property_violated:
        ctx.note_drift("CharTokens", {"law_refuted_by_TLC": inv, "counterexample": mc.counterexample()[-1:]})
    strings = [""]
    small = ALPHABET[:12]
    for n in range(1, 4 if ctx.quick() else 5):
        strings += ["".join(t) for t in itertools.product(small, repeat=n)]
    for a in ALPHABET:                        # every class next to every class, in the middle of a longer string
        for b in ALPHABET:
            strings += [a + b, "7" + a + b + "x", a + b + a]
    for _ in range(1500 if ctx.quick() else 40000):
        strings.append("".join(rng.choice(FRAGMENTS) for _ in range(rng.randint(1, 7))))
    strings = list(dict.fromkeys(strings))
    cases = [{"kind": "direct", "strings": strings[k:k + 400]} for k in range(0, len(strings), 400)]
    calls = list(calls)
    cases += [{"kind": "pipeline", "calls": calls[k:k + 60]} for k in range(0, len(calls), 60)]
    results = core.run_cases(ctx, "harness.chartokcheck", "call", cases, chunk=4)
    records, origin = [], []
    for c, r in zip(cases, results):
        for s, sc in zip(r["strings"], r["scans"]):
            records.append(dict(sc, tid=len(records), s=_cp(s)))
            origin.append((c["kind"], s))
    tuples, _ = core.validate_traces(ctx, "T_CharTokens", "SPECIFICATION TSpec\nPOSTCONDITION Consumed\nCHECK_DEADLOCK FALSE\n", records, shards=min(core.NCPU, 12))
    drift = 0
    for t in tuples["REJECT"]:
        drift += 1
        if drift <= 5:
            kind, s = origin[t[1]]
            ctx.note_drift("CharTokens", {"string": s, "reached_by": kind, "clause": t[3], "model": t[4], "observed": {k: records[t[1]][k] for k in ("exc", "toks", "stripped", "filt")}})
    return {"machine_states": mc.distinct, "strings_scanned": len(records), "from_real_parse_calls": sum(1 for k, _ in origin if k == "pipeline"),
            "tokens_compared": sum(len(r["toks"]) for r in records), "raised": sum(1 for r in records if r["exc"]), "mismatches": drift}
