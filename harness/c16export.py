"""Exporter for C16, run as a subprocess with PYTHONPATH = <stub dir with ruamel.yaml -> harness.miniyaml>,
<snapshot>, /verif.  Writes NDJSON records for TLC and a summary of the byte-level comparisons."""

import json
import os
import pickle
import sys
from collections import OrderedDict


def tag(v, relpath=False, split=True):
    if isinstance(v, bool):
        return {"t": "b", "v": v}
    if isinstance(v, int):
        return {"t": "i", "v": v}
    if v is None:
        return {"t": "n", "v": 0}
    if isinstance(v, str):
        if relpath and split:
            return {"t": "p", "v": v.split("{0}")}
        return {"t": "s", "v": v}
    if isinstance(v, (list, tuple)):
        return {"t": "l", "v": [tag(x, relpath, split) for x in v]}
    if isinstance(v, dict):
        out = []
        for k, x in v.items():
            out.append([str(k) if not isinstance(k, str) else k, tag(x, relpath or k == "relative-type-regex", split)])
        return {"t": "d", "v": out}
    raise TypeError(type(v))


def main():
    snap, outdir = sys.argv[1], sys.argv[2]
    summary = {"errors": []}
    # ---- (b) the shipped pickle, read BEFORE the package is imported
    pk = os.path.join(snap, "dateparser", "data", "dateparser_tz_cache.pkl")
    loaded = None
    try:
        with open(pk, "rb") as f:
            obj = pickle.load(f)
        h, rows, r1, r2 = obj
        loaded = {"rows": [[n, i["regex"].pattern, int(i["offset"].total_seconds())] for n, i in rows],
                  "flags": sorted({int(i["regex"].flags) for n, i in rows}), "search": r1.pattern, "search_ic": r2.pattern,
                  "search_flags": [int(r1.flags), int(r2.flags)], "hash": h}
    except Exception as e:
        summary["errors"].append("shipped timezone cache unreadable: %s" % type(e).__name__)
    import regex as re
    from dateparser.timezones import timezone_info_list
    src, pat, parts = [], [], []
    for g in timezone_info_list:
        reps = g.get("replace", [])
        src.append({"np": len(g["regex_patterns"]), "nr": len(reps), "tzs": [[t[0], t[1]] for t in g["timezones"]]})
        gp = []
        for rx in g["regex_patterns"]:
            pp = []
            for t in g["timezones"]:
                row = [re.compile(rx % t[0], re.IGNORECASE).pattern]
                parts.append(t[0])
                for a, b in reps:
                    row.append(re.compile(re.sub(a, b, rx % t[0]), re.IGNORECASE).pattern)
                    parts.append(re.sub(a, b, t[0]))
                pp.append(row)
            gp.append(pp)
        pat.append(gp)
    expected_flags = sorted({int(re.compile("x", re.IGNORECASE).flags)})
    expected_search = "|".join(parts)
    # ---- (a) language modules: sources, shipped struct, generator output
    from dateparser_scripts.write_complete_data import write_complete_data
    gen = write_complete_data(in_memory=True)
    gen = {os.path.basename(k)[:-3]: v for k, v in gen.items() if k.endswith(".py") and "date_translation_data" in k}
    from harness.miniyaml import RoundTripLoader
    base_dir = os.path.join(snap, "dateparser_data")
    with open(os.path.join(base_dir, "supplementary_language_data", "base_data.yaml")) as f:
        base = RoundTripLoader(f).get_data()
    moddir = os.path.join(snap, "dateparser", "data", "date_translation_data")
    modules = sorted(f[:-3] for f in os.listdir(moddir) if f.endswith(".py") and f != "__init__.py")
    recs = []
    summary["modules"] = len(modules)
    summary["byte_mismatch_generator"] = []
    summary["not_canonical_json"] = []
    for lang in sorted(set(modules) | set(gen)):
        shipped_bytes = None
        p = os.path.join(moddir, lang + ".py")
        if os.path.exists(p):
            shipped_bytes = open(p, "rb").read()
        if shipped_bytes is None or lang not in gen:
            summary["byte_mismatch_generator"].append(lang)
            continue
        if gen[lang] != shipped_bytes:
            summary["byte_mismatch_generator"].append(lang)
        text = shipped_bytes.decode("utf-8")
        try:
            struct = json.loads(text[len("info = "):], object_pairs_hook=OrderedDict) if text.startswith("info = ") else None
        except Exception:
            struct = None
        if struct is None or ("info = " + json.dumps(struct, indent=4, separators=(",", ": "), ensure_ascii=False) + "\n").encode("utf-8") != shipped_bytes:
            summary["not_canonical_json"].append(lang)
            if struct is None:
                continue
        cp = os.path.join(base_dir, "cldr_language_data", "date_translation_data", lang + ".json")
        sp = os.path.join(base_dir, "supplementary_language_data", "date_translation_data", lang + ".yaml")
        cldr = json.load(open(cp), object_pairs_hook=OrderedDict) if os.path.exists(cp) else OrderedDict()
        supp = OrderedDict(RoundTripLoader(open(sp)).get_data()) if os.path.exists(sp) else OrderedDict()
        recs.append({"kind": "lang", "tid": len(recs), "lang": lang, "cldr": tag(cldr), "supp": tag(supp), "base": tag(base), "shipped": tag(struct, split=False)})
    # ---- (c) the index
    from dateparser.data import languages_info as LI
    import importlib
    locs = []
    for lang in modules:
        info = importlib.import_module("dateparser.data.date_translation_data." + lang).info
        locs.append({"lang": lang, "indexed": list(LI.language_locale_dict.get(lang, ["<missing>"])), "defined": list(info.get("locale_specific", {}).keys())})
    mapped = sorted({x for v in LI.language_map.values() for x in v})
    recs.append({"kind": "index", "tid": len(recs), "order": list(LI.language_order), "modules": modules, "dictkeys": list(LI.language_locale_dict.keys()),
                 "locales": locs, "mapped": mapped})
    if loaded is not None:
        recs.append({"kind": "tz", "tid": len(recs), "src": src, "pat": pat, "loaded": loaded["rows"]})
        summary["tz_flags_ok"] = loaded["flags"] == expected_flags
        summary["tz_search_ok"] = loaded["search"] == expected_search and loaded["search_ic"] == expected_search
        summary["tz_search_flags"] = loaded["search_flags"]
        summary["tz_rows"] = len(loaded["rows"])
    with open(os.path.join(outdir, "c16.ndjson"), "w") as f:
        for r in recs:
            f.write(json.dumps(r, ensure_ascii=True) + "\n")
    summary["records"] = len(recs)
    json.dump(summary, open(os.path.join(outdir, "c16_summary.json"), "w"))


if __name__ == "__main__":
    main()
