"""Parser for TLA+ values as printed by TLC (PrintT output, -dump files, simulation traces).

Supported: integers, strings, booleans, model values (bare identifiers), tuples/sequences
<<...>>, sets {...}, records [a |-> v, ...], functions (k :> v @@ k2 :> v2) and [k \\in S |-> ...] is
never printed by TLC for finite functions (it prints the :> form or a tuple), so it is not supported.
"""

import re

_TOK = re.compile(
    r"\s*(?:(<<)|(>>)|(\{)|(\})|(\[)|(\])|(\()|(\))|(\|->)|(:>)|(@@)|(,)|"
    r"(-?\d+)|\"((?:[^\"\\]|\\.)*)\"|([A-Za-z_][A-Za-z0-9_!]*))"
)

LT, GT, LB, RB, LS, RS, LP, RP, MAPS, COLON, ATAT, COMMA, INT, STR, ID = range(1, 16)


class ParseError(ValueError):
    pass


def tokenize(s, pos=0, end=None):
    end = len(s) if end is None else end
    out = []
    while pos < end:
        m = _TOK.match(s, pos, end)
        if not m:
            if s[pos:end].strip() == "":
                break
            raise ParseError("bad token at %r" % s[pos : pos + 40])
        k = m.lastindex
        if k == INT:
            out.append((INT, int(m.group(INT))))
        elif k == STR:
            out.append((STR, _unescape(m.group(STR))))
        elif k == ID:
            out.append((ID, m.group(ID)))
        else:
            out.append((k, None))
        pos = m.end()
    return out


def _unescape(s):
    if "\\" not in s:
        return s
    return (
        s.replace('\\"', '"')
        .replace("\\n", "\n")
        .replace("\\t", "\t")
        .replace("\\\\", "\\")
    )


class _P:
    def __init__(self, toks):
        self.t = toks
        self.i = 0

    def peek(self):
        return self.t[self.i][0] if self.i < len(self.t) else None

    def next(self):
        tok = self.t[self.i]
        self.i += 1
        return tok

    def expect(self, k):
        tok = self.next()
        if tok[0] != k:
            raise ParseError("expected %s got %s at %d" % (k, tok, self.i))
        return tok

    def value(self):
        v = self.atom()
        # function composition k :> v @@ ...
        if self.peek() == COLON:
            d = {}
            self.next()
            d[_key(v)] = self.atom_noat()
            while self.peek() == ATAT:
                self.next()
                k = self.atom()
                self.expect(COLON)
                d[_key(k)] = self.atom_noat()
            return d
        return v

    def atom_noat(self):
        return self.atom()

    def atom(self):
        k, v = self.next()
        if k == INT or k == STR:
            return v
        if k == ID:
            if v == "TRUE":
                return True
            if v == "FALSE":
                return False
            return ModelValue(v)
        if k == LT:
            out = []
            if self.peek() == GT:
                self.next()
                return out
            while True:
                out.append(self.value())
                k2, _ = self.next()
                if k2 == GT:
                    return out
                if k2 != COMMA:
                    raise ParseError("bad tuple")
        if k == LB:
            out = []
            if self.peek() == RB:
                self.next()
                return TlaSet(out)
            while True:
                out.append(self.value())
                k2, _ = self.next()
                if k2 == RB:
                    return TlaSet(out)
                if k2 != COMMA:
                    raise ParseError("bad set")
        if k == LS:
            d = {}
            if self.peek() == RS:
                self.next()
                return d
            while True:
                name = self.expect(ID)[1]
                self.expect(MAPS)
                d[name] = self.value()
                k2, _ = self.next()
                if k2 == RS:
                    return d
                if k2 != COMMA:
                    raise ParseError("bad record")
        if k == LP:
            v = self.value()
            self.expect(RP)
            return v
        raise ParseError("unexpected token %s" % k)


class ModelValue(str):
    pass


class TlaSet(list):
    """A TLA+ set, kept as a list (elements may be unhashable)."""


def _key(k):
    if isinstance(k, list):
        return tuple(_key(x) for x in k)
    return k


def parse(s):
    p = _P(tokenize(s))
    v = p.value()
    if p.i != len(p.t):
        raise ParseError("trailing tokens")
    return v


def find_tuples(text, tag):
    """Yield parsed values of every `<< "tag", ... >>` tuple printed in `text` (bracket matched)."""
    needle = '<<"%s"' % tag
    # TLC pretty-prints `<< "TAG",` (with a space) for long values and `<<"TAG",` for short ones.
    for m in re.finditer(r'<<\s*"%s"' % re.escape(tag), text):
        start = m.start()
        depth = 0
        i = start
        n = len(text)
        in_str = False
        while i < n:
            c = text[i]
            if in_str:
                if c == "\\":
                    i += 1
                elif c == '"':
                    in_str = False
            elif c == '"':
                in_str = True
            elif text.startswith("<<", i):
                depth += 1
                i += 1
            elif text.startswith(">>", i):
                depth -= 1
                i += 1
                if depth == 0:
                    yield parse(text[start : i + 1])
                    break
            i += 1


def parse_dump(path, variables=None):
    """Parse a TLC `-dump` file: yields dict var -> value for every state."""
    with open(path, encoding="utf-8") as f:
        text = f.read()
    for block in re.split(r"^State \d+:\s*$", text, flags=re.M)[1:]:
        yield parse_state(block, variables)


def parse_state(block, variables=None):
    st = {}
    parts = re.split(r"^/\\ ", block.strip(), flags=re.M)
    for part in parts:
        part = part.strip()
        if not part:
            continue
        name, _, val = part.partition(" = ")
        name = name.strip()
        if variables is not None and name not in variables:
            continue
        st[name] = parse(val)
    return st


def to_tla(v):
    """Render a Python value as a TLA+ expression (for cfg constants / generated modules)."""
    if isinstance(v, bool):
        return "TRUE" if v else "FALSE"
    if isinstance(v, int):
        return str(v)
    if isinstance(v, ModelValue):
        return str(v)
    if isinstance(v, str):
        if not v.isascii():
            raise ValueError("non-ASCII string literal must go through JSON: %r" % v)
        return '"' + v.replace("\\", "\\\\").replace('"', '\\"') + '"'
    if isinstance(v, (set, frozenset, TlaSet)):
        return "{" + ", ".join(to_tla(x) for x in sorted(v, key=repr)) + "}"
    if isinstance(v, (list, tuple)):
        return "<<" + ", ".join(to_tla(x) for x in v) + ">>"
    if isinstance(v, dict):
        if not v:
            return "<<>>"
        if all(isinstance(k, str) and re.match(r"^[A-Za-z_]\w*$", k) for k in v):
            return "[" + ", ".join("%s |-> %s" % (k, to_tla(x)) for k, x in v.items()) + "]"
        return "(" + " @@ ".join("%s :> %s" % (to_tla(k), to_tla(x)) for k, x in v.items()) + ")"
    raise TypeError(type(v))
