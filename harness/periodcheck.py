"""Binding of spec/Periods.tla (get_intersecting_periods, date_range of dateparser/date.py - public helpers that no
listed property speaks about) to the code: P_Periods laws model-checked, then generated calls executed on the tree under
test and every output compared with the model's by TLC (T_Periods), the laws evaluated on the code's own output."""

import datetime

from . import core

CFG = ("SPECIFICATION Spec\nCONSTANTS\n  Instants <- MCInstants\n  Steps <- MCSteps\nINVARIANT PeriodsTile\nINVARIANT RangeLaw\nCHECK_DEADLOCK FALSE\n")
SPAN = {"second": 300, "minute": 5 * 3600, "hour": 10 * 86400, "day": 300 * 86400, "week": 5 * 366 * 86400, "month": 25 * 366 * 86400, "year": 250 * 366 * 86400}
KEYS = ["years", "months", "weeks", "days", "hours", "minutes", "seconds"]


def call(case):
    from dateparser.date import date_range, get_intersecting_periods
    lo, hi = datetime.datetime(*case["lo"]), datetime.datetime(*case["hi"])
    res = {"out": [], "exc": ""}
    try:
        it = get_intersecting_periods(lo, hi, case["p"]) if case["kind"] == "isect" else date_range(lo, hi, **{k: v for k, v in case["kw"].items() if v})
        for k, d in enumerate(it):
            if k >= 5000:
                res["exc"] = "more than 5000 values"
                break
            res["out"].append([d.year, d.month, d.day, d.hour, d.minute, d.second, d.microsecond])
    except Exception as e:  # noqa
        res["exc"] = type(e).__name__
    return res


def run(ctx):
    rng = ctx.rng
    mc = ctx.tlc("MC_Periods", CFG, timeout=1500, name="P_Periods")
    mc.require_clean()
    for inv in mc.invariant_violated:
        ctx.note_drift("Periods", {"law_refuted_by_TLC": inv, "counterexample": mc.counterexample()[-1:]})
    anchors = [(2019, 12, 30, 23, 59, 59, 500000), (2020, 1, 1, 0, 0, 0, 0), (2020, 2, 29, 12, 0, 0, 1), (2020, 3, 1, 0, 0, 0, 0), (2021, 2, 28, 23, 59, 59, 999999),
               (1999, 12, 31, 23, 59, 59, 0), (2024, 12, 30, 0, 0, 0, 0), (1900, 2, 28, 18, 0, 0, 0), (2100, 3, 1, 0, 0, 0, 1), (2020, 1, 31, 10, 30, 0, 0)]

    def instant():
        a = datetime.datetime(*rng.choice(anchors))
        if rng.random() < 0.6:
            a += datetime.timedelta(days=rng.randint(-400, 400), seconds=rng.choice([0, 0, 1, 59, 3600, rng.randint(0, 86399)]), microseconds=rng.choice([0, 0, 1, 999999]))
        return a

    def lst(d):
        return [d.year, d.month, d.day, d.hour, d.minute, d.second, d.microsecond]
    cases = []
    for _ in range(900 if ctx.quick() else 40000):
        p = rng.choice(sorted(SPAN))
        lo = instant()
        hi = lo + datetime.timedelta(seconds=rng.choice([0, 1, -5, SPAN[p] // 7, rng.randint(0, SPAN[p])]), microseconds=rng.choice([0, 1, 500000]))
        if not (datetime.datetime(1000, 1, 1) < hi < datetime.datetime(9000, 1, 1)):
            continue
        cases.append({"kind": "isect", "lo": lst(lo), "hi": lst(hi), "p": p, "kw": {k: 0 for k in KEYS}})
    for _ in range(600 if ctx.quick() else 20000):
        kw = {k: 0 for k in KEYS}
        for k in rng.sample(KEYS, rng.choice([1, 1, 2])):
            kw[k] = rng.choice([1, 1, 2, 3, 7, 12, 36, 90])
        approx = kw["years"] * 366 * 86400 + kw["months"] * 31 * 86400 + kw["weeks"] * 7 * 86400 + kw["days"] * 86400 + kw["hours"] * 3600 + kw["minutes"] * 60 + kw["seconds"]
        lo = instant()
        if rng.random() < 0.3:          # days 29-31 as the start of a month walk: the clamped day stays clamped
            lo = lo.replace(day=rng.choice([28, 29, 30, 31]) if lo.month in (1, 3, 5, 7, 8, 10, 12) else 28)
        n = rng.choice([0, 1, 2, 5, rng.randint(0, 150)])
        if approx * max(n, 1) > 10 ** 9:
            continue
        hi = lo + datetime.timedelta(seconds=approx * n + rng.choice([0, 1, -1, approx // 2]))
        if not (datetime.datetime(1000, 1, 1) < hi < datetime.datetime(9000, 1, 1)):
            continue
        cases.append({"kind": "range", "lo": lst(lo), "hi": lst(hi), "p": "day", "kw": kw})
    results = core.run_cases(ctx, "harness.periodcheck", "call", cases, chunk=200)
    records = [{"tid": i, "kind": c["kind"], "lo": c["lo"], "hi": c["hi"], "p": c["p"], "kw": c["kw"], "out": r["out"]}
               for i, (c, r) in enumerate(zip(cases, results)) if not r["exc"] and len(r["out"]) <= 400]
    tuples, _ = core.validate_traces(ctx, "T_Periods", "SPECIFICATION TSpec\nPOSTCONDITION Consumed\nCHECK_DEADLOCK FALSE\n", records, shards=min(core.NCPU, 12))
    drift = 0
    for t in tuples["REJECT"]:
        drift += 1
        if drift <= 5:
            c = cases[t[1]]
            ctx.note_drift("Periods", {"call": ("get_intersecting_periods(%r, %r, %r)" % (c["lo"], c["hi"], c["p"])) if c["kind"] == "isect" else
                                       "date_range(%r, %r, %r)" % (c["lo"], c["hi"], {k: v for k, v in c["kw"].items() if v}),
                                       "clause": t[3], "model": t[4], "observed": results[t[1]]["out"][:8]})
    return {"laws_states": mc.distinct, "calls_validated": len(records), "raised": sum(1 for r in results if r["exc"]), "mismatches": drift,
            "values_compared": sum(len(r["out"]) for r in records)}
