"""Code that runs INSIDE worker processes: it imports the library under test from the per-run
snapshot (first on sys.path), executes public-API calls described by JSON cases, and projects
the concrete outcome onto the abstract values of the specification (DESIGN 2.2).

Runtime probes are installed by name if the target still exists (no source hooks)."""

import datetime as _dt
import json
import re
import threading

_state = threading.local()


def dt_to_list(d):
    if d is None:
        return []
    return [d.year, d.month, d.day, d.hour, d.minute, d.second, d.microsecond]


def list_to_dt(v, tz=None):
    if not v:
        return None
    d = _dt.datetime(*v[:7])
    if tz is not None:
        import pytz
        z = pytz.timezone(tz) if isinstance(tz, str) else _dt.timezone(_dt.timedelta(seconds=tz))
        d = z.localize(d) if hasattr(z, "localize") else d.replace(tzinfo=z)
    return d


def off_of(d):
    """UTC offset in seconds of an aware datetime, or the string "naive"."""
    if d is None or d.tzinfo is None:
        return "naive"
    o = d.utcoffset()
    return int(o.total_seconds()) if o is not None else "naive"


_BASES = {}


def decode_settings(st):
    """JSON settings -> real settings dict (RELATIVE_BASE list -> datetime)."""
    if st is None:
        return None
    out = {}
    for k, v in st.items():
        if k == "RELATIVE_BASE" and isinstance(v, (list, dict)):
            # a program keeps ONE reference datetime and passes it again and again: equal bases of one process are
            # the same object here too (and a different object for every other value)
            key = json.dumps(v, sort_keys=True)
            if key not in _BASES:
                _BASES[key] = list_to_dt(v) if isinstance(v, list) else list_to_dt(v["dt"], v.get("tz"))
            out[k] = _BASES[key]
        else:
            out[k] = v
    return out


def exc_name(e):
    names = [c.__name__ for c in type(e).__mro__]
    return type(e).__name__, names


# --------------------------------------------------------------------------- token projection
_MER = re.compile(r"am|pm")
_DAYS_FULL = ["monday", "tuesday", "wednesday", "thursday", "friday", "saturday", "sunday"]
_DAYS_ABBR = ["mon", "tue", "wed", "thu", "fri", "sat", "sun"]
_MON_FULL = ["january", "february", "march", "april", "may", "june", "july", "august", "september",
             "october", "november", "december"]
_MON_ABBR = [m[:3] for m in _MON_FULL]
_SKIP = ["t", "year", "hour", "minute"]


def _tok(k, len_=0, val=0, cls="", mer="", parts=(), isdot=False, hasdot=False):
    return {"k": k, "len": len_, "val": val, "cls": cls, "mer": mer, "parts": [list(p) for p in parts],
            "isdot": isdot, "hasdot": hasdot}


def project_tokens(datestring):
    """Abstract tokens (spec/AbsParser.tla) of a translated date string, using the real tokenizer of
    the tree under test; None when a token is outside the abstraction (then refinement is skipped)."""
    from dateparser.parser import tokenizer
    out = []
    for tok, typ in tokenizer(datestring).tokenize():
        tok = tok.strip()
        if typ == 0:
            if ":" in tok:
                parts = tok.split(":")
                if any(p == "" or len(p) > 9 for p in parts):
                    return None
                out.append(_tok("c", parts=[(len(p), int(p)) for p in parts]))
            else:
                if len(tok) > 9 or not tok.isdigit() or not tok.isascii():
                    return None
                out.append(_tok("n", len(tok), int(tok)))
        elif typ == 1:
            low = tok.lower()
            m = _MER.search(tok)
            mer = m.group() if m else ""
            if tok in _SKIP:
                out.append(_tok("a", cls="skip", mer=mer))
            elif low in _DAYS_FULL:
                out.append(_tok("a", val=_DAYS_FULL.index(low), cls="weekday", mer=mer))
            elif low in _DAYS_ABBR:
                out.append(_tok("a", val=_DAYS_ABBR.index(low), cls="weekday", mer=mer))
            elif low in _MON_FULL:
                out.append(_tok("a", val=_MON_FULL.index(low) + 1, cls="month", mer=mer))
            elif low in _MON_ABBR:
                out.append(_tok("a", val=_MON_ABBR.index(low) + 1, cls="month", mer=mer))
            else:
                out.append(_tok("a", cls="other", mer=mer))
        else:
            out.append(_tok("s", isdot=(tok == "."), hasdot=("." in tok)))
    return out


# --------------------------------------------------------------------------- probes
_PROBE = {"installed": False, "unbound": []}


def _events():
    ev = getattr(_state, "events", None)
    if ev is None:
        ev = _state.events = []
    return ev


def install_absparser_probe():
    """Wrap `_parser.parse` (classmethod) so that every run of the absolute parser is logged at its
    return (or raise): input string, the settings fields the machine reads, tz, outcome."""
    if _PROBE["installed"]:
        return
    _PROBE["installed"] = True
    try:
        import dateparser.parser as P
        orig = P._parser.__dict__["parse"].__func__
    except Exception:
        _PROBE["unbound"].append("_parser.parse")
        return

    def parse(cls, datestring, settings, tz=None):
        rec = {"ev": "absparse", "ds": datestring}
        try:
            rec["sg"] = project_settings(settings, tz)
            rec["toks"] = project_tokens(datestring)
        except Exception as e:  # projection must never disturb the library
            rec["toks"] = None
            rec["projerr"] = repr(e)
        try:
            res = orig(cls, datestring, settings, tz)
        except BaseException as e:
            rec["out"] = "fail" if isinstance(e, ValueError) else (
                "overflow" if isinstance(e, OverflowError) else "exc:" + type(e).__name__)
            rec["period"] = ""
            _events().append(rec)
            raise
        try:
            rec["out"] = dt_to_list(res[0].replace(tzinfo=None)) if res[0] is not None else "fail"
            rec["period"] = res[1] or ""
        except Exception as e:
            rec["out"] = "unprojectable"
            rec["period"] = ""
        _events().append(rec)
        return res

    P._parser.parse = classmethod(parse)


def install_nospaces_probe():
    """Wrap `_no_spaces_parser.parse` (classmethod): log the string, the settings fields it reads, the outcome."""
    if _PROBE.get("nsp_installed"):
        return
    _PROBE["nsp_installed"] = True
    try:
        import dateparser.parser as P
        orig = P._no_spaces_parser.__dict__["parse"].__func__
    except Exception:
        _PROBE["unbound"].append("_no_spaces_parser.parse")
        return
    import re as _re

    def parse(cls, datestring, settings):
        rec = {"ev": "nospaces", "ds": datestring, "order": str(settings.DATE_ORDER), "strict": bool(settings.STRICT_PARSING),
               "require": list(settings.REQUIRE_PARTS or [])}
        try:
            m = _re.search(r"\D+", datestring)
            rec["eligible"] = (m is None) or m.group() == ":"
            ds = datestring.replace(":", "")
            toks = []
            ok = True
            for tok, typ in P.tokenizer(ds).tokenize() if ds else []:
                if tok.isdigit() and tok.isascii():
                    if len(tok) > 40:
                        ok = False
                    toks.append([int(ch) for ch in tok])
            rec["toks"] = toks
            rec["skip"] = not ok
        except Exception:
            rec["toks"], rec["skip"], rec["eligible"] = [], True, False
        try:
            res = orig(cls, datestring, settings)
        except BaseException as e:
            rec["out"] = ["fail"] if isinstance(e, ValueError) else ["exc:" + type(e).__name__]
            rec["period"] = ""
            _events().append(rec)
            raise
        rec["out"] = dt_to_list(res[0])
        rec["period"] = res[1] or ""
        _events().append(rec)
        return res

    P._no_spaces_parser.parse = classmethod(parse)


def install_parserloop_probe():
    """log, for every run of _DateLocaleParser._parse, the configured PARSERS and which of the per-parser methods ran, in
    order, with the validity of what each returned (refinement of Pipeline.tla's parser loop)"""
    if _PROBE.get("ploop_installed"):
        return
    _PROBE["ploop_installed"] = True
    try:
        import dateparser.date as D
        C = D._DateLocaleParser
        names = {"_try_timestamp": "timestamp", "_try_negative_timestamp": "negative-timestamp", "_try_freshness_parser": "relative-time",
                 "_try_given_formats": "custom-formats", "_try_absolute_parser": "absolute-time", "_try_nospaces_parser": "no-spaces-time"}
        origs = {m: getattr(C, m) for m in names}
        o_parse = C._parse
    except Exception:
        _PROBE["unbound"].append("_DateLocaleParser parser loop")
        return

    def mk(m):
        o = origs[m]

        def w(self, *a, **k):
            r = o(self, *a, **k)
            cur = getattr(_state, "ploop", None)
            if cur is not None:
                try:
                    cur.append([names[m], bool(self._is_valid_date_data(r))])
                except Exception:
                    cur.append([names[m], False])
            return r
        return w
    for m in names:
        setattr(C, m, mk(m))

    def _parse(self):
        _state.ploop = []
        try:
            r = o_parse(self)
        finally:
            tries, _state.ploop = _state.ploop, None
        _events().append({"ev": "parser_loop", "parsers": list(self._settings.PARSERS), "tries": tries, "found": r is not None})
        return r
    C._parse = _parse


def project_settings(settings, tz=None):
    base = getattr(settings, "RELATIVE_BASE", None)
    sg = {
        "order": settings.DATE_ORDER,
        "pdf": settings.PREFER_DATES_FROM,
        "pdom": settings.PREFER_DAY_OF_MONTH,
        "pmoy": settings.PREFER_MONTH_OF_YEAR,
        "strict": bool(settings.STRICT_PARSING),
        "require": list(settings.REQUIRE_PARTS or []),
        "rtap": bool(settings.RETURN_TIME_AS_PERIOD),
    }
    if base and base.tzinfo is None:
        sg["base"] = dt_to_list(base)
    else:
        sg["base"] = []          # clock-based or aware base: the machine is not applied
    # tz offset the time-only branch would use
    off = 0
    try:
        from dateparser.utils import get_timezone_from_tz_string
        z = tz or get_timezone_from_tz_string(settings.TIMEZONE)
        sg["tzname"] = str(settings.TIMEZONE)
        sg["_tz"] = z
    except Exception:
        sg["_tz"] = None
    sg["tzoff"] = off
    return sg


# --------------------------------------------------------------------------- API calls
def call_parse(case):
    """case: {s, kw: {languages, locales, region, date_formats}, settings, probe: bool, api: parse|ddp}
    -> {out, off, period, locale, exc, mro, probe: [...]}"""
    import dateparser
    from dateparser.date import DateDataParser
    if case.get("probe"):
        install_absparser_probe()
        install_nospaces_probe()
        install_parserloop_probe()
    for pre in case.get("pre") or []:
        # earlier calls of the same process (their outcome is not judged here): what the judged call returns must not
        # depend on them
        try:
            pk = dict(pre.get("kw") or {})
            pf = pk.pop("date_formats", None)
            DateDataParser(settings=decode_settings(pre.get("settings")), **pk).get_date_data(pre["s"], pf)
        except Exception:  # noqa
            pass
    _state.events = []
    kw = dict(case.get("kw") or {})
    st = decode_settings(case.get("settings"))
    res = {"out": [], "off": "naive", "period": "", "locale": "", "exc": "", "mro": []}
    fc = fake_clock(case.get("fake_today"))
    fc.__enter__()
    res["clock0"] = fc.shifted(dt_to_list(_dt.datetime.now()))
    res["uclock0"] = fc.shifted(dt_to_list(_dt.datetime.now(_dt.timezone.utc).replace(tzinfo=None)))
    # how the settings reach the library: as a dict (default), as a Settings object made with settings.replace(...),
    # or as a dict that the caller empties again once the parser is built
    via = case.get("via") if st else None
    try:
        if via == "instance":
            from dateparser.conf import settings as _defaults
            st = _defaults.replace(**st)
        elif via == "instance2":
            # a long-lived base configuration refined per call: settings.replace(<preferences>).replace(RELATIVE_BASE=...)
            from dateparser.conf import settings as _defaults
            late = {k: v for k, v in st.items() if k in ("RELATIVE_BASE", "TIMEZONE", "TO_TIMEZONE")}
            early = {k: v for k, v in st.items() if k not in late}
            st = _defaults.replace(**early) if early else _defaults
            st = st.replace(**late) if late else st
        if case.get("api", "ddp") == "parse":
            d = dateparser.parse(case["s"], settings=st, **kw)
            res["out"] = dt_to_list(d)
            res["off"] = off_of(d)
        else:
            fmts = kw.pop("date_formats", None)
            p = DateDataParser(settings=st, **kw)
            if via == "cleared":
                st.clear()
            # the parser object handed on as a copy (to a worker process, into a pool): the copy is used
            if case.get("copy") == "pickle":
                import pickle as _pk
                p = _pk.loads(_pk.dumps(p))
            elif case.get("copy") == "deepcopy":
                import copy as _cp
                p = _cp.deepcopy(p)
            elif case.get("copy") == "copy":
                import copy as _cp
                p = _cp.copy(p)
            dd = p.get_date_data(case["s"], fmts)
            d = dd["date_obj"]
            res["out"] = dt_to_list(d)
            res["off"] = off_of(d)
            res["period"] = dd["period"] or ""
            res["locale"] = dd["locale"] or ""
    except BaseException as e:  # noqa: the outcome class is what the properties speak about
        if isinstance(e, (KeyboardInterrupt, SystemExit)):
            raise
        res["exc"], res["mro"] = exc_name(e)
        res["msg"] = str(e)[:200]
    if case.get("pk") and not res["exc"]:
        res["pk"] = _pickle_copy_ok(d)
    res["clock1"] = fc.shifted(dt_to_list(_dt.datetime.now()))
    res["uclock1"] = fc.shifted(dt_to_list(_dt.datetime.now(_dt.timezone.utc).replace(tzinfo=None)))
    fc.__exit__(None, None, None)
    evs = []
    for rec in _state.events:
        sg = rec.get("sg")
        if sg:
            z = sg.pop("_tz", None)
            sg["tzoff"] = _tzoff(z, rec)
        evs.append(rec)
    res["probe"] = evs
    res["unbound"] = list(_PROBE["unbound"])
    return res


class _ClockMeta(type):
    def __instancecheck__(cls, obj):
        return isinstance(obj, _dt.datetime)


class fake_clock:
    """the wall clock as the LIBRARY sees it, shifted so that "today" is a chosen date (run-time, by name: the `datetime`
    name bound in the modules that ask for the current time).  What the process' real clock shows is irrelevant to every
    property; which day it is (a 31st, a leap day, New Year's Eve) is a dimension of its own."""
    MODULES = ("dateparser.parser", "dateparser.date", "dateparser.freshness_date_parser", "dateparser.utils", "dateparser.calendars")

    def __init__(self, today):
        self.today = today
        self.saved = []

    def __enter__(self):
        if not self.today:
            return self
        import importlib
        real = _dt.datetime
        delta = real(*self.today[:3]) - real.now().replace(hour=0, minute=0, second=0, microsecond=0)

        class FDT(real, metaclass=_ClockMeta):
            @classmethod
            def now(cls, tz=None):
                return real.now(tz) + delta

            @classmethod
            def utcnow(cls):
                return real.utcnow() + delta

            @classmethod
            def today(cls):
                return real.today() + delta
        self.delta = delta
        for m in self.MODULES:
            try:
                mod = importlib.import_module(m)
            except Exception:
                continue
            if getattr(mod, "datetime", None) is real:
                self.saved.append((mod, real))
                mod.datetime = FDT
        if not self.saved:
            _PROBE["unbound"].append("fake clock: no module binds datetime")
        return self

    def __exit__(self, *a):
        for mod, real in self.saved:
            mod.datetime = real
        return False

    def shifted(self, lst):
        """a harness clock reading (list) moved to the library's clock"""
        if not self.today or not lst:
            return lst
        return dt_to_list(list_to_dt(lst) + self.delta)


def call_parse_batch(batch):
    """several DateDataParser calls whose parsers are ALL constructed first and only then used (in reverse order of
    construction): objects that share state behind the constructor show up as results belonging to another case.
    batch: {cases: [call_parse cases with api 'ddp']} -> list of call_parse-shaped results"""
    from dateparser.date import DateDataParser
    cases = batch["cases"]
    if any(c.get("probe") for c in cases):
        install_absparser_probe()
        install_nospaces_probe()
    built = []
    for c in cases:
        kw = dict(c.get("kw") or {})
        fmts = kw.pop("date_formats", None)
        try:
            built.append((DateDataParser(settings=decode_settings(c.get("settings")), **kw), fmts, None))
        except BaseException as e:  # noqa
            if isinstance(e, (KeyboardInterrupt, SystemExit)):
                raise
            built.append((None, fmts, e))
    # ... and next to every parser whose reference time is timezone-aware, a parser for the SAME INSTANT written in
    # another zone is constructed as well (never used): settings that compare equal are not the same settings
    from harness.neighbours import equal_instant_twin
    shadows = []
    for c in cases:
        tw = equal_instant_twin(c.get("settings"))
        if tw is not None:
            kw = dict(c.get("kw") or {})
            kw.pop("date_formats", None)
            try:
                shadows.append(DateDataParser(settings=decode_settings(tw), **kw))
            except Exception:  # noqa
                pass
    out = [None] * len(cases)
    for i in reversed(range(len(cases))):
        p, fmts, err = built[i]
        res = {"out": [], "off": "naive", "period": "", "locale": "", "exc": "", "mro": [], "probe": [], "unbound": []}
        res["clock0"] = dt_to_list(_dt.datetime.now())
        res["uclock0"] = dt_to_list(_dt.datetime.now(_dt.timezone.utc).replace(tzinfo=None))
        try:
            if err is not None:
                raise err
            _state.events = []
            dd = p.get_date_data(cases[i]["s"], fmts)
            d = dd["date_obj"]
            res["out"] = dt_to_list(d)
            res["off"] = off_of(d)
            res["period"] = dd["period"] or ""
            res["locale"] = dd["locale"] or ""
        except BaseException as e:  # noqa
            if isinstance(e, (KeyboardInterrupt, SystemExit)):
                raise
            res["exc"], res["mro"] = exc_name(e)
            res["msg"] = str(e)[:200]
        res["clock1"] = dt_to_list(_dt.datetime.now())
        res["uclock1"] = dt_to_list(_dt.datetime.now(_dt.timezone.utc).replace(tzinfo=None))
        if cases[i].get("pk") and not res["exc"]:
            res["pk"] = _pickle_copy_ok(d)
        evs = []
        for rec in (_state.events if cases[i].get("probe") else []):
            sg = rec.get("sg")
            if sg:
                z = sg.pop("_tz", None)
                sg["tzoff"] = _tzoff(z, rec)
            evs.append(rec)
        _state.events = []
        res["probe"] = evs
        res["unbound"] = list(_PROBE["unbound"])
        out[i] = res
    return out


def _untag(t):
    k = t["t"]
    if k in ("str", "bool", "int"):
        return t["v"]
    if k == "float":
        return float(t["v"])
    if k == "none":
        return None
    if k == "datetime":
        return list_to_dt(t["v"])
    if k == "date":
        return _dt.date(*t["v"])
    if k == "list":
        return [_untag(x) for x in t["v"]]
    if k == "tuple":
        return tuple(_untag(x) for x in t["v"])
    if k == "dict":
        return {a: _untag(b) for a, b in t["v"]}
    if k == "bytes":
        return bytes.fromhex(t["v"])
    if k == "set":
        return {_untag(x) for x in t["v"]}
    if k == "frozenset":
        return frozenset(_untag(x) for x in t["v"])
    if k == "settings":
        from dateparser.conf import settings as S
        return S.replace(**{a: _untag(b) for a, b in t["v"]}) if t["v"] else S
    raise ValueError(k)


def call_validate(case):
    """case: {arg: tagged value passed as settings=, s, api} -> which exception class, if any, and where"""
    import dateparser
    from dateparser.date import DateDataParser
    res = {"exc": "", "mro": [], "phase": "", "msg": ""}
    try:
        arg = _untag(case["arg"])
        res["phase"] = "construct"
        if case.get("api") == "parse":
            dateparser.parse(case["s"], languages=["en"], settings=arg)
        elif case.get("api") == "search":
            from dateparser.search import search_dates
            search_dates(case["s"], languages=["en"], settings=arg)
        else:
            p = DateDataParser(languages=["en"], settings=arg)
            res["phase"] = "call"
            p.get_date_data(case["s"])
    except BaseException as e:  # noqa
        if isinstance(e, (KeyboardInterrupt, SystemExit)):
            raise
        res["exc"], res["mro"] = exc_name(e)
        res["msg"] = str(e)[:200]
    return res


def call_args(case):
    """C02, wrongly typed arguments.  case: {languages, locales, region, tpl, ugo, ds, fmts: tagged values} -> the exception
    class, if any, and whether it came from the constructor or from the first call"""
    from dateparser.date import DateDataParser
    res = {"exc": "", "mro": [], "phase": "construct", "msg": ""}
    try:
        a = {k: _untag(case[k]) for k in ("languages", "locales", "region", "tpl", "ugo", "ds", "fmts")}
        p = DateDataParser(languages=a["languages"], locales=a["locales"], region=a["region"], try_previous_locales=a["tpl"], use_given_order=a["ugo"])
        res["phase"] = "call"
        dd = p.get_date_data(a["ds"], a["fmts"])
        res["period"] = dd["period"]
    except BaseException as e:  # noqa
        if isinstance(e, (KeyboardInterrupt, SystemExit)):
            raise
        res["exc"], res["mro"] = exc_name(e)
        res["msg"] = str(e)[:200]
    return res


def call_live_twin(case):
    """C02 mini-history: a parser made with valid settings stays alive while a call with a look-alike of those settings
    (same text, wrong type) is made and - normally - rejected; the live parser is then used again.
    case: {settings, kw, s1, s2, twin} -> three call_parse-shaped results [first use, twin call, second use]"""
    from dateparser.date import DateDataParser
    import dateparser
    out = []

    def shaped(fn):
        res = {"out": [], "off": "naive", "period": "", "locale": "", "exc": "", "mro": [], "probe": [], "unbound": []}
        try:
            dd = fn()
            if isinstance(dd, _dt.datetime) or dd is None:
                res["out"] = dt_to_list(dd)
                res["api"] = "parse"
            else:
                d = dd["date_obj"]
                res["out"] = dt_to_list(d)
                res["period"] = dd["period"] or ""
                res["locale"] = dd["locale"] or ""
                res["api"] = "ddp"
        except BaseException as e:  # noqa
            if isinstance(e, (KeyboardInterrupt, SystemExit)):
                raise
            res["exc"], res["mro"] = exc_name(e)
            res["msg"] = str(e)[:200]
        return res

    kw = dict(case.get("kw") or {})
    st = decode_settings(case.get("settings"))
    holder = {}

    def first():
        holder["p"] = DateDataParser(settings=st, **kw)
        return holder["p"].get_date_data(case["s1"])
    out.append(shaped(first))
    tw = decode_settings(case["twin"])
    if case.get("twin_api") == "parse":
        out.append(shaped(lambda: dateparser.parse(case["s1"], settings=tw, **kw)))
    else:
        out.append(shaped(lambda: DateDataParser(settings=tw, **kw).get_date_data(case["s1"])))
    if "p" in holder:
        out.append(shaped(lambda: holder["p"].get_date_data(case["s2"])))
    else:
        out.append(dict(out[0]))
    return out


def _pickle_copy_ok(d):
    import copy
    import pickle
    if d is None:
        return True
    try:
        for e in (pickle.loads(pickle.dumps(d)), copy.copy(d), copy.deepcopy(d)):
            if e != d or e.utcoffset() != d.utcoffset() or e.replace(tzinfo=None) != d.replace(tzinfo=None) or e.tzname() != d.tzname():
                return False
        return True
    except Exception:
        return False


def tz_matches(req):
    """exported relation: which rows of the loaded table match each string (regex engine = projection)"""
    from dateparser import timezone_parser as T
    out = []
    for s in req["strings"]:
        if not T._search_regex_ignorecase.search(s):
            out.append([])
            continue
        out.append([i for i, (name, info) in enumerate(T._tz_offsets) if info["regex"].search(s)])
    return out


def _tzoff(z, rec):
    """offset (seconds) `tz.utcoffset(dateobj)` would give for the naive pre-shift date; pytz zones
    need the date, so it is computed from the observed result's neighbourhood: only fixed-offset
    zones (UTC, StaticTzInfo, pytz fixed) are given; others -> 0 and flagged"""
    if z is None:
        return 0
    try:
        o = z.utcoffset(None)
        if o is None:
            o = z.utcoffset(_dt.datetime(2000, 1, 1))
            rec["tzvar"] = True
        return int(o.total_seconds())
    except Exception:
        try:
            rec["tzvar"] = True
            return int(z.utcoffset(_dt.datetime(2000, 1, 1)).total_seconds())
        except Exception:
            return 0


# --------------------------------------------------------------------------- C10: five runs of one input
NAIVE = 100000


def _outcome(case, st):
    c = dict(case)
    c["settings"] = st
    r = call_parse(c)
    if r["exc"]:
        o = [[], 0, r["exc"]]
    elif not r["out"]:
        o = []
    else:
        o = [r["out"], NAIVE if r["off"] == "naive" else r["off"]]
    return o, r


def call_c10(case):
    """case: {s, kw, settings (without RELATIVE_BASE / strictness), b1, b2, R} -> outcomes of the
    same input under (off,b1) (strict,b1) (strict,b2) (R,b1) (R,b2) (strict+R,b1) (strict+R,b2) + probe events of every run."""
    base = dict(case.get("settings") or {})
    runs = {}
    probes = []
    clock0 = dt_to_list(_dt.datetime.now())
    for name, extra in (("outN", {"RELATIVE_BASE": case["b1"]}),
                        ("outS", {"RELATIVE_BASE": case["b1"], "STRICT_PARSING": True}),
                        ("outS2", {"RELATIVE_BASE": case["b2"], "STRICT_PARSING": True}),
                        ("outR", {"RELATIVE_BASE": case["b1"], "REQUIRE_PARTS": case["R"]}),
                        ("outR2", {"RELATIVE_BASE": case["b2"], "REQUIRE_PARTS": case["R"]}),
                        # both switches at once: STRICT_PARSING asks for every part whatever REQUIRE_PARTS lists
                        ("outSR", {"RELATIVE_BASE": case["b1"], "STRICT_PARSING": True, "REQUIRE_PARTS": case["R"]}),
                        ("outSR2", {"RELATIVE_BASE": case["b2"], "STRICT_PARSING": True, "REQUIRE_PARTS": case["R"]})):
        st = dict(base)
        st.update(extra)
        o, r = _outcome(case, st)
        runs[name] = o
        probes.extend(r["probe"])
    return {"runs": runs, "probe": probes, "clock0": clock0, "clock1": dt_to_list(_dt.datetime.now()),
            "unbound": list(_PROBE["unbound"]), "out": runs["outN"], "exc": ""}


# --------------------------------------------------------------------------- C15: calendar parsers
def call_calendar(case):
    """case: {cal: jalali|hijri, s} -> out, period, exc, latin tokens (projection with the parser's own tables)"""
    if case["cal"] == "jalali":
        from dateparser.calendars.jalali import JalaliCalendar as C
        from dateparser.calendars.jalali_parser import jalali_parser as P
    else:
        from dateparser.calendars.hijri import HijriCalendar as C
        from dateparser.calendars.hijri_parser import hijri_parser as P
    res = {"out": [], "period": "", "exc": "", "toks": []}
    try:
        with fake_clock(case.get("fake_today")):
            r = C(case["s"]).get_date()
        if r is not None and r["date_obj"] is not None:
            res["out"] = dt_to_list(r["date_obj"])
            res["period"] = r["period"] or ""
    except BaseException as e:  # noqa
        res["exc"] = type(e).__name__
    try:
        from dateparser.parser import tokenizer
        latin = P.to_latin(case["s"])
        months = list(P._months.keys()) if P._months else []
        wds = list(P._weekdays.keys()) if P._weekdays else []
        toks = []
        for tok, typ in tokenizer(latin).tokenize():
            tok = tok.strip()
            if typ == 0:
                if ":" in tok:
                    parts = tok.split(":")
                    if any(p == "" for p in parts):
                        raise ValueError
                    toks.append(_tok("c", parts=[(len(p), int(p)) for p in parts]))
                else:
                    toks.append(_tok("n", len(tok), int(tok)))
            elif typ == 1:
                m = _MER.search(tok)
                mer = m.group() if m else ""
                if tok in months:
                    toks.append(_tok("a", val=months.index(tok) + 1, cls="month", mer=mer))
                elif tok.title() in wds:
                    toks.append(_tok("a", val=wds.index(tok.title()), cls="weekday", mer=mer))
                elif tok in _SKIP:
                    toks.append(_tok("a", cls="skip", mer=mer))
                else:
                    toks.append(_tok("a", cls="other", mer=mer))
            else:
                toks.append(_tok("s", isdot=(tok == "."), hasdot=("." in tok)))
        res["toks"] = toks
        res["latin"] = latin
    except Exception:
        res["toks"] = []
    return res


# --------------------------------------------------------------------------- C13: language selection
def _ddp_outcome(s, settings, **kw):
    from dateparser.date import DateDataParser
    dd = DateDataParser(settings=settings, **kw).get_date_data(s)
    d = dd["date_obj"]
    if d is None:
        return {"loc": "", "res": []}
    return {"loc": dd["locale"] or "", "res": [dt_to_list(d.replace(tzinfo=None)), dd["period"] or ""]}


def install_locale_probe():
    """log which locale every run of _DateLocaleParser.parse is made for (the locale loop's tries)"""
    if _PROBE.get("locale_installed"):
        return
    _PROBE["locale_installed"] = True
    try:
        import dateparser.date as D
        orig = D._DateLocaleParser.__dict__["parse"].__func__
    except Exception:
        _PROBE["unbound"].append("_DateLocaleParser.parse")
        return

    def parse(cls, locale, date_string, date_formats=None, settings=None):
        r = orig(cls, locale, date_string, date_formats, settings)
        _events().append({"ev": "locale_try", "loc": getattr(locale, "shortname", "?"), "ok": bool(r)})
        return r

    D._DateLocaleParser.parse = classmethod(parse)


def call_c13(case):
    """case: {s, langs, given, defaults, settings, region: [lang, region] | null}"""
    st = decode_settings(case.get("settings") or {})
    res = {"exc": "", "singles": [], "order": case["order"]}
    via = case.get("via", "languages")      # the selection is passed as languages=[...] or as locales=[...]
    try:
        for L in case["order"]:
            res["singles"].append(_ddp_outcome(case["s"], dict(st), **{via: [L]}))
        install_locale_probe()
        _state.events = []
        res["multi"] = _ddp_outcome(case["s"], dict(st), use_given_order=bool(case["given"]), **{via: list(case["langs"])})
        res["tries"] = [[e["loc"], e["ok"]] for e in _state.events if e.get("ev") == "locale_try"]
        res["probe_bound"] = "_DateLocaleParser.parse" not in _PROBE["unbound"]
        # each fallback language on its own (the selected languages stay selected): what the fallback is made of
        res["defsingles"] = []
        for d_ in case.get("deforder", []):
            st1 = dict(st)
            st1["DEFAULT_LANGUAGES"] = [d_]
            res["defsingles"].append(_ddp_outcome(case["s"], st1, use_given_order=bool(case["given"]), **{via: list(case["langs"])}))
        # a program holds ONE settings dict and ONE list of languages and passes them again: first with the other value of
        # use_given_order (history, not judged), then the judged call; the lists must still be what the caller wrote
        st2 = dict(st)
        held_defaults, held_langs = list(case["defaults"]), list(case["langs"])
        st2["DEFAULT_LANGUAGES"] = held_defaults
        try:
            _ddp_outcome(case["s"], st2, use_given_order=not bool(case["given"]), **{via: held_langs})
        except Exception:  # noqa
            pass
        res["multidef"] = _ddp_outcome(case["s"], st2, use_given_order=bool(case["given"]), **{via: held_langs})
        res["held"] = held_defaults == list(case["defaults"]) and held_langs == list(case["langs"])
        res["auto"] = _ddp_outcome(case["s"], dict(st))
        if res["auto"]["loc"]:
            from dateparser.data import language_order
            loc = res["auto"]["loc"]
            res["reparse"] = _ddp_outcome(case["s"], dict(st), **({"languages": [loc]} if loc in language_order else {"locales": [loc]}))
        else:
            res["reparse"] = {"loc": "", "res": []}
        if case.get("region"):
            lang, reg = case["region"]
            res["region"] = _ddp_outcome(case["s"], dict(st), languages=[lang], region=reg)
            res["asLocale"] = _ddp_outcome(case["s"], dict(st), locales=["%s-%s" % (lang, reg)])
        else:
            res["region"] = {"loc": "", "res": []}
            res["asLocale"] = {"loc": "", "res": []}
    except BaseException as e:  # noqa
        res["exc"] = type(e).__name__
        for k in ("multi", "multidef", "auto", "reparse", "region", "asLocale"):
            res.setdefault(k, {"loc": "", "res": []})
        res.setdefault("tries", [])
        res.setdefault("defsingles", [])
        res.setdefault("held", True)
        res.setdefault("probe_bound", False)
    return res


def call_c13_tpl(case):
    """two parsers with try_previous_locales=True in one process: what the first one remembered must stay its own.
    case: {a: {kw, s}, b: {kw, s}, settings} -> outcome of b's parser after a's, and b's outcome without the option"""
    from dateparser.date import DateDataParser
    st = decode_settings(case.get("settings") or {})
    res = {"exc": ""}
    try:
        res["single"] = _ddp_outcome(case["b"]["s"], dict(st), **case["b"]["kw"])
        pa = DateDataParser(settings=dict(st), try_previous_locales=True, **case["a"]["kw"])
        for s_ in case["a"]["s"]:
            pa.get_date_data(s_)
        pb = DateDataParser(settings=dict(st), try_previous_locales=True, **case["b"]["kw"])
        dd = pb.get_date_data(case["b"]["s"])
        d = dd["date_obj"]
        res["out"] = {"loc": "", "res": []} if d is None else {"loc": dd["locale"] or "", "res": [dt_to_list(d.replace(tzinfo=None)), dd["period"] or ""]}
    except BaseException as e:  # noqa
        res["exc"] = type(e).__name__
        res.setdefault("single", {"loc": "", "res": []})
        res.setdefault("out", {"loc": "", "res": []})
    return res


# --------------------------------------------------------------------------- C18: rewritings of one string
def _cls(s):
    import unicodedata
    out = []
    for ch in s:
        if ch in "0123456789":
            out.append("D")
        elif unicodedata.category(ch) == "Nd":
            out.append("N")
        elif ch == " ":
            out.append("S")
        elif ch in "\t\n\r":
            out.append("W")
        elif ch == "\xa0":
            out.append("B")
        elif ch == ".":
            out.append("P")
        elif ch == ":":
            out.append("C")
        elif ch.isspace():
            out.append("?")          # other Unicode whitespace: outside the class abstraction
        elif ch in "\u0433\u0413":
            out.append("G")          # the Russian year mark of RE_SANITIZE_RUSSIAN (spec/Sanitize.tla: RussianStep)
        elif ch in "uU":
            out.append("U")          # the Croatian "at" of RE_SANITIZE_CROATIAN (spec/Sanitize.tla: CroatStep)
        elif ch.isalpha():
            out.append("L")
        else:
            out.append("O")
    return out


def call_c18(case):
    """case: {s, variants: [[kind, rewritten]...], kw, settings} -> outcome of s and of each variant"""
    from dateparser.date import DateDataParser, sanitize_date
    st = decode_settings(case.get("settings") or {})
    kw18 = dict(case.get("kw") or {})
    fmts18 = kw18.pop("date_formats", None)
    p = DateDataParser(settings=st, **kw18)

    def run(s):
        try:
            dd = p.get_date_data(s, fmts18)
            d = dd["date_obj"]
            # (with date_formats a raw match is reported without a locale, a match after translation with one: the
            # datetime and period are "what the string parses to")
            return [dt_to_list(d.replace(tzinfo=None)) if d else [], off_of(d) if d else "naive", dd["period"] or "", (dd["locale"] or "") if not fmts18 else ""], ""
        except BaseException as e:  # noqa
            return [], type(e).__name__

    import re as _re2

    def plain(s):
        low = s.lower()
        # (the Croatian-date rule of sanitize_date IS part of the class model: class "U", CroatStep)
        return not any(x in low for x in ("on:", "»", "‎", "‏", "\xb7", "َ", "ُ", ",")) and "?" not in _cls(s) \
            and not any(ch in s for ch in "’ʼʻ՚ꞌ′‵ʹ＇")

    base, exc0 = run(case["s"])
    out = []
    for kind, v in case["variants"]:
        r, exc = run(v)
        try:
            san = sanitize_date(v)
            sancls = _cls(san)
        except Exception:
            sancls = []
        small = len(v) <= 60         # (the class strings are compared for short inputs only)
        out.append({"kind": kind, "v": v, "base": base, "rew": r, "exc": exc0 or exc, "cls": _cls(v) if small else [], "sancls": sancls if small else [],
                    "plain": plain(v) and small})
    return {"variants": out}


# --------------------------------------------------------------------------- C17: search_dates
def install_detect_probe():
    if _PROBE.get("detect_installed"):
        return
    _PROBE["detect_installed"] = True
    try:
        from dateparser.search.text_detection import FullTextLanguageDetector as F
        orig = F._best_language
    except Exception:
        _PROBE["unbound"].append("FullTextLanguageDetector._best_language")
        return

    def _best_language(self, date_string, settings=None):
        before = list(self.languages)
        r = orig(self, date_string, settings=settings)
        if 2 <= len(before) <= 6:
            _events().append({"ev": "detect", "langs": before, "text": date_string, "settings": settings, "out": r})
        return r
    F._best_language = _best_language


def project_detect(e):
    """the candidates of one _best_language call in the abstract form of spec/Detect.tla"""
    from dateparser.conf import settings as default_settings
    from dateparser.utils import normalize_unicode
    st = e["settings"] or default_settings
    text = e["text"]
    low = text.lower()
    tset = set(low)
    symbol_set = set("0123456789 /-)(.:\\,'")
    st0 = st.replace(NORMALIZE=False)
    chars = [L.get_wordchars_for_detection(settings=st0) for L in e["langs"]]
    cands = []
    ds = normalize_unicode(low)
    for i, L in enumerate(e["langs"]):
        uniq = set(chars[i])
        for o in chars:
            if o != chars[i]:
                uniq = uniq - o
        n = L.count_applicability(ds, strip_timezone=False, settings=st)
        if not (n[0] > 0 or n[1] > 0):
            n = L.count_applicability(ds, strip_timezone=True, settings=st)
        cands.append({"name": L.shortname, "uniq": any(ch.lower() in low for ch in uniq), "chars": len(tset & chars[i]) > 0, "cnt": [int(n[0]), int(n[1])]})
    names = [c["name"] for c in cands]
    return {"cands": cands, "symbolsOnly": (tset & symbol_set) == tset, "out": (names.index(e["out"]) + 1) if e["out"] in names else (0 if e["out"] is None else -1)}


def install_chunk_probe():
    if _PROBE.get("chunk_installed"):
        return
    _PROBE["chunk_installed"] = True
    try:
        from dateparser.languages.locale import Locale
        o_align = Locale._simplify_split_align
        o_ts = Locale.translate_search
    except Exception:
        _PROBE["unbound"].append("Locale.translate_search / _simplify_split_align")
        return

    def _simplify_split_align(self, original, settings):
        cur = getattr(_state, "aligns", None)
        inp = None
        if cur is not None and getattr(_state, "align_io", None) is not None and len(_state.align_io) < 6:
            try:        # what goes into the alignment (the same two pure calls the method makes itself)
                from dateparser.utils import normalize_unicode as _nu
                inp = (list(self._word_split(original, settings=settings)),
                       list(self._word_split(self._simplify(_nu(original), settings=settings), settings=settings)))
            except Exception:  # noqa
                inp = None
        try:
            r = o_align(self, original, settings)
        except Exception:
            if inp is not None:
                _state.align_io.append({"o": inp[0], "s": inp[1], "raised": True, "oo": [], "so": []})
            raise
        if cur is not None:
            cur.append((list(r[0]), list(r[1])))
            if inp is not None and (len(inp[0]) != len(inp[1]) or _PROBE.setdefault("align_n", [0]).__setitem__(0, _PROBE["align_n"][0] + 1) or _PROBE["align_n"][0] % 40 == 1):     # (equal lengths: nothing to align - a sample only)
                _state.align_io.append({"o": inp[0], "s": inp[1], "raised": False, "oo": list(r[0]), "so": list(r[1])})
        return r

    def translate_search(self, search_string, settings=None):
        _state.aligns = []
        if not hasattr(_state, "align_io"):
            _state.align_io = None
        try:
            r = o_ts(self, search_string, settings)
        finally:
            al, _state.aligns = _state.aligns, None
        _events().append({"ev": "tsearch", "loc": self, "settings": settings, "aligns": al, "original": list(r[1])})
        return r
    Locale._simplify_split_align = _simplify_split_align
    Locale.translate_search = translate_search


def install_split_probe():
    """split_by / choose_best_split of the search (spec/SearchSplit.tla)"""
    if _PROBE.get("split_installed"):
        return
    _PROBE["split_installed"] = True
    try:
        from dateparser.search.search import _ExactLanguageSearch as X
        o_split, o_best = X.split_by, X.choose_best_split
    except Exception:
        _PROBE["unbound"].append("_ExactLanguageSearch.split_by / choose_best_split")
        return

    def split_by(self, item, original, splitter):
        r = o_split(self, item, original, splitter)
        _events().append({"ev": "splitby", "item": item, "original": original, "splitter": splitter, "out": [[list(a), list(b)] for a, b in r]})
        return r

    def choose_best_split(self, possible_parsed_splits, possible_substrings_splits):
        r = o_best(self, possible_parsed_splits, possible_substrings_splits)
        chosen = next((i + 1 for i, x in enumerate(possible_parsed_splits) if x is r[0]), 0)
        cands = [[{"parsed": it[0]["date_obj"] is not None, "digit": any(ch.isdigit() for ch in sub)} for it, sub in zip(ps, ss)]
                 for ps, ss in zip(possible_parsed_splits, possible_substrings_splits)]
        _events().append({"ev": "best", "cands": cands, "chosen": chosen})
        return r
    o_rb = X.set_relative_base

    def set_relative_base(substring, already_parsed):
        r = o_rb(substring, already_parsed)
        chosen = 0 if r[1] is None else next((i + 1 for i in range(len(already_parsed) - 1, -1, -1) if already_parsed[i][0]["date_obj"] is r[1]), -1)
        # (an absolute piece whose parse gave nothing hands on None: told apart from "no absolute piece" by the flags)
        rel = [bool(x[1]) for x in already_parsed]
        if r[1] is None and any(not f for f in rel):
            last = max(i for i, f in enumerate(rel) if not f)
            chosen = last + 1 if already_parsed[last][0]["date_obj"] is None else -1
        _events().append({"ev": "relbase", "rel": rel, "chosen": chosen})
        return r
    X.split_by = split_by
    X.choose_best_split = choose_best_split
    X.set_relative_base = staticmethod(set_relative_base)


def project_splitby(e):
    """one split_by call as spec/SearchSplit.tla sees it: n pieces, and every returned candidate as ranges over them"""
    sp = e["splitter"]
    base_o, base_i = e["original"].split(sp), e["item"].split(sp)

    def ranges(pieces, base):
        out, p = [], 0
        for x in pieces:
            k = next((k for k in range(1, len(base) - p + 1) if sp.join(base[p:p + k]) == x), 0)
            if not k:
                return out + [[0, 0]]          # a piece that is no run of consecutive pieces of the chunk
            out.append([p + 1, p + k])
            p += k
        return out
    cands = [ranges(o, base_o) for _, o in e["out"]]
    return {"n": len(base_o), "cands": cands, "aligned": all(ranges(i, base_i) == ranges(o, base_o) for i, o in e["out"]) and len(base_i) == len(base_o)}


def project_align(io):
    """one _simplify_split_align call in the abstract form of spec/Align.tla: words as numbers, equal numbers = the
    simplified word equals the normalised, lower-cased original word; 0 = the empty word"""
    from dateparser.utils import normalize_unicode as _nu
    ids = {"": 0}

    def num(w):
        return ids.setdefault(w, len(ids))
    return {"o": [num(_nu(w.lower())) for w in io["o"]], "s": [num(w) for w in io["s"]], "raised": io["raised"],
            "oo": [num(_nu(w.lower())) for w in io["oo"]], "so": [num(w) for w in io["so"]]}


def align_small_domain(req):
    """every pair of word lists up to req['maxlen'] words over '', a, b, c through the REAL method (its two helper calls
    answered from a table), in the abstract form of spec/Align.tla"""
    import itertools
    from dateparser.languages.locale import Locale

    class Stub(Locale):
        def __init__(self):
            pass
    alpha = ["", "a", "b", "c"][:req.get("words", 3) + 1]
    out = []
    tab = {}
    st = Stub()
    st._word_split = lambda x, settings=None: list(tab[x])
    st._simplify = lambda x, settings=None: "S:" + x
    lists = [list(t) for k in range(req["maxlen"] + 1) for t in itertools.product(alpha, repeat=k)]
    lists = lists[req.get("part", 0)::req.get("parts", 1)]
    allb = [list(t) for k in range(req["maxlen"] + 1) for t in itertools.product(alpha, repeat=k)]
    for o in lists:
        for s2 in allb:
            tab["K"], tab["S:K"] = o, s2
            try:
                ro, rs = st._simplify_split_align("K", None)
                io = {"o": o, "s": s2, "raised": False, "oo": list(ro), "so": list(rs)}
            except Exception:  # noqa
                io = {"o": o, "s": s2, "raised": True, "oo": [], "so": []}
            out.append(project_align(io))
    return out


def project_chunks(e):
    """one translate_search call in the abstract form of spec/SearchChunks.tla: per sentence, per token, the flags"""
    from dateparser.timezone_parser import word_is_tz
    loc, st = e["loc"], e["settings"]
    d = loc._get_dictionary(settings=st)
    dashes = ["-", "\u2014\u2014", "\u2014", "\uff5e"]
    strip = "()\"'{}[],.\u060c"
    sents = []
    for orig, simp in e["aligns"]:
        toks = []
        for i, w in enumerate(simp):
            nxt = simp[i + 1] if i < len(simp) - 1 else ""
            toks.append({"blank": w in ("", " "), "dash": w in dashes, "joint": loc._join_chunk([w, nxt], settings=st) in d, "known": w in d,
                         "stripped": w.strip(strip) in d, "digits": bool(loc._token_with_digits_is_ok(w)), "tz": bool(word_is_tz(orig[i])) if i < len(orig) else False})
        sents.append({"t": toks, "orig": list(orig)})
    nospace = "no_word_spacing" in loc.info
    return {"sents": sents, "jointOK": loc.shortname not in ("zh", "ja"), "nospace": nospace, "original": e["original"]}


def call_search(case):
    """case: {text, languages | null, settings, withlang} -> projected result"""
    import datetime as _d
    import re as _r
    from dateparser.search import search_dates
    st = decode_settings(case.get("settings"))
    res = {"exc": "", "isnone": False, "islist": False, "hits": [], "detect": []}
    probe_detect = bool(case.get("languages")) and len(case["languages"]) >= 2
    if probe_detect:
        install_detect_probe()
        _state.events = []
    probe_chunks = bool(case.get("chunks"))
    if probe_chunks:
        install_chunk_probe()
        install_split_probe()
        _state.events = []
    for t_ in case.get("pre") or []:      # earlier searches of the same process (not judged here)
        try:
            search_dates(t_, languages=case.get("languages"), settings=decode_settings(case.get("settings")))
        except Exception:  # noqa
            pass
    _state.align_io = [] if probe_chunks else None
    try:
        r = search_dates(case["text"], languages=case.get("languages"), settings=st, add_detected_language=bool(case.get("withlang")))
    except BaseException as e:  # noqa
        res["exc"] = type(e).__name__
        res["msg"] = str(e)[:200]
        return res
    if probe_chunks:
        res["splits"] = []
        for e_ in [x for x in _state.events if x.get("ev") in ("splitby", "best")][:12] + [x for x in _state.events if x.get("ev") == "relbase" and x["rel"]][:4]:
            try:
                res["splits"].append(dict(project_splitby(e_), kind="splitby") if e_["ev"] == "splitby" else
                                     {"kind": "best", "cands": e_["cands"], "chosen": e_["chosen"]} if e_["ev"] == "best" else
                                     {"kind": "relbase", "rel": e_["rel"], "chosen": e_["chosen"]})
            except Exception as x:  # noqa
                res["splits_error"] = "%s: %s" % (type(x).__name__, x)
        res["aligns"] = []
        for io in (getattr(_state, "align_io", None) or [])[:6]:
            try:
                res["aligns"].append(project_align(io))
            except Exception as x:  # noqa
                res["aligns_error"] = "%s: %s" % (type(x).__name__, x)
        _state.align_io = None
        res["chunks"] = []
        for e_ in [x for x in _state.events if x.get("ev") == "tsearch"][-1:]:
            try:
                res["chunks"].append(project_chunks(e_))
            except Exception as x:  # noqa
                res["chunks_error"] = "%s: %s" % (type(x).__name__, x)
        if not probe_detect:
            _state.events = []
    if probe_detect:
        for e_ in [x for x in _state.events if x.get("ev") == "detect"][-1:]:
            try:
                res["detect"].append(project_detect(e_))
            except Exception as x:  # noqa: projection trouble is reported, not judged
                res["detect_error"] = "%s: %s" % (type(x).__name__, x)
        _state.events = []
    if r is None:
        res["isnone"] = True
        return res
    res["islist"] = isinstance(r, list)
    if not res["islist"]:
        return res
    squeeze = lambda s: _r.sub(r"\s+", "", s)      # noqa: E731  "up to whitespace"
    text = squeeze(case["text"])
    low = text.lower()
    pos = 0
    for h in r:
        ok = isinstance(h, tuple) and len(h) == (3 if case.get("withlang") else 2) and isinstance(h[0], str) and isinstance(h[1], _d.datetime)
        if not ok:
            res["hits"].append({"tuple": False, "blank": True, "first": -1, "seq": -1, "lang": "", "sub": repr(h)[:80]})
            continue
        sub = squeeze(h[0])
        first = text.find(sub)
        seq = text.find(sub, pos)
        if seq >= 0:
            pos = seq + max(1, len(sub))
        res["hits"].append({"tuple": True, "blank": h[0].strip() == "", "first": first, "seq": seq, "lang": h[2] if case.get("withlang") else "",
                            "sub": h[0][:80], "dt": dt_to_list(h[1].replace(tzinfo=None))})
    return res
