"""Worker side of the tokenization / translation refinement (spec/Tokenize.tla, spec/Translate.tla).

Run-time probes (no source hooks) around `Dictionary.split`, `Locale.translate` and
`Locale.is_applicable` record what the real code did during a public-API call; every event is then
PROJECTED onto the variables of the specification:

  * the text becomes character classes (computed with the `regex` engine, not with dateparser),
  * the vocabulary is NOT read from the Dictionary object: it is rebuilt from the locale's data by the
    model of the dictionary construction (c05lib._assignments, the token lists pinned there), ordered as the
    split regex's alternation (longest first, stable), and reduced to the words that occur in the text,
  * what the specification treats as environment (the locale's relative-phrase regexes) is evaluated here
    and passed along as an input.
TLC (T_Tokenize.tla) then recomputes tokens, validity and translation and compares."""

import threading

_state = threading.local()
_INST = {"done": False, "unbound": []}
KEEP = ["+", ":", ".", " ", "-", "/"]
_CLS = {}
_PAT = {}


def _events():
    ev = getattr(_state, "events", None)
    if ev is None:
        ev = _state.events = []
    return ev


def install():
    if _INST["done"]:
        return
    _INST["done"] = True
    try:
        from dateparser.languages.dictionary import Dictionary
        from dateparser.languages.locale import Locale
        o_split = Dictionary.split
        o_tr = Locale.translate
        o_app = Locale.is_applicable
    except Exception:
        _INST["unbound"].append("Dictionary.split / Locale.translate / Locale.is_applicable")
        return

    def split(self, string, keep_formatting=False):
        r = o_split(self, string, keep_formatting)
        try:
            _events().append({"ev": "split", "dict": self, "s": string, "keep": bool(keep_formatting), "out": list(r) if r else []})
        except Exception:
            pass
        return r

    def translate(self, date_string, keep_formatting=False, settings=None):
        n0 = len(_events())
        r = o_tr(self, date_string, keep_formatting, settings)
        ev = _events()
        nested = [e for e in ev[n0:] if e["ev"] == "split"]
        ev.append({"ev": "translate", "loc": self, "settings": settings, "keep": bool(keep_formatting), "split": nested[-1] if nested else None, "out": r})
        return r

    def is_applicable(self, date_string, strip_timezone=False, settings=None):
        n0 = len(_events())
        r = o_app(self, date_string, strip_timezone, settings)
        ev = _events()
        nested = [e for e in ev[n0:] if e["ev"] == "split"]
        ev.append({"ev": "applicable", "loc": self, "settings": settings, "split": nested[-1] if nested else None, "out": bool(r)})
        return r

    Dictionary.split = split
    Locale.translate = translate
    Locale.is_applicable = is_applicable


def _cls(ch):
    c = _CLS.get(ch)
    if c is None:
        import regex
        if regex.match(r"\d", ch, regex.U):
            c = "D"
        elif ch == "_":
            c = "U"
        elif regex.match(r"\w", ch, regex.U):
            c = "L"
        else:
            c = "N"
        _CLS[ch] = c
    return c


def _cp(s):
    return [ord(c) for c in s]


_VOC = {}


def vocabulary(loc, normalize, skip_tokens):
    """(alternation-ordered words, form -> value) rebuilt from the locale's DATA by the dictionary model"""
    key = (loc.shortname, bool(normalize), tuple(skip_tokens))
    v = _VOC.get(key)
    if v is None:
        from harness.c05lib import _assignments
        if normalize:
            dic, _ = _assignments(loc.info, True)
        else:
            dic = _assignments(loc.info, False)
        words = list(skip_tokens) + list(dic.keys())
        value = {f: ks[-1] for f, ks in dic.items()}
        srt = sorted(words, key=len, reverse=True)
        nospace = bool(eval(loc.info.get("no_word_spacing", "False")))
        v = _VOC[key] = (srt, value, nospace)
    return v


def _occ(words, text):
    """words that occur literally (case-insensitively, as the regex engine sees it) with their positions"""
    import regex
    out = []
    low = text.lower()
    for w in words:
        if not w:
            return None
        if w[0].isascii() and text.isascii() and w[0].lower() not in low:
            continue          # cheap prefilter for plain ASCII; everything else is decided by the engine below
        p = _PAT.get(w)
        if p is None:
            p = _PAT[w] = regex.compile(regex.escape(w), regex.I | regex.U)
        at = []
        for m in p.finditer(text, overlapped=True):
            if m.end() - m.start() != len(w):
                return None
            at.append(m.start() + 1)
        if at:
            out.append({"len": len(w), "at": at})
    return out


def split_record(e):
    d = e["dict"]
    s = e["s"]
    if not isinstance(s, str) or "\n" in s or "\r" in s or len(s) > 80:
        return None
    st = d._settings
    loc_like = type("L", (), {"shortname": d.info.get("name", "?") + "|" + str(id(d.info)), "info": d.info})
    normalize = type(d).__name__ == "NormalizedDictionary"
    words, value, nospace = vocabulary(loc_like, normalize, list(st.SKIP_TOKENS))
    try:
        pieces = d._get_split_relative_regex_cache().split(s) if s else []
        mrel = d._get_match_relative_regex_cache()
    except Exception:
        return None
    ps = []
    for p in pieces:
        if p is None:
            p = ""
        occ = _occ(words, p)
        if occ is None:
            return None
        ps.append({"cp": _cp(p), "cls": [_cls(c) for c in p], "kt": [c in KEEP for c in p], "occ": occ, "isrel": bool(mrel.match(p))})
    return {"kind": "split", "keep": e["keep"], "nospace": nospace, "pieces": ps, "out": [_cp(t) for t in e["out"]], "empty": s == ""}


def applicable_record(e):
    sp = e.get("split")
    if sp is None:
        return None
    d = sp["dict"]
    st = d._settings
    loc_like = type("L", (), {"shortname": d.info.get("name", "?") + "|" + str(id(d.info)), "info": d.info})
    normalize = type(d).__name__ == "NormalizedDictionary"
    words, value, nospace = vocabulary(loc_like, normalize, list(st.SKIP_TOKENS))
    try:
        mrel = d._get_match_relative_regex_cache()
    except Exception:
        return None
    known = set(value) | set(st.SKIP_TOKENS)
    toks = [{"keeptok": t in KEEP, "digits": t.isdigit(), "rel": bool(mrel.match(t)), "known": t in known} for t in sp["out"]]
    return {"kind": "applicable", "tok": toks, "out": e["out"]}


def _rel_translations(info, normalize):
    import regex
    from dateparser.utils import normalize_unicode
    out = []
    for key, value in (info.get("relative-type-regex") or {}).items():
        if normalize:
            value = [normalize_unicode(v) for v in value]
        pattern = "|".join(sorted(value, key=len, reverse=True)).replace(r"(\d+", r"(?P<n>\d+")
        out.append((regex.compile(r"^(?:%s)$" % pattern, regex.U | regex.I), key))
    return out


_RT = {}


def translate_record(e):
    sp = e.get("split")
    if sp is None or not isinstance(e["out"], str):
        return None
    d = sp["dict"]
    st = d._settings
    loc = e["loc"]
    normalize = type(d).__name__ == "NormalizedDictionary"
    loc_like = type("L", (), {"shortname": d.info.get("name", "?") + "|" + str(id(d.info)), "info": d.info})
    words, value, nospace = vocabulary(loc_like, normalize, list(st.SKIP_TOKENS))
    key = (id(d.info), normalize)
    rt = _RT.get(key)
    if rt is None:
        rt = _RT[key] = _rel_translations(d.info, normalize)
    toks = []
    for t in sp["out"]:
        low = t.lower()
        rel = None
        for pat, repl in rt:
            if pat.match(low):
                try:
                    rel = pat.sub(repl, low)
                except Exception:
                    return None
                break
        indict = low in value or low in st.SKIP_TOKENS
        val = None if low in st.SKIP_TOKENS else value.get(low)
        toks.append({"orig": _cp(t), "low": _cp(low), "hasrel": rel is not None, "rel": _cp(rel or ""), "indict": bool(indict),
                     "val": _cp(val or ""), "alpha": low.isalpha()})
    return {"kind": "translate", "keep": e["keep"], "toks": toks, "out": _cp(e["out"])}


def call_tok(case):
    """case: {s, via: languages|locales, name, settings, formats} -> projected records of every tokenization event"""
    from harness.lib import decode_settings
    install()
    _state.events = []
    st = decode_settings(case.get("settings") or {})
    res = {"exc": "", "records": [], "skipped": 0, "unbound": list(_INST["unbound"]), "parsed": False}
    try:
        from dateparser.date import DateDataParser
        p = DateDataParser(settings=st, **{case.get("via", "languages"): [case["name"]]})
        dd = p.get_date_data(case["s"], date_formats=case.get("formats"))
        res["parsed"] = dd["date_obj"] is not None
    except BaseException as e:  # noqa
        res["exc"] = type(e).__name__
    seen = set()
    for e in _state.events:
        try:
            r = {"split": split_record, "applicable": applicable_record, "translate": translate_record}[e["ev"]](e)
        except Exception as x:  # projection failure is machinery, reported by the caller
            res["unbound"].append("projection: %s: %s" % (type(x).__name__, x))
            r = None
        if r is None:
            res["skipped"] += 1
            continue
        import json
        k = json.dumps(r, sort_keys=True)
        if k in seen:
            continue
        seen.add(k)
        res["records"].append(r)
    _state.events = []
    return res


# ----------------------------------------------------------------------------- synthetic dictionaries (small alphabet)
def call_synthetic(req):
    """req: {words: [...], nospace: bool, texts: [...]} -> split records (both keep modes) of a Dictionary built from a
    synthetic locale whose only vocabulary is `words` (as skip words)"""
    from dateparser.conf import Settings
    from dateparser.languages.dictionary import Dictionary
    info = {"name": "syn-%s-%d" % ("".join("%02x" % ord(c) for w in req["words"] for c in w + "|"), int(req["nospace"])), "skip": list(req["words"]),
            "no_word_spacing": "True" if req["nospace"] else "False"}
    d = Dictionary(info, settings=Settings())
    out = []
    for t in req["texts"]:
        for keep in (False, True):
            try:
                r = d.split(t, keep)
                e = {"dict": d, "s": t, "keep": keep, "out": list(r) if r else []}
                rec = split_record(e)
            except BaseException as x:  # noqa
                rec = {"kind": "error", "exc": type(x).__name__}
            if rec is not None:
                rec["text"] = t
                rec["words"] = req["words"]
                out.append(rec)
    return out
