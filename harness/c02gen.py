"""Case generation for C02 / C17: strings built along the token shapes of the specification's
alphabets (numbers incl. boundary values, separators, clock tokens, month / weekday / unit words of many
languages, timezone spellings), mutations of real date strings, arbitrary Unicode; settings pools with
boundary values; language / locale / region choices; date_formats of distinct directives."""

import random

NUMS = ["0", "00", "1", "01", "9", "12", "13", "28", "29", "30", "31", "32", "59", "60", "61", "99", "100", "365", "999", "1000", "1969",
        "1970", "2000", "2015", "2038", "9998", "9999", "10000", "0000", "0001", "99999", "1234567890", "9999999999", "0999999999",
        "1500000000123", "1500000000123456", "12345678901234567", "20150305", "201503051030", "150305"]
SEPS = [" ", "  ", "-", "/", ".", ",", ", ", ":", ";", "T", "t", "'", "’", " ", "\t", "\n", " - ", "\\", "|", "(", ")", "[", "]",
        "+", "@", "#", "--", "..", "::", " at ", " on ", " of ", " the "]
CLOCK = ["10:30", "23:59:59", "00:00", "24:00", "12:60", "1:2:3", "10:30:15.123456", "10:30:15.1234567", "10.30", "10h30", "7 pm", "12 am",
         "0 am", "13 pm", "10:30 PM", "noon", "midnight", "10:30:", ":30", "10::30", "25:00"]
TZS = ["UTC", "GMT", "Z", "EST", "PST", "CEST", "+0530", "-0500", "+05:30", "UTC+14", "UTC-12", "GMT+1", "+9999", "-00:00", "(CET)", "AKST",
       "+1400", "-1200", "UTC+05:45"]
WORDS_EN = ["january", "Feb", "march", "Apr", "may", "june", "jul", "August", "sept", "oct", "Nov", "december", "monday", "Tue", "wednesday",
            "thu", "friday", "sat", "Sunday", "today", "yesterday", "tomorrow", "now", "ago", "in", "last", "next", "this", "year", "years",
            "month", "months", "week", "day", "days", "hour", "hours", "minute", "min", "second", "sec", "decade", "decades", "am", "pm", "a",
            "an", "one", "two", "twelve", "st", "nd", "rd", "th", "of", "the", "at", "on", "from", "before", "after", "later", "less", "than"]
FOREIGN = ["janvier", "février", "hier", "demain", "il y a", "lundi", "märz", "gestern", "vor", "Tagen", "enero", "ayer", "hace", "días",
           "января", "вчера", "назад", "дня", "понедельник", "一月", "昨天", "前", "年", "月", "日", "時", "分", "午後", "يناير", "أمس", "منذ",
           "फ़रवरी", "कल", "มกราคม", "เมื่อวาน", "사월", "어제", "ינואר", "אתמול", "jan.", "févr.", "Şubat", "dün", "önce", "gennaio", "ieri",
           "fa", "styczeń", "wczoraj", "temu", "ཟླ་༡", "၁", "۱۳۹۴", "١٢", "१२", "１２", "上個月", "先月", "kahapon", "lalu", "minggu"]
UNICODE = ["‎", "‏", "»", "·", "َ", "﻿", "́", "\U0001f600", "\x00", "\x7f", " ", "퟿", "￿",
           "ß", "İ", "ı", "ǅ", "ﬁ", "Ⅻ", "²", "½", "٪", "〇", "٠", "۰", "%", "%Y", "{0}", "\\1", "(?i)", "[a-z]", ".*", "^$"]
REAL = ["2015-03-05 10:30:15", "March 5, 2015", "5 March 2015 10:30 PM", "Tue, 05 Mar 2015 10:30:15 +0000", "1 year, 2 months ago",
        "in 3 days", "yesterday at 10:30", "il y a 2 jours", "vor 3 Tagen", "hace 2 días", "2 дня назад", "3天前", "1500000000", "-1500000000",
        "12 janvier 2015", "5 февраля 2015 г.", "٢٠١٥/٠٣/٠٥", "२०१५-०३-०५", "2015年3月5日", "13.11.2015. u 10:30", "Monday", "10:30",
        "March", "15 March", "03/15/30", "9999-12-31 23:59 -0500", "0001-01-01 00:00 +1400", "31 February 2015", "29 Feb 2015", "Feb 29",
        "20150305T103015Z", "2015-W10-4", "Q1 2015", "5th of March, 2015", "on: 5 March 2015", "1.5 hours ago", "in 5000 years",
        "5000 years ago", "99999 days ago", "0 seconds ago", "a minute ago", "less than 1 minute ago"]


SIGNS = ["-", "\u2212", "\u2013", "\u2014", "\u2010", "\u2011", "\ufe63", "\uff0d", "+", "\uff0b", "\u00b1", "~"]
COLONS = [":", "\uff1a", "\u2236", "\ua789", ".", "h", "\u02d0"]
DIGIT_SCRIPTS = ["0123456789", "\u0660\u0661\u0662\u0663\u0664\u0665\u0666\u0667\u0668\u0669", "\uff10\uff11\uff12\uff13\uff14\uff15\uff16\uff17\uff18\uff19",
                 "\u0966\u0967\u0968\u0969\u096a\u096b\u096c\u096d\u096e\u096f"]


def gate_string(rng):
    """strings shaped to pass the ENTRY regexes of the individual parsers (epoch numbers of exactly 10 / 13 / 16 digits,
    clock times, numeric offsets) but written with look-alike signs, colons and digits of other scripts"""
    ds = rng.choice(DIGIT_SCRIPTS) if rng.random() < 0.4 else DIGIT_SCRIPTS[0]
    num = lambda n: "".join(ds[rng.randrange(10)] for _ in range(n))      # noqa: E731
    r = rng.random()
    if r < 0.5:
        body = rng.choice(["", "", rng.choice(SIGNS)]) + num(rng.choice([10, 13, 16, 9, 11, 12, 14, 17]))
        if rng.random() < 0.4:
            body += rng.choice([".", ",", " ", ". ", "\u066b"]) + num(rng.randint(1, 7))
        return body
    if r < 0.75:
        c = rng.choice(COLONS)
        return "%s%s%s%s" % (num(rng.randint(1, 2)), c, num(2), rng.choice(["", c + num(2), c + num(2) + rng.choice([".", ","]) + num(rng.randint(1, 7)), " pm", "am"]))
    return "2015-03-05 10:30 %s%s%s%s%s" % (rng.choice(["", "UTC", "GMT", "utc "]), rng.choice(SIGNS), num(2), rng.choice(["", ":", "\uff1a"]), rng.choice(["", num(2)]))


FOLD = {"s": ["\u017f"], "k": ["\u212a"], "i": ["\u0131", "\u0130"], "a": ["\u00aa", "\uff41"], "o": ["\u00ba", "\uff4f"], "e": ["\uff45", "\u0435"],
        "n": ["\uff4e"], "d": ["\uff44"], "m": ["\uff4d"], "u": ["\u00b5"], "y": ["\u0443"], "c": ["\u0441"], "h": ["\u04bb"], "t": ["\uff54"]}
KEYWORDS = ["second", "seconds", "minute", "hour", "hours", "day", "days", "week", "month", "year", "years", "decade", "ago", "in", "am", "pm", "utc", "gmt",
            "january", "march", "monday", "yesterday", "today", "now", "noon", "midnight"]


def fold_string(rng):
    """a number next to one of the parser's own keywords, one letter of which is replaced by a character that case
    folding or compatibility normalisation maps onto it (long s, Kelvin sign, dotless i, full-width and Cyrillic
    look-alikes): the regexes of one stage may accept what the next stage does not know"""
    w = rng.choice(KEYWORDS)
    pos = [i for i, ch in enumerate(w) if ch in FOLD]
    if pos:
        i = rng.choice(pos)
        w = w[:i] + rng.choice(FOLD[w[i]]) + w[i + 1:]
    if rng.random() < 0.3:
        w = w.upper()
    n = rng.choice(["5", "1", "2.5", "12", "0", "1,5"])
    return rng.choice(["%s %s" % (n, w), "%s %s ago" % (n, w), "in %s %s" % (n, w), "%s%s" % (n, w), w, "%s %s 2015" % (n, w), "10:30 %s" % w])


def fold_strings_all():
    """every keyword x every foldable letter x every look-alike x the number / phrase shapes (a finite family: enumerated)"""
    out = []
    for w in KEYWORDS:
        for i, ch in enumerate(w):
            for rep in FOLD.get(ch, []):
                v = w[:i] + rep + w[i + 1:]
                for shape in ("5 %s", "5 %s ago", "in 5 %s", "%s", "12 %s 2015", "10:30 %s"):
                    out.append(shape % v)
    return out


ZONE_WORDS = ["UTC", "GMT", "Z", "EST", "PST", "CET", "CEST", "MSK", "IST", "AKST", "NPT", "PKT", "JST", "WET", "EET", "BST", "CST", "EDT", "HST", "AEST", "ACDT", "UZT"]
BODIES_TZ = ["Mon, 12 Jan 2020 10:00:00", "12 Jan 2020 10:00", "2020-01-12 10:00:00", "January 12, 2020 10:00 PM", "10:00", "12/01/2020 10:00", "yesterday 10:00",
             "2 hours ago", "Thu Mar 05 2015 10:11:12"]


def zone_string(rng):
    """a date-time followed by something that LOOKS like a zone: an abbreviation of the table with a character added,
    removed or re-cased, alone, in parentheses, after a numeric offset, glued to the time - the several places that
    decide "is this a timezone?" (prefix match, whole-word match, case) may disagree about such words"""
    w = rng.choice(ZONE_WORDS)
    r = rng.random()
    if r < 0.3:
        w = w + rng.choice("xsZ8t0.")
    elif r < 0.4:
        w = rng.choice("xAa1") + w
    elif r < 0.5 and len(w) > 2:
        w = w[:-1]
    elif r < 0.6:
        w = w.lower() if rng.random() < 0.5 else w.capitalize() + rng.choice(["", "ulu", "ime"])
    elif r < 0.7:
        w = w + rng.choice(["+8", "-5", "+0530", "8", "+25", "-1500", "+05:60"])
    off = rng.choice(["+0800", "-0800", "+05:30", "-03:30", "+0000", "+1400", "-0530", "+9999", "GMT+0800", "UTC-05:00", "GMT+1", ""])
    shape = rng.choice(["%(b)s %(o)s (%(w)s)", "%(b)s %(o)s(%(w)s)", "%(b)s (%(w)s)", "%(b)s %(w)s", "%(b)s%(w)s", "%(b)s %(w)s %(o)s", "%(b)s %(o)s %(w)s", "%(w)s %(b)s",
                        "%(b)s %(o)s (%(w)s) 2020", "%(b)s %(o)s [%(w)s]", "%(b)s %(o)s (%(w)s %(w)s)"])
    return " ".join((shape % {"b": rng.choice(BODIES_TZ), "o": off, "w": w}).split())


def gen_string(rng, maxlen=100):
    r = rng.random()
    if r < 0.08:
        return (gate_string(rng) if rng.random() < 0.7 else fold_string(rng))[:maxlen]
    if r < 0.13:
        return zone_string(rng)[:maxlen]
    if r < 0.25:        # token soup along the model's alphabets
        n = rng.randint(1, 7)
        parts = []
        for _ in range(n):
            pool = rng.choice([NUMS, NUMS, CLOCK, WORDS_EN, WORDS_EN, FOREIGN, TZS, UNICODE])
            parts.append(rng.choice(pool))
            parts.append(rng.choice(SEPS))
        s = "".join(parts[:-1]) if rng.random() < 0.8 else "".join(parts)
    elif r < 0.65:      # mutate a real date string
        s = rng.choice(REAL)
        for _ in range(rng.randint(0, 3)):
            op = rng.randrange(6)
            if op == 0 and s:
                i = rng.randrange(len(s))
                s = s[:i] + s[i + 1:]
            elif op == 1:
                i = rng.randrange(len(s) + 1)
                s = s[:i] + rng.choice(NUMS + SEPS + WORDS_EN + FOREIGN + UNICODE + TZS + CLOCK) + s[i:]
            elif op == 2 and s:
                i = rng.randrange(len(s))
                s = s[:i] + rng.choice("0123456789:-/. +") + s[i + 1:]
            elif op == 3:
                s = s + rng.choice(SEPS) + rng.choice(REAL)
            elif op == 4:
                s = s.upper() if rng.random() < 0.5 else s.swapcase()
            else:
                s = rng.choice(SEPS) + s + rng.choice(SEPS)
    elif r < 0.8:       # digit / separator soup
        s = "".join(rng.choice("0123456789" * 3 + ":-/. ,+") for _ in range(rng.randint(1, 30)))
    elif r < 0.9:       # arbitrary Unicode
        s = "".join(chr(rng.choice([rng.randint(32, 126), rng.randint(0xa0, 0x24ff), rng.randint(0x3040, 0x30ff), rng.randint(0x4e00, 0x4fff),
                                    rng.randint(0x600, 0x6ff), rng.randint(0x900, 0x97f), rng.randint(0x1f300, 0x1f5ff)]))
                    for _ in range(rng.randint(0, 40)))
    else:
        s = rng.choice(["", " ", "\n", ":", ".", "-", "0", "+", "am", "pm", "t", "T", "in", "ago", "a", "٠", "年"])
    return s[:maxlen]


def settings_pool(rng, n=40):
    import pytz
    zones = ["UTC", "local", "Asia/Kolkata", "US/Eastern", "Europe/Berlin", "Pacific/Kiritimati", "Pacific/Pago_Pago", "America/St_Johns",
             "Australia/Lord_Howe", "EST", "+0530", "UTC-12:00", "UTC+14:00", "PST", "Asia/Kathmandu"] + rng.sample(list(pytz.common_timezones), 6)
    bases = [[1, 1, 1, 0, 0, 0, 0], [1, 1, 1, 0, 0, 1, 0], [9999, 12, 31, 23, 59, 59, 999999], [9999, 12, 31, 0, 0, 0, 0], [2021, 11, 7, 1, 30, 0, 0],
             [2021, 3, 14, 2, 30, 0, 0], [2020, 2, 29, 12, 0, 0, 0], [1970, 1, 1, 0, 0, 0, 0], [2038, 1, 19, 3, 14, 8, 0], [1, 1, 2, 0, 0, 0, 0],
             {"dt": [2021, 6, 15, 12, 0, 0, 0], "tz": "UTC"}, {"dt": [2021, 6, 15, 12, 0, 0, 0], "tz": 50400}, {"dt": [1, 1, 1, 12, 0, 0, 0], "tz": -43200},
             {"dt": [9999, 12, 31, 12, 0, 0, 0], "tz": 50400}]
    parsers = ["timestamp", "relative-time", "custom-formats", "absolute-time", "no-spaces-time", "negative-timestamp"]
    pool = [None, {}]
    while len(pool) < n:
        st = {}
        for key, gen in [
            ("DATE_ORDER", lambda: rng.choice(["DMY", "DYM", "MDY", "MYD", "YDM", "YMD"])),
            ("PREFER_LOCALE_DATE_ORDER", lambda: rng.random() < 0.5),
            ("TIMEZONE", lambda: rng.choice(zones)),
            ("TO_TIMEZONE", lambda: rng.choice([z for z in zones if z != "local"])),
            ("RETURN_AS_TIMEZONE_AWARE", lambda: rng.random() < 0.5),
            ("PREFER_MONTH_OF_YEAR", lambda: rng.choice(["current", "first", "last"])),
            ("PREFER_DAY_OF_MONTH", lambda: rng.choice(["current", "first", "last"])),
            ("PREFER_DATES_FROM", lambda: rng.choice(["current_period", "past", "future"])),
            ("RELATIVE_BASE", lambda: rng.choice(bases)),
            ("STRICT_PARSING", lambda: rng.random() < 0.5),
            ("REQUIRE_PARTS", lambda: rng.sample(["day", "month", "year"], rng.randint(0, 3))),
            ("SKIP_TOKENS", lambda: rng.sample(["t", "foo", "at", ":", "1", "am", "·"], rng.randint(0, 3))),
            ("NORMALIZE", lambda: rng.random() < 0.5),
            ("RETURN_TIME_AS_PERIOD", lambda: rng.random() < 0.5),
            ("PARSERS", lambda: rng.sample(parsers, rng.randint(1, 6))),
            ("DEFAULT_LANGUAGES", lambda: rng.sample(["en", "fr", "ru", "zh", "ar", "hi", "tl", "yue"], rng.randint(0, 2))),
            ("LANGUAGE_DETECTION_CONFIDENCE_THRESHOLD", lambda: rng.choice([0.0, 0.5, 1.0])),
            ("CACHE_SIZE_LIMIT", lambda: rng.choice([0, 1, 2, 1000, -1, 10 ** 9])),
        ]:
            if rng.random() < 0.22:
                st[key] = gen()
        pool.append(st)
    return pool


INVALID_SETTINGS = [
    {"UNKNOWN_SETTING": 1}, {"DATE_ORDER": "XYZ"}, {"DATE_ORDER": 5}, {"TIMEZONE": 5}, {"TO_TIMEZONE": 5.5}, {"RETURN_AS_TIMEZONE_AWARE": "yes"},
    {"PREFER_MONTH_OF_YEAR": "middle"}, {"PREFER_DAY_OF_MONTH": 1}, {"PREFER_DATES_FROM": "now"}, {"RELATIVE_BASE": "2015-01-01"},
    {"RELATIVE_BASE": 0}, {"STRICT_PARSING": "no"}, {"REQUIRE_PARTS": ["week"]}, {"REQUIRE_PARTS": "day"}, {"REQUIRE_PARTS": ["day", "day"]},
    {"SKIP_TOKENS": "t"}, {"NORMALIZE": 1}, {"RETURN_TIME_AS_PERIOD": None}, {"PARSERS": ["absolute-time", "sometimes"]}, {"PARSERS": "absolute-time"},
    {"PARSERS": ["absolute-time", "absolute-time"]}, {"DEFAULT_LANGUAGES": ["xx"]}, {"DEFAULT_LANGUAGES": "en"}, {"DEFAULT_LANGUAGES": ["en", "en"]},
    {"LANGUAGE_DETECTION_CONFIDENCE_THRESHOLD": 2.0}, {"LANGUAGE_DETECTION_CONFIDENCE_THRESHOLD": "high"}, {"CACHE_SIZE_LIMIT": "big"},
    {"PREFER_LOCALE_DATE_ORDER": "true"}, {"DATE_ORDER": None}, {"FUZZY": "x"},
]
# near misses of every documented value of the enumerated settings (case variants, padding, prefixes)
_ENUMS = {"DATE_ORDER": ["DMY", "DYM", "MDY", "MYD", "YDM", "YMD"], "PREFER_MONTH_OF_YEAR": ["current", "first", "last"],
          "PREFER_DAY_OF_MONTH": ["current", "first", "last"], "PREFER_DATES_FROM": ["current_period", "past", "future"]}
for _k, _vals in _ENUMS.items():
    for _v in _vals:
        for _bad in {_v.lower(), _v.upper(), _v.title(), _v + " ", " " + _v, _v[:-1], _v + _v[-1]} - set(_vals):
            INVALID_SETTINGS.append({_k: _bad})
INVALID_SETTINGS += [{"PREFER_DATES_FROM": "current"}, {"PREFER_DAY_OF_MONTH": "current_period"}, {"DATE_ORDER": "DDMMYY"},
                     {"REQUIRE_PARTS": ["Day"]}, {"PARSERS": ["Absolute-Time"]}, {"DEFAULT_LANGUAGES": ["EN"]}, {"TIMEZONE": None},
                     {"STRICT_PARSING": 1}, {"NORMALIZE": "False"}, {"CACHE_SIZE_LIMIT": 10.5}, {"CACHE_SIZE_LIMIT": "10"}]

DIRECTIVES = ["%Y", "%y", "%m", "%d", "%B", "%b", "%A", "%a", "%H", "%I", "%M", "%S", "%f", "%p", "%j", "%z", "%Z", "%U", "%w", "%%"]


def gen_formats(rng):
    if rng.random() < 0.6:
        return None
    out = []
    for _ in range(rng.randint(1, 3)):
        ds = rng.sample(DIRECTIVES, rng.randint(1, 6))
        out.append(rng.choice(["", " "]).join(d + rng.choice(["", " ", "-", "/", ":", ".", ", "]) for d in ds).strip())
    return out
