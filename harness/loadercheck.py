"""The locale loader against spec/Loader.tla / LoaderOps.tla.

E1  P_Loader: every sequence of calls over a small world (3 languages, 6 regional names, regions that only some of the
    languages have): CacheConsistent, NoNamelessLocale, HistoryFree, EveryLanguageServed.  The pinned pairing (zip of
    the filtered names with the unfiltered languages) is run too and MUST be refuted.
E3  real call sequences (languages / locales / region / use_given_order, also invalid ones) in worker processes; a probe
    records every `_load_data` call; T_Loader replays them on the model's cache with the real priority order and the
    real table of regional names."""

from . import core

P_CFG = """SPECIFICATION Spec
CONSTANTS
  Paired = %s
  MaxCalls = %d
  Order <- MCOrder
  ValidLocales <- MCLocales
INVARIANT CacheConsistent
INVARIANT NoNamelessLocale
INVARIANT HistoryFree
INVARIANT EveryLanguageServed
CHECK_DEADLOCK FALSE
"""


def run(ctx, LX, W):
    rng = ctx.rng
    mc = ctx.tlc("P_Loader", P_CFG % ("TRUE", 2 if ctx.quick() else 3), name="P_Loader_repaired", timeout=1800)
    mc.require_clean()
    for inv in mc.invariant_violated:
        ctx.violation({"tlc_counterexample": mc.counterexample()[-2:]}, "TLC refuted %s on the repaired loader design" % inv)
    pinned = ctx.tlc("P_Loader", P_CFG % ("FALSE", 2), name="P_Loader_pinned", timeout=600)
    if not pinned.invariant_violated:
        raise core.Machinery("the pinned pairing of the loader is not refuted")
    order = W["order"]
    import re
    split = re.compile(r"-(?=[A-Z0-9]+$)")
    names = []
    for L in order:
        for loc in LX[L]["locales"]:
            p = split.split(loc)
            if len(p) == 2:
                names.append([p[0], p[1]])
    regions = sorted({n[1] for n in names})
    word = {L: next((m for m in W["langs"][L]["months"] if m), "x") for L in order}
    seqs = []
    for _ in range(60 if ctx.quick() else 1500):
        calls = []
        fam = rng.sample(order, 4) + ["en", "fr", "es", "de", "pt", "zh-Hans", "sr-Latn", "ar"]
        for _ in range(rng.randint(3, 8)):
            r = rng.random()
            kw = {}
            if r < 0.45:
                ls = rng.sample(fam, rng.randint(1, 3))
                kw["languages"] = ls
                if rng.random() < 0.6:
                    cand = [n[1] for n in names if n[0] in ls]
                    kw["region"] = rng.choice(cand + regions[:3] + ["ZZ"]) if cand else rng.choice(regions + ["ZZ"])
            elif r < 0.85:
                pool = [loc for L in fam for loc in LX[L]["locales"]] + fam
                kw["locales"] = rng.sample(pool, min(len(pool), rng.randint(1, 3)))
                if rng.random() < 0.1:
                    kw["locales"].append(rng.choice(["xx-YY", "en-ZZ", "fr-AU"]))
            else:
                kw["languages"] = rng.sample(fam, 2) + ([rng.choice(["xx", "EN"])] if rng.random() < 0.3 else [])
            if rng.random() < 0.4:
                kw["use_given_order"] = True
            L0 = (kw.get("languages") or [split.split(kw["locales"][0])[0]])[0]
            calls.append({"kw": kw, "s": rng.choice(["1 %s 2020" % word.get(L0, "x"), "01/02/2020", "zzz"])})
        seqs.append({"calls": calls})
    res = core.run_cases(ctx, "harness.loaderlib", "call_sequence", seqs, chunk=4)
    # one trace per SEQUENCE would need a fresh process each; the cache is process-wide, so the trace of a worker is
    # the concatenation of its sequences in execution order: run_cases deals them round-robin, worker k gets k, k+n, ...
    nproc = min(core.NCPU, len(seqs))
    traces = []
    for k in range(nproc):
        ev = []
        for i in range(k, len(seqs), nproc):
            ev.extend(res[i]["ev"])
        traces.append({"tid": k, "ev": ev})
    unbound = sorted({u for r in res for u in r["unbound"]})
    hdr = {"tid": -1, "order": order, "locales": names}
    fn = ctx.path("traces", "loader.ndjson")
    import json
    with open(fn, "w") as f:
        f.write(json.dumps(hdr) + "\n")
        for t in traces:
            f.write(json.dumps(t) + "\n")
    tres = ctx.tlc("T_Loader", "SPECIFICATION TSpec\nPOSTCONDITION Consumed\nCHECK_DEADLOCK FALSE\n", env={"TRACE_FILE": fn}, workers=1, name="T_Loader", timeout=1800, heap="4g")
    tres.require_clean()
    nrej = 0
    for t in tres.tuples("REJECT"):
        nrej += 1
        if nrej <= 8:
            tid, i = t[1], t[3]
            e = traces[tid]["ev"][i - 1] if isinstance(i, int) and 0 < i <= len(traces[tid]["ev"]) else None
            ctx.note_drift("Loader", {"worker_trace": tid, "event": i, "call": e, "model": t[4]})
    if unbound:
        ctx.notes.append({"loader_probe_unbound": unbound})
    return {"model_states": mc.distinct, "pinned_pairing_refuted": pinned.invariant_violated, "call_sequences": len(seqs),
            "load_events": sum(len(t["ev"]) for t in traces), "autodetection_events_not_replayed": sum(r["dropped"] for r in res),
            "rejected": nrej, "probe_unbound": unbound}
