"""C19 - import survives a missing, empty or truncated on-disk timezone cache.

E2 (fault enumeration on a private package copy made from the working tree): every chosen prefix
   length of the shipped cache, missing file, unreadable contents; kill points inside the writer;
   a second importer run to completion while the first is inside its write; real `import dateparser`
   subprocesses.  Runtime probes log the loader's steps.
E3: every recorded execution is validated by TLC as a behaviour of spec/TzCache.tla (T_C19.tla) with
   the property's invariants evaluated in every state.
E1: TLC model-checks TzCache (1 crasher, 2 importers, every initial file class, all interleavings,
   liveness under fairness) with CatchSet / GarbageRaises as MEASURED on the real loader."""

import json
import os
import random

from .. import core

LEVEL = "fault_enumeration"

MC_CFG = """SPECIFICATION Spec
CONSTANTS
  Crashers = {c1}
  Importers = {i1, i2, i3}
  Late = {i3}
  Chunks = %d
  CatchSet = {%s}
  GarbageRaises = {%s}
  InitFiles = {"missing", "empty", "trunc", "complete", "garbage"}
INVARIANT ImportSucceeds
INVARIANT SameTable
INVARIANT RepairedAfterImport
PROPERTY EventuallyComplete
CHECK_DEADLOCK FALSE
"""
T_CFG = """SPECIFICATION TSpec
CONSTANTS
  Crashers = {c1}
  Importers = {i1}
  Late = {i1}
  Chunks = %d
  CatchSet = {%s}
  GarbageRaises = {%s}
  InitFiles = {"missing"}
INVARIANT Progress
CHECK_DEADLOCK FALSE
"""


def sset(xs):
    return ", ".join('"%s"' % x for x in sorted(xs))


def run(ctx):
    rng = ctx.rng
    snap = ctx.snapshot()
    cache = os.path.join(snap, "dateparser", "data", "dateparser_tz_cache.pkl")
    N = os.path.getsize(cache) if os.path.exists(cache) else 0
    if N == 0:
        ctx.violation({"file": "dateparser/data/dateparser_tz_cache.pkl"}, "the shipped cache file is missing or empty")
    # ---------------- cases
    ks = set(range(0, min(N, 257))) | set(range(max(0, N - 256), N + 1))
    step = 128 if ctx.quick() else 4
    ks |= set(range(0, N, step))
    ks |= {rng.randrange(N) for _ in range(300 if ctx.quick() else 5000)} if N else set()
    cases = [{"kind": "prefix", "k": k} for k in sorted(ks)]
    if ctx.replay:
        cases = core.replay_cases(ctx)
    else:
        cases.append({"kind": "missing"})
        r2 = random.Random(ctx.seed + 1)
        garb = [b"garbage", b"\x00" * 4096, bytes(r2.randrange(256) for _ in range(2048)), b"\x80\x05N.", b"\x80\x05]\x94(K\x01K\x02K\x03e.",
                b"\x80\x05\x95\xff\xff\xff\xff\xff\xff\xff\x7f", b"not a pickle\n" * 100, b"\x80\x05\x8c\x03abc\x94."]
        import pickle as _pk
        # well-formed pickles that are not a cache: objects of the wrong shape (anything that does not unpack into the
        # four cached values); sequences of exactly four items are left out - the loader cannot tell them from a cache
        for obj in [(), (1,), (1, 2), (1, 2, 3), (1, 2, 3, 4, 5), tuple(range(9)), [], [1, 2, 3, 4, 5], {"a": 1}, {}, 7, 3.5, True, b"xy", "abcde", frozenset([1, 2]),
                    (None, [], None), ((1, 2, 3, 4),), {"hash": 1, "offsets": [], "regex": None, "regex_ic": None, "x": 0}]:
            for proto in (2, 4, 5):
                garb.append(_pk.dumps(obj, protocol=proto))
        garb += [bytes(r2.randrange(256) for _ in range(r2.randrange(1, 600))) for _ in range(12 if ctx.quick() else 200)]
        cases += [{"kind": "garbage", "hex": g.hex()} for g in garb]
    results = core.run_cases(ctx, "harness.c19lib", "case", cases, chunk=20)
    if any(r.get("unbound") for r in results):
        ctx.notes.append("_load_offsets not reachable by name: in-process enumeration skipped, subprocess imports only")
        results = [r for r in results if not r.get("unbound")]
        cases = []
    # number of write calls of one rewrite, classes seen
    W = max([sum(1 for e in r.get("events", []) if e["ev"] == "write") for r in results] + [0])
    caught, escaped, raised = set(), set(), set()

    def scan(evs, outcome):
        for i, e in enumerate(evs):
            if e["ev"] == "load" and e["cls"]:
                raised.add(e["cls"])
                (caught if i + 1 < len(evs) else escaped).add(e["cls"])
            if e["ev"] == "open_r" and not e["ok"]:
                (caught if i + 1 < len(evs) else escaped).add("FileNotFoundError")

    for r in results:
        scan(r.get("events", []), r.get("first"))
    # ---------------- more fault cases that need W
    extra = []
    if not ctx.replay and cases:
        extra += [{"kind": "kill", "after_writes": n} for n in range(0, W + 1)]
        starts = [{"kind": "missing"}, {"kind": "prefix", "k": 0}, {"kind": "prefix", "k": N // 2}]
        for st in starts:
            for n in range(0, W):
                extra.append({"kind": "race", "start": st, "pause_after": n})
        for st in [{"kind": "missing"}, {"kind": "prefix", "k": 0}, {"kind": "prefix", "k": 1000}, {"kind": "prefix", "k": N - 1},
                   {"kind": "garbage", "hex": b"garbage".hex()}, {"kind": "prefix", "k": N}]:
            extra.append({"kind": "subprocess", "start": st})
            # the same states met by an import in another environment: BUILD_TZ_CACHE set (the documented way to regenerate
            # the cache - a run that was interrupted leaves exactly these states behind), optimised byte code
            # ... an interpreter that turns warnings into errors (python -W error, a test run with filterwarnings=error)
            for env_ in ({"BUILD_TZ_CACHE": "1"}, {"BUILD_TZ_CACHE": ""}, {"PYTHONOPTIMIZE": "2"}, {"PYTHONWARNINGS": "error"}):
                extra.append({"kind": "subprocess", "start": st, "env": env_})
        if not ctx.quick():
            extra += [{"kind": "subprocess", "start": {"kind": "prefix", "k": rng.randrange(N)}} for _ in range(100)]
    if not cases and not ctx.replay:     # loader unreachable: subprocess only
        extra = [{"kind": "subprocess", "start": {"kind": "prefix", "k": k}} for k in sorted(rng.sample(sorted(ks), 200))]
    xres = core.run_cases(ctx, "harness.c19lib", "case", extra, chunk=2) if extra else []
    for r in xres:
        scan(r.get("events", []), r.get("first"))
    cases_all, results_all = cases + extra, results + xres

    # ---------------- property on observations (content-judged), every execution
    nontrivial = set()
    for c, r in zip(cases_all, results_all):
        bad = []
        if r["kind"] in ("prefix", "missing", "garbage"):
            if r["first"] != "":
                bad.append("import raised %s" % r["first"])
            elif r["table"] != "same":
                bad.append("timezone table after import: %s" % r["table"])
            elif r["post"] != "complete":
                bad.append("cache file after import: %s" % r["post"])
            elif r["second"] != "" or r["post2"] != "complete":
                bad.append("second load: raised=%r file=%s" % (r["second"], r["post2"]))
            if r["init"] != "complete":
                nontrivial.add(json.dumps(c, sort_keys=True))
        elif r["kind"] == "kill":
            if r["first"] != "" or r["table"] != "same" or r["post"] != "complete":
                bad.append("after a writer killed at write %d (file then: %s): import raised=%r table=%s file=%s" % (
                    c["after_writes"], r["mid"], r["first"], r["table"], r["post"]))
            nontrivial.add(json.dumps(c, sort_keys=True))
        elif r["kind"] == "race":
            if r["first"] != "" or r["second_rc"] != 0 or r["third"] != "" or r["post3"] != "complete" or r["table"] != "same":
                bad.append("two overlapping importers then a third: first raised=%r, second exit=%r (%s), file after both=%s, third raised=%r, file afterwards=%s" % (
                    r["first"], r["second_rc"], r["second_err"], r["post"], r["third"], r["post3"]))
            nontrivial.add(json.dumps(c, sort_keys=True))
        elif r["kind"] == "subprocess":
            if r["rc"] != 0 or r["post"] != "complete":
                bad.append("`import dateparser` exit=%r (%s), file afterwards=%s" % (r["rc"], r["err"], r["post"]))
            nontrivial.add(json.dumps(c, sort_keys=True))
        for b in bad:
            ctx.violation({"fault": c, "package_copy": "private copy of the working tree's package"}, b,
                          expected="import succeeds, same table, cache complete afterwards", observed=r.get("first", r.get("err")),
                          extra={"full_case": c})

    # ---------------- E3: traces against the spec
    traces = []
    for i, r in enumerate(results_all):
        if r["kind"] in ("prefix", "missing", "garbage") and r.get("events"):
            traces.append({"tid": i, "init": r["init"], "ev": [dict(e, n=e.get("n", 0), cls=e.get("cls", ""), ok=e.get("ok", True)) for e in r["events"]]})
        elif r["kind"] == "kill" and r.get("events"):
            traces.append({"tid": i, "init": "missing", "ev": [dict(e, n=e.get("n", 0), cls=e.get("cls", ""), ok=e.get("ok", True)) for e in r["events"]]})
    for tr in traces:
        for e in tr["ev"]:
            e.pop("path", None)
    allcls = caught | escaped | raised | {"FileNotFoundError"}
    gar = (raised - {"UnpicklingError", "EOFError"}) | {"UnpicklingError", "EOFError"}
    rejected, traced = 0, 0
    if traces and W:
        fn = ctx.path("traces", "c19.ndjson")
        with open(fn, "w") as f:
            for tr in traces:
                f.write(json.dumps(tr) + "\n")
        tres = ctx.tlc("T_C19", T_CFG % (W, sset(caught), sset(gar)), env={"TRACE_FILE": fn}, workers=8, name="T_C19", timeout=900)
        tres.require_clean()
        at = {}
        for tup in tres.tuples("AT"):
            _, tid, pos, ln, ok1, ok2, ok3, pci, comp = tup
            cur = at.get(tid)
            if cur is None or pos > cur[0]:
                at[tid] = (pos, ln, pci, comp)
            if not (ok1 and ok2 and ok3):
                at.setdefault(("bad", tid), (pos, ok1, ok2, ok3))
        for tr in traces:
            tid = tr["tid"]
            pos, ln, pci, comp = at.get(tid, (0, len(tr["ev"]), "?", False))
            traced += 1
            if pos < ln:
                rejected += 1
                ctx.note_drift("TzCache", {"trace": tid, "matched": pos, "of": ln, "next_event": tr["ev"][pos] if pos < len(tr["ev"]) else None,
                                           "fault": cases_all[tid]})
            if ("bad", tid) in at and not any(v["case"].get("fault") == cases_all[tid] for v in ctx.violations):
                ctx.violation({"fault": cases_all[tid]}, "property-on-trace: invariant of TzCache false in a state of the recorded execution %r" % (at[("bad", tid)],),
                              extra={"full_case": cases_all[tid]})
    # ---------------- E1 with the measured catch set
    mc = ctx.tlc("TzCache", MC_CFG % (min(max(W, 2), 3), sset(caught), sset(gar)), timeout=900, workers=8)
    mc.require_clean()
    if (mc.invariant_violated or mc.property_violated) and not ctx.violations:
        ctx.violation({"tlc_counterexample": mc.counterexample()[-3:], "CatchSet_measured": sorted(caught), "escaped": sorted(escaped)},
                      "TLC refutes %s on TzCache with the loader's measured catch set" % (mc.invariant_violated or mc.property_violated))
    cov = {
        "evaluations": len(cases_all), "distinct_nontrivial": len(nontrivial),
        "rule": "fault = (initial cache content: prefix length k of the %d-byte shipped file | missing | unreadable bytes) or (kill point inside the writer) or (second importer run while the first is at write point n) or (real subprocess import); non-trivial = the starting file is not the complete cache" % N,
        "exhaustive": False,
        "prefix_lengths": len(ks), "cache_bytes": N, "write_calls_per_rewrite": W,
        "by_kind": {k: sum(1 for c in cases_all if c["kind"] == k) for k in ("prefix", "missing", "garbage", "kill", "race", "subprocess")},
        "classes_raised_by_damaged_content": sorted(raised), "classes_the_loader_survives": sorted(caught), "classes_escaped": sorted(escaped),
        "states": mc.distinct, "transitions": mc.generated,
        "traces_validated_against_impl": traced, "traces_rejected": rejected,
        "samples": [{"fault": c, "outcome": {k: v for k, v in r.items() if k not in ("events", "events2")}, "events": [e["ev"] + (":" + e["cls"] if e.get("cls") else "") for e in r.get("events", [])][:12]}
                    for c, r in list(zip(cases_all, results_all))[:: max(1, len(cases_all) // 6)]][:7],
    }
    return core.finish(ctx, LEVEL, cov, assumptions=[
        "completeness of the cache file is judged by content (it unpickles and its table equals a fresh rebuild), not by bytes",
        "a simulated kill raises out of the write call (the file keeps what was flushed); real SIGKILL timing inside the kernel is not modelled",
        "unreadable content excludes well-formed pickles of a 4-tuple (indistinguishable from a cache without a hash check)"])
