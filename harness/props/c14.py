"""C14 - custom date_formats round-trip what the format expresses.

E1: P_C14.tla - every subset of stated parts x datetimes x preferences x clock dates: machine of
    parse_with_formats (Formats.tla) = oracle (O_C14.tla).
E2/E3: a family of ~40 strptime formats x datetimes 1900..2100 rendered with English names and with the
    month / weekday names of every language; TLC (T_C14.tla) judges every call (bracketed clock)."""

import calendar
import datetime

from .. import core

LEVEL = "model_checking"
MON = ["January", "February", "March", "April", "May", "June", "July", "August", "September", "October",
       "November", "December"]
WDN = ["Monday", "Tuesday", "Wednesday", "Thursday", "Friday", "Saturday", "Sunday"]
PREFS = ["first", "last", "current"]
MKEYS = [m.lower() for m in MON]
WKEYS = [w.lower() for w in WDN]

FORMATS = [
    "%Y-%m-%d", "%d/%m/%Y", "%m/%d/%Y", "%Y%m%d", "%d.%m.%Y %H:%M", "%Y-%m-%d %H:%M:%S", "%Y-%m-%dT%H:%M:%S.%f",
    "%d-%m-%y", "%y/%m/%d", "%H:%M %d/%m/%Y", "%I:%M %p %d/%m/%Y", "%I:%M:%S %p, %m/%d/%y", "%Y/%m/%d %H.%M",
    "%d %B %Y", "%B %d, %Y", "%d %b %Y", "%b %d %Y %H:%M", "%A, %d %B %Y", "%a %d %b %Y", "%A %d %B %Y %I:%M %p",
    "%d %B %Y %H:%M:%S.%f", "%Y %B %d", "%d-%b-%y", "%a, %d %b %Y %H:%M:%S",
    "%B %Y", "%b %Y", "%Y", "%m/%Y", "%Y-%m", "%d %B", "%d/%m", "%B %d", "%B", "%d", "%H:%M", "%d %Y", "%A %B %Y",
    "%I %p", "%H:%M:%S", "%b %d %H:%M", "%Y %H:%M",
]


NUMERIC = ("%Y", "%y", "%m", "%d", "%H", "%I", "%M", "%S", "%f")


def rand_named_format(rng, with_weekday):
    """a generated format for LOCALIZED names: numeric directives (possibly run together), one month name and maybe a
    weekday name, separated by characters that survive translation"""
    nums = rng.sample(["%Y", "%d", "%H", "%M", "%S"], rng.randint(1, 5))
    if "%Y" not in nums and rng.random() < 0.7:
        nums.append("%Y")
    rng.shuffle(nums)
    names = ["%B"] + (["%A"] if with_weekday and "%d" in nums and "%Y" in nums and rng.random() < 0.5 else [])
    # numeric part: runs glued together or separated
    glue = rng.random() < 0.5
    numpart = ("" if glue else rng.choice([" ", "-", "/", ":"])).join(nums)
    # (not ". ": the sanitiser deletes a period that follows a letter, so "<name>. <numbers>" is not what the format says)
    sep = rng.choice([" ", ", ", ",", " - ", "; "])
    parts = [numpart] + names
    if rng.random() < 0.5:
        parts = names + [numpart]
    return sep.join(parts)


def rand_format(rng):
    """a format of DISTINCT directives in random order with random literal separators (the statement's "every
    strptime-style format made of distinct directives"); %I always with %p, %p never without %I"""
    ds = []
    y = rng.choice([None, "%Y", "%Y", "%y"])
    m = rng.choice([None, "%m", "%m", "%B", "%b"])
    d = rng.choice([None, "%d", "%d"])
    if y:
        ds.append(y)
    if m:
        ds.append(m)
    if d:
        ds.append(d)
    if rng.random() < 0.15 and (y and m and d):
        ds.append(rng.choice(["%A", "%a"]))
    t = rng.random()
    tds = []
    if t < 0.7:
        tds.append(rng.choice(["%H", "%H", "%I"]))
        if rng.random() < 0.85:
            tds.append("%M")
            if rng.random() < 0.7:
                tds.append("%S")
        if rng.random() < 0.45:
            tds.append("%f")
        if tds[0] == "%I":
            tds.append("%p")
    elif t < 0.8:
        tds.append("%f")
    if rng.random() < 0.6:        # usual layout: date part and time part contiguous
        rng.shuffle(ds)
        if rng.random() < 0.3:
            rng.shuffle(tds)
        ds = ds + tds if rng.random() < 0.7 else tds + ds
    else:
        ds = ds + tds
        rng.shuffle(ds)
    if not ds:
        ds = ["%Y"]
    out = [ds[0]]
    for a, b in zip(ds, ds[1:]):
        seps = [" ", " ", "-", "/", ":", ",", ", ", "T", " at ", "_", "  |", ";"]
        if a in NUMERIC:
            seps += [".", ". "]
        if a in NUMERIC and b in NUMERIC:
            seps += ["", ""]
        if b == "%p" and a in NUMERIC:
            seps += ["", " "]
        sep = rng.choice(seps)
        if sep in ("T",) and (a not in NUMERIC or b not in NUMERIC):
            sep = " "
        out.append(sep + b)
    return "".join(out)


DECOYS = ["#%Y", "#%B %Y", "#%Y-%m", "#%d", "#%H:%M", "#%Y-%m-%d", "%Y#%m", "#%b %d"]      # never match: no rendered string contains '#'


def with_decoys(rng, fmt):
    """the format list given to the library: the format under test among formats that do not match the string -
    coarser ones before it, finer ones after it; the result must be the matching format's alone"""
    r = rng.random()
    if r < 0.45:
        return [fmt]
    before = rng.sample(DECOYS, rng.randint(1, 3)) if r < 0.85 else []
    after = rng.sample(DECOYS, rng.randint(1, 2)) if r > 0.65 else []
    return before + [fmt] + after


def flags(fmt):
    return {"year": "%Y" in fmt or "%y" in fmt, "month": any(x in fmt for x in ("%m", "%b", "%B")), "day": "%d" in fmt,
            "time": "%H" in fmt or "%I" in fmt, "min": "%M" in fmt, "sec": "%S" in fmt, "us": "%f" in fmt}


def render(fmt, dt, names):
    y, m, d, h, mi, s, us = dt
    wd = datetime.date(y, m, d).weekday()
    rep = {"%Y": "%04d" % y, "%y": "%02d" % (y % 100), "%m": "%02d" % m, "%d": "%02d" % d, "%H": "%02d" % h, "%M": "%02d" % mi,
           "%S": "%02d" % s, "%f": "%06d" % us, "%I": "%02d" % (h % 12 or 12), "%p": "AM" if h < 12 else "PM",
           "%B": names["B"][m - 1], "%b": names["b"][m - 1], "%A": names["A"][wd], "%a": names["a"][wd]}
    out = []
    i = 0
    while i < len(fmt):
        if fmt[i] == "%":
            out.append(rep[fmt[i:i + 2]])
            i += 2
        else:
            out.append(fmt[i])
            i += 1
    return "".join(out)


def export_names(_req=None):
    import importlib
    from dateparser.data import language_order
    out = {}
    from dateparser.utils import normalize_unicode
    from harness.c05lib import _assignments
    for lang in language_order:
        info = importlib.import_module("dateparser.data.date_translation_data." + lang).info
        _, meanings = _assignments(info, True)

        def single(words):
            # the statement's "single-meaning" names: listed under exactly one key (default NORMALIZE)
            return [w for w in words if len(set(meanings.get(normalize_unicode(w.lower()), []))) == 1]
        ms = [single(info.get(k) or []) for k in MKEYS]
        ws = [single(info.get(k) or []) for k in WKEYS]
        # multi-word vocabulary entries (relative phrases such as ee 'kɔsiɖa sia' = "this week", which is also what
        # "Sunday July" looks like): a generated string in which two names happen to spell one of them is a different
        # sentence of that language, not a rendering of the format
        phrases = set()
        for k, val in info.items():
            vals = val if isinstance(val, list) else ([x for xs in val.values() for x in xs] if isinstance(val, dict) and k == "relative-type" else [])
            for x in vals:
                if isinstance(x, str) and len(x.split()) > 1:
                    phrases.add(x.lower())
        if any(ms):
            out[lang] = {"months": ms, "weekdays": ws, "phrases": sorted(phrases)}
    return out


def run(ctx):
    rng = ctx.rng
    mc = ctx.tlc("P_C14", "SPECIFICATION Spec\nCONSTANTS\n  Years = {%s}\n  Todays = {131, 228, 229, 331, 615, 1004, 1231}\nINVARIANT RoundTrip\nCHECK_DEADLOCK FALSE\n"
                 % ("1900, 1999, 2000, 2024, 2026, 2100" if ctx.quick() else ", ".join(map(str, range(1900, 2101, 4)))), timeout=1800)
    mc.require_clean()
    for inv in mc.invariant_violated:
        ctx.violation({"tlc_counterexample": mc.counterexample()[-1:]}, "TLC refuted invariant %s of P_C14" % inv)
    vocab = core.run_cases(ctx, "harness.props.c14", "export_names", [{}], nproc=1)[0]
    en = {"B": MON, "b": [m[:3] for m in MON], "A": WDN, "a": [w[:3] for w in WDN]}
    findings, _ = core.load_findings("C14")
    known = {(f["signature"]["language"], f["signature"]["word"]): f["id"] for f in findings}
    cases = core.replay_cases(ctx)
    if not cases:
        cases = []

        def add(fmt, dt, names, lang, words):
            # formats written for whole lines of a file or for fixed-width columns begin / end with literal whitespace:
            # the produced string matches them exactly
            if lang == "en" and rng.random() < 0.12:
                pre, post = rng.choice([("", "\n"), (" ", ""), ("", "\r\n"), ("\t", ""), ("", " "), (" ", " "), ("", "\t")])
                fmt = pre + fmt + post
            fl = flags(fmt)
            y = dt[0]
            if "%y" in fmt and not (1969 <= y <= 2068):
                return
            pd, pm = rng.choice(PREFS), rng.choice(PREFS)
            st = {"PREFER_DAY_OF_MONTH": pd, "PREFER_MONTH_OF_YEAR": pm}
            # the statement ties what a format leaves open to the CURRENT date: a reference time given for relative dates
            # (another year, month and day than today, naive or aware) plays no part
            if rng.random() < 0.25:
                rb = [rng.choice([1999, 2015, 2031]), rng.randint(1, 12), rng.randint(1, 28), rng.randint(0, 23), 30, 0, 0]
                st["RELATIVE_BASE"] = rb if rng.random() < 0.6 else {"dt": rb, "tz": rng.choice([-18000, 19800, 50400, 0])}
            cases.append({"fmt": fmt, "fl": fl, "dt": [dt[0], dt[1], dt[2], dt[3], dt[4], dt[5], dt[6]], "pdom": pd, "pmoy": pm,
                          "s": render(fmt, dt, names), "kw": {"languages": [lang], "date_formats": with_decoys(rng, fmt)}, "settings": st, "api": "ddp",
                          "probe": False, "lang": lang, "words": words})

        def rand_dt():
            y = rng.choice([1900, 1969, 1999, 2000, 2024, 2068, 2100, rng.randint(1900, 2100), rng.randint(1969, 2068)])
            m = rng.randint(1, 12)
            d = rng.choice([1, 12, 13, 28, calendar.monthrange(y, m)[1], rng.randint(1, 28)])
            return [y, m, d, rng.choice([0, 11, 12, 13, 23, rng.randint(0, 23)]), rng.randint(0, 59), rng.randint(0, 59),
                    rng.choice([0, 1, 123456, 999999, 500000, 120])]

        n_en = 80 if ctx.quick() else 500
        for fmt in FORMATS:
            for _ in range(n_en):
                add(fmt, rand_dt(), en, "en", [])
        seen_f = set(FORMATS)
        for _ in range(600 if ctx.quick() else 20000):      # generated formats of distinct directives
            fmt = rand_format(rng)
            for _ in range(1 if fmt in seen_f else 3):
                add(fmt, rand_dt(), en, "en", [])
            seen_f.add(fmt)
        # localized names: every language, its first listed name per month / weekday (quick: 3 months per language)
        named = [f for f in FORMATS if any(x in f for x in ("%B", "%b", "%A", "%a"))]
        for lang, v in sorted(vocab.items()):
            if lang == "en":
                continue
            first = {"B": [(x or [""])[0] for x in v["months"]], "A": [(x or [""])[0] for x in v["weekdays"]]}
            # every listed single-meaning month name (all spelling variants), and every weekday name variant, of every
            # language: the quantifier's "all languages' single-meaning month names" - a sample of months or the first
            # variant only lets a defect confined to one name of one language escape
            jobs = [("B", mi, w) for mi in range(12) for w in v["months"][mi]] + [("A", wi, w) for wi in range(7) for w in v["weekdays"][wi]]
            if ctx.quick() and len(jobs) > 40:
                keep = {(k, i) for k, i, _ in jobs}           # quick: every (month / weekday) once, plus a sample of the variants
                firsts = [j for j in jobs if j[2] == first[j[0]][j[1]]]
                rest = [j for j in jobs if j not in firsts]
                jobs = firsts + rng.sample(rest, min(len(rest), 40 - min(40, len(firsts))))
            for kind, idx, w in jobs:
                names = {"B": list(first["B"]), "b": list(first["B"]), "A": list(first["A"]), "a": list(first["A"])}
                # localized names are always translated to the FULL English names, so only the full-name
                # directives can be served by the custom-format parser (a %b / %a format falls back to the
                # heuristic parsers: recorded as an observation in DESIGN.md, outside this check's domain)
                dt = rand_dt()
                dt[2] = min(dt[2], 28)
                if kind == "B":
                    names["B"][idx] = names["b"][idx] = w
                    dt[1] = idx + 1
                    pool = [f for f in named if "%B" in f or "%b" in f]
                    if not all(names["A"]):
                        pool = [f for f in pool if "%A" not in f and "%a" not in f]
                else:
                    names["A"][idx] = names["a"][idx] = w
                    if not all(names["B"]):
                        continue
                    # a date that falls on this weekday
                    d0 = datetime.date(dt[0], dt[1], dt[2])
                    d0 += datetime.timedelta(days=(idx - d0.weekday()) % 7)
                    if d0.day > 28 or d0.year != dt[0]:
                        d0 -= datetime.timedelta(days=7)
                    dt[0], dt[1], dt[2] = d0.year, d0.month, d0.day
                    pool = [f for f in named if "%A" in f or "%a" in f]
                fmt = rng.choice(pool).replace("%b", "%B").replace("%a", "%A")
                if kind == "B" and rng.random() < 0.35:
                    fmt = rand_named_format(rng, all(names["A"]))
                wd = datetime.date(dt[0], dt[1], dt[2]).weekday()
                words = [names["B"][dt[1] - 1]] if "%B" in fmt else []
                if "%A" in fmt:
                    words.append(names["A"][wd])
                if not all(words):
                    continue
                text = render(fmt, dt, names).lower()
                if any(ph in text and not any(ph in w_.lower() for w_ in words) for ph in v.get("phrases", [])):
                    continue        # two names side by side spell another entry of the vocabulary
                add(fmt, dt, names, lang, words)
    # a share of the cases runs on parsers that were all constructed before any of them was used (state shared behind
    # the constructor would surface as another case's result)
    # "the current year / date" is whatever day it is: a share of the cases runs with the library's clock moved to a month
    # end, a leap day, New Year's Eve / Day (the expected values are computed from the same, moved, clock)
    if not ctx.replay:
        for i, c in enumerate(cases):
            if i % 5 == 1:
                c["fake_today"] = rng.choice([[2024, 2, 29], [2023, 12, 31], [2025, 1, 1], [2021, 1, 31], [2022, 3, 31], [2023, 2, 28], [2024, 5, 31], [2021, 11, 30]])
    results = core.run_cases_prebuilt(ctx, cases, lambda i: i % 5 == 0 and not ctx.replay and not cases[i].get("fake_today"), size=5)
    records = []
    for i, (c, r) in enumerate(zip(cases, results)):
        if c["lang"] != "en":
            # the statement's last sentence: if the RAW string matches the format (an English reading of a
            # foreign word such as 'may'), that reading is what must be returned
            try:
                raw = datetime.datetime.strptime(c["s"], c["fmt"])
                c["dt"] = [raw.year if c["fl"]["year"] else c["dt"][0], raw.month, raw.day, raw.hour, raw.minute, raw.second, raw.microsecond]
            except ValueError:
                pass
        records.append({"tid": i, "fl": c["fl"], "dt": c["dt"], "pdom": c["pdom"], "pmoy": c["pmoy"], "today0": r["clock0"][:3] + [0, 0, 0, 0],
                        "today1": r["clock1"][:3] + [0, 0, 0, 0], "out": r["out"], "period": r["period"], "exc": r["exc"]})
    tuples, _ = core.validate_traces(ctx, "T_C14", "SPECIFICATION TSpec\nPOSTCONDITION Consumed\nCHECK_DEADLOCK FALSE\n", records, tags=("REJECT", "SKIP"))
    sp = len(tuples["SKIP"])
    for t in tuples["REJECT"]:
        _, tid, kind, verdict, exp = t[:5]
        c, r = cases[tid], results[tid]
        d = {"call": "DateDataParser(languages=[%r], settings=%r).get_date_data(%r, date_formats=%r)" % (c["lang"], c["settings"], c["s"], c["kw"]["date_formats"])}
        if kind == "abs":
            if any((c["lang"], w) in known for w in c.get("words", [])):
                continue          # the shadowed names of the C05 findings: the heuristic fallback's answer, not the format machine's
            ctx.note_drift("Formats", {"case": d, "model": exp, "observed": r["out"]})
            continue
        fids = [known[(c["lang"], w)] for w in c.get("words", []) if (c["lang"], w) in known]
        if fids and verdict in ("not-parsed", "wrong-datetime"):
            ctx.known(fids[0])
            continue
        ctx.violation(d, verdict, expected=exp, observed={"out": r["out"], "period": r["period"], "exc": r["exc"], "msg": r.get("msg")},
                      extra={"full_case": c, "words": c.get("words")})
    cov = {
        "states": mc.distinct, "transitions": mc.generated, "traces_validated_against_impl": len(cases) - sp,
        "evaluations": len(cases), "distinct_nontrivial": len({(c["s"], c["fmt"], c["lang"]) for c, r in zip(cases, results) if r["out"]}),
        "rule": "case = (format, datetime, language whose names are used, preferences); non-trivial = distinct call returning a datetime",
        "exhaustive": False, "formats": len({c["fmt"] for c in cases}), "languages": len({c["lang"] for c in cases}),
        "samples": [{"string": c["s"], "format": c["fmt"], "language": c["lang"], "observed": r["out"], "period": r["period"]}
                    for c, r in list(zip(cases, results))[:: max(1, len(cases) // 6)]][:6],
    }
    return core.finish(ctx, LEVEL, cov, findings_desc={f["id"]: f["signature"].get("text", "") for f in findings}, assumptions=[
        "formats of distinct directives among %Y %y %m %d %B %b %A %a %H %I %M %S %f %p (no %j); two-digit years only for 1969..2068",
        "missing year = the system clock's year, 'current' preferences = the system clock's date, bracketed by the worker",
        "year-less formats: dates other than Feb 29; day- and year-less formats are not completed into February; a stated day with a missing month is at most 28"])
