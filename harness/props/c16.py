"""C16 - shipped generated data equals what its sources define (translation validation, three ways).

(1) The repository's OWN generator (write_complete_data, run on a YAML-subset reader because no YAML
    library exists here) must reproduce every shipped language module byte for byte.
(2) TLC evaluates the TLA+ transcription of the generator (DataBuild.tla: Combine / WithName / Resolve)
    on the exported sources of every language and compares with the shipped structure; it rebuilds the
    timezone table from the source structure in build order and compares it row by row with the table in
    the shipped pickle (read before the package is imported); it checks the index equalities.
(3) Each shipped module is exactly 'info = ' + canonical JSON of its structure (so structure equality is
    byte equality); pattern flags and both search regexes of the pickle equal the rebuilt ones."""

import json
import os
import subprocess

from .. import core

LEVEL = "translation_validation"


def run(ctx):
    snap = ctx.snapshot()
    stub = ctx.path("stub", "ruamel", "yaml.py")
    with open(stub, "w") as f:
        f.write("from harness.miniyaml import RoundTripLoader  # noqa\n")
    open(os.path.join(os.path.dirname(stub), "__init__.py"), "w").close()
    outdir = os.path.dirname(ctx.path("c16", "x"))
    env = ctx.pyenv()
    env["PYTHONPATH"] = os.path.dirname(os.path.dirname(stub)) + os.pathsep + snap + os.pathsep + core.VERIF
    p = subprocess.run([core.PY, os.path.join(core.VERIF, "harness", "c16export.py"), snap, outdir], env=env, stdout=subprocess.PIPE,
                       stderr=subprocess.PIPE, text=True, timeout=900)
    if p.returncode != 0:
        # a source the reader or the generator cannot process is a difference between sources and shipped data
        ctx.violation({"exporter_stderr": p.stderr[-1500:]}, "the sources cannot be processed by the repository's generator (see stderr)")
        return core.finish(ctx, LEVEL, {"programs": 1, "disagreements_checked": 1, "samples": [p.stderr[-300:]]})
    summary = json.load(open(os.path.join(outdir, "c16_summary.json")))
    recs = [json.loads(x) for x in open(os.path.join(outdir, "c16.ndjson"))]
    for e in summary["errors"]:
        ctx.violation({"file": "dateparser/data/dateparser_tz_cache.pkl"}, e)
    for lang in summary["byte_mismatch_generator"]:
        ctx.violation({"file": "dateparser/data/date_translation_data/%s.py" % lang, "sources": ["cldr_language_data/date_translation_data/%s.json" % lang,
                       "supplementary_language_data/date_translation_data/%s.yaml" % lang, "supplementary_language_data/base_data.yaml"]},
                      "the shipped module differs from what the repository's generator produces from the sources (or one side is missing)")
    for lang in summary["not_canonical_json"]:
        ctx.violation({"file": "dateparser/data/date_translation_data/%s.py" % lang}, "the shipped module is not 'info = ' + the generator's JSON rendering of its own content")
    if summary.get("tz_flags_ok") is False:
        ctx.violation({"file": "dateparser/data/dateparser_tz_cache.pkl"}, "pattern flags in the pickled table differ from re.IGNORECASE patterns rebuilt from the source")
    if summary.get("tz_search_ok") is False:
        ctx.violation({"file": "dateparser/data/dateparser_tz_cache.pkl"}, "the pickled search regexes differ from those rebuilt from the source")
    # ---- the generator run FOR REAL (it writes its files) on a private copy: what lands on disk is what is shipped
    import shutil
    priv = os.path.dirname(ctx.path("c16real", "x"))
    for d in ("dateparser", "dateparser_data", "dateparser_scripts"):
        shutil.copytree(os.path.join(snap, d), os.path.join(priv, d), dirs_exist_ok=True)
    shipped_dir = os.path.join(snap, "dateparser", "data", "date_translation_data")
    shipped = {f: open(os.path.join(shipped_dir, f), "rb").read() for f in os.listdir(shipped_dir) if f.endswith(".py") and f != "__init__.py"}
    env2 = dict(env)
    env2["PYTHONPATH"] = os.path.dirname(os.path.dirname(stub)) + os.pathsep + priv + os.pathsep + core.VERIF
    p2 = subprocess.run([core.PY, "-c", "import dateparser_scripts.write_complete_data as w; w.write_complete_data()"], env=env2, cwd=priv,
                        stdout=subprocess.PIPE, stderr=subprocess.PIPE, text=True, timeout=900)
    written_dir = os.path.join(priv, "dateparser", "data", "date_translation_data")
    if p2.returncode != 0:
        ctx.violation({"generator_stderr": p2.stderr[-1200:]}, "the repository's generator fails when it is run for real (writing its files)")
        written = {}
    else:
        written = {f: open(os.path.join(written_dir, f), "rb").read() for f in os.listdir(written_dir) if f.endswith(".py") and f != "__init__.py"}
        for f in sorted(set(shipped) | set(written)):
            if shipped.get(f) != written.get(f) and not any(v["case"].get("file", "").endswith("/" + f) for v in ctx.violations):
                ctx.violation({"file": "dateparser/data/date_translation_data/%s" % f, "how": "generator run with in_memory=False on a private copy of the sources"},
                              "the file the generator WRITES differs from the shipped module (or one side is missing)")
    tuples, gen = core.validate_traces(ctx, "T_C16", "SPECIFICATION TSpec\nPOSTCONDITION Consumed\nCHECK_DEADLOCK FALSE\n", recs, shards=min(core.NCPU, 12), timeout=1200)
    for t in tuples["REJECT"]:
        _, tid, kind, verdict, extra = t[:5]
        r = recs[tid]
        what = {"lang": "dateparser/data/date_translation_data/%s.py" % r.get("lang"), "tz": "dateparser/data/dateparser_tz_cache.pkl vs dateparser/timezones.py",
                "index": "dateparser/data/languages_info.py"}[r["kind"]]
        if any(v["case"].get("file", "").endswith("%s.py" % r.get("lang", "\0")) for v in ctx.violations):
            continue
        ctx.violation({"file": what}, "TLC: %s" % verdict, observed=extra)
    nlang = sum(1 for r in recs if r["kind"] == "lang")
    cov = {
        "modules_written_for_real_and_compared": len(written),
        "programs": nlang + 2, "disagreements_checked": nlang * 3 + 4 + summary.get("tz_rows", 0),
        "samples": [{"language_module": r["lang"], "keys": [kv[0] for kv in r["shipped"]["v"]][:8]} for r in recs if r["kind"] == "lang"][:3] +
                   [{"timezone_rows": summary.get("tz_rows"), "flags_ok": summary.get("tz_flags_ok"), "search_regexes_ok": summary.get("tz_search_ok")}],
        "evaluations": nlang + 2, "distinct_nontrivial": nlang + 2, "exhaustive": True,
        "rule": "one obligation per language module (generator bytes = shipped bytes; TLA+ Generate(sources) = shipped structure; canonical rendering), one for the timezone table (row by row), one for the index",
        "states": gen, "transitions": gen, "traces_validated_against_impl": len(recs),
        "language_modules": nlang, "timezone_rows": summary.get("tz_rows"),
    }
    return core.finish(ctx, LEVEL, cov, assumptions=[
        "the YAML-subset reader is validated by the check itself: the generator running on it reproduces the shipped modules byte for byte on the unchanged tree",
        "pattern texts after %-substitution and re.sub are computed by the regex engine (projection); TLC decides order, names, offsets and equality",
        "the shipped pickle is read with pickle before the package is imported, so a self-repairing loader cannot mask a stale file"])
