"""C08 - missing day/month are completed exactly as configured; the period is truthful.

E1: P_C08.tla - every (y, m) x 9 preference pairs x reference days through the machines of the
    absolute parser and of the custom-format parser, machine = oracle Complete(...).
E2/E3: month-year / year-only / full-date strings through the real API (absolute parser with
    RELATIVE_BASE; custom formats with the bracketed system clock), judged by TLC (T_C08.tla)."""

import calendar

from .. import absfam, core, neighbours

LEVEL = "model_checking"
PREFS = ["first", "last", "current"]
MON = ["January", "February", "March", "April", "May", "June", "July", "August", "September", "October",
       "November", "December"]

MC_CFG = """SPECIFICATION Spec
CONSTANTS
  Years = {%s}
  RefDays = {%s}
INVARIANT CompletionExact
INVARIANT FullDatesUntouched
INVARIANT FormatCompletionExact
CHECK_DEADLOCK FALSE
"""
QUICK_YEARS = sorted(set([1, 2, 3, 4, 99, 100, 400, 999, 1000, 1582, 1900, 2100, 9996, 9999] + list(range(1996, 2030))))
QUICK_REFS = [131, 228, 229, 331, 430, 615, 1231, 1001]
REF_DATES = [(2021, 1, 31), (2021, 2, 28), (2024, 2, 29), (2021, 3, 31), (2021, 4, 30), (2021, 6, 15),
             (2021, 12, 31), (2021, 10, 1), (2023, 5, 30), (2020, 8, 29)]


def month_year_spellings(y, m):
    ys = "%04d" % y
    return [("%s %s" % (MON[m - 1], ys), "%B %Y"), ("%s %s" % (MON[m - 1][:3], ys), "%b %Y"),
            ("%s %s" % (ys, MON[m - 1]), "%Y %B")]


def make_cases(ctx):
    rng = ctx.rng
    cases = []
    years = [1, 4, 100, 400, 1000, 1900, 2000, 2015, 2023, 2024, 2100, 9999]
    if not ctx.quick():
        years += list(range(1960, 2060)) + rng.sample(range(1, 10000), 150)

    def add(parser, parts, y, m, d, tm, s, fmt, pd, pm, ref, rtap=False):
        st = {"PREFER_DAY_OF_MONTH": pd, "PREFER_MONTH_OF_YEAR": pm}
        if rtap:
            st["RETURN_TIME_AS_PERIOD"] = True
        kw = {"languages": ["en"]}
        if parser == "abs":
            st["RELATIVE_BASE"] = list(ref) + [10, 30, 0, 0]
            # the reference date is the reference's OWN calendar date, also for a timezone-aware reference close to
            # midnight whose UTC instant falls on another day
            if rng.random() < 0.15:
                hh, mm = rng.choice([(23, 30), (0, 15), (23, 59), (0, 0), (12, 0)])
                st["RELATIVE_BASE"] = {"dt": list(ref) + [hh, mm, 0, 0], "tz": rng.choice([-18000, 50400, -43200, 19800, 3600, -34200, 0])}
            # month written by name, four-digit year: the result does not depend on the order in which numbers are read,
            # whether that order is given explicitly or comes with the locale (en-CA, en-ZA, en-SE read year first)
            if y >= 1000 and "%m" not in fmt and parts != "y":
                r_ = rng.random()
                if r_ < 0.35:
                    st["DATE_ORDER"] = rng.choice(["DMY", "DYM", "MDY", "MYD", "YDM", "YMD"])
                elif r_ < 0.5:
                    kw = {"locales": [rng.choice(["en-CA", "en-ZA", "en-SE", "en-GB", "en-AU", "en-IN"])]}
                elif r_ < 0.6:
                    kw = {"languages": ["en"], "region": rng.choice(["CA", "ZA", "GB", "NZ"])}
        else:
            # the format under test among formats that do not match (none of the strings contains '#'): coarser ones
            # before it, finer ones after it - the result and its period must be the matching format's alone
            r = rng.random()
            dec = ["#%Y", "#%B %Y", "#%Y-%m", "#%d %B %Y", "#%d", "#%H:%M"]
            kw["date_formats"] = [fmt] if r < 0.4 else (rng.sample(dec, rng.randint(1, 3)) + [fmt] + (rng.sample(dec, 1) if r > 0.8 else []))
        # settings that must be irrelevant: a REQUIRE_PARTS the string meets, defaults spelled out
        st.update(neighbours.bystanders(rng, {"my": ("month", "year"), "y": ("year",), "full": ("day", "month", "year")}[parts]))
        via = rng.choice(["dict"] * 6 + ["instance", "instance2", "instance2", "cleared"])
        cases.append({"via": via, "parser": parser, "parts": parts, "y": y, "m": m, "d": d, "tm": tm or [0, 0, 0],
                      "hasTime": tm is not None, "pdom": pd, "pmoy": pm, "ref": list(ref) + [10, 30, 0, 0] if ref else [],
                      "rtap": rtap, "s": s, "kw": kw, "settings": st, "api": "ddp", "probe": parser == "abs"})

    for y in years:
        months = range(1, 13) if (not ctx.quick() or y in (2023, 2024, 1900, 2000)) else rng.sample(range(1, 13), 5) + [2]
        for m in months:
            for pd in PREFS:
                for pm in PREFS:
                    refs = REF_DATES if not ctx.quick() else rng.sample(REF_DATES, 4)
                    for ref in refs:
                        sp = month_year_spellings(y, m)
                        s, fmt = sp[rng.randrange(3)]
                        add("abs", "my", y, m, 0, None, s, fmt, pd, pm, ref)
                        if m == 2 or rng.random() < 0.25:
                            add("abs", "y", y, m, 0, None, "%04d" % y, "%Y", pd, pm, ref)
                    # custom-format parser: the reference is the system clock (bracketed by the worker)
                    if y >= 1000 and (m == 2 or rng.random() < 0.3):    # strptime's %Y wants 4 digits: fine for 0001 too
                        s, fmt = month_year_spellings(y, m)[rng.randrange(3)]
                        add("fmt", "my", y, m, 0, None, s, fmt, pd, pm, None)
                        add("fmt", "y", y, m, 0, None, "%04d" % y, "%Y", pd, pm, None)
            # full dates are never altered by the preferences
            for _ in range(2):
                m = rng.randint(1, 12)
                d = rng.choice([1, calendar.monthrange(y, m)[1], rng.randint(1, calendar.monthrange(y, m)[1])])
                pd, pm = rng.choice(PREFS), rng.choice(PREFS)
                ref = rng.choice(REF_DATES)
                tm = None if rng.random() < 0.5 else [rng.randint(0, 23), rng.randint(0, 59), rng.randint(0, 59)]
                forms = [("%d %s %04d" % (d, MON[m - 1], y), "%d %B %Y"), ("%04d-%02d-%02d" % (y, m, d), "%Y-%m-%d"),
                         ("%s %d, %04d" % (MON[m - 1][:3], d, y), "%b %d, %Y")]
                s, fmt = forms[rng.randrange(3)]
                if tm:
                    s += " %02d:%02d:%02d" % tuple(tm)
                    fmt += " %H:%M:%S"
                rtap = rng.random() < 0.5
                add("abs", "full", y, m, d, tm, s, fmt, pd, pm, ref, rtap)
                if y >= 1000:
                    add("fmt", "full", y, m, d, tm, s, fmt, pd, pm, None)
    return cases


def describe(c):
    return {"call": "DateDataParser(%s, settings=%r).get_date_data(%r%s)" % (
        ", ".join("%s=%r" % kv for kv in c["kw"].items() if kv[0] != "date_formats"), c["settings"], c["s"],
        ", date_formats=%r" % c["kw"]["date_formats"] if "date_formats" in c["kw"] else ""), "parser": c["parser"], "parts": c["parts"],
        "settings_given_as": {"instance": "dateparser.conf.settings.replace(**settings)", "instance2": "settings.replace(<all but RELATIVE_BASE / TIMEZONE>).replace(<those>)",
                              "cleared": "a dict emptied by the caller after the parser was built"}.get(c.get("via"), "a dict")}


def run(ctx):
    if ctx.replay:
        years, refs = [2015], [615]
    elif ctx.quick():
        years, refs = QUICK_YEARS, QUICK_REFS
    else:
        years, refs = list(range(1, 10000)), [131, 229, 331, 615]
    mc = ctx.tlc("P_C08", MC_CFG % (", ".join(map(str, years)), ", ".join(map(str, refs))), timeout=3000)
    mc.require_clean()
    for inv in mc.invariant_violated:
        ctx.violation({"tlc_counterexample": mc.counterexample()[-1:]}, "TLC refuted invariant %s of P_C08 (machine vs oracle)" % inv)
    cases = core.replay_cases(ctx) or make_cases(ctx)
    # a share of the cases runs on parsers that were all constructed before any of them was used (state shared behind
    # the constructor would surface as another case's result)
    # the custom-format parser takes "current" from the system clock: a share of its cases runs with the library's clock
    # on days 29-31 and on Feb 28 / 29 (the expected values come from the same, moved, clock)
    if not ctx.replay:
        for i, c in enumerate(cases):
            if c["parser"] == "fmt" and i % 2 == 0:
                c["fake_today"] = ctx.rng.choice([[2024, 2, 29], [2023, 12, 31], [2021, 1, 31], [2022, 3, 31], [2023, 2, 28], [2024, 5, 31], [2021, 11, 30], [2021, 8, 29]])
    results = core.run_cases_prebuilt(ctx, cases, lambda i: i % 4 == 0 and not ctx.replay and not cases[i].get("fake_today"), size=5)
    records, nabs, clockskip = [], 0, 0
    for i, (c, r) in enumerate(zip(cases, results)):
        ref = c["ref"]
        parts = c["parts"]
        if c["parser"] == "fmt":
            if r["clock0"][:3] != r["clock1"][:3]:
                parts = "skip-clock"
                clockskip += 1
            ref = r["clock0"]
        records.append({"kind": "c08", "tid": i, "parser": c["parser"], "parts": parts, "y": c["y"], "m": c["m"],
                        "d": c["d"], "tm": c["tm"], "hasTime": c["hasTime"], "pdom": c["pdom"], "pmoy": c["pmoy"],
                        "ref": ref, "rtap": c["rtap"], "out": r["out"], "period": r["period"], "exc": r["exc"]})
        ar = absfam.abs_records(i, r)
        nabs += len(ar)
        records.extend(ar)
    tuples, _ = core.validate_traces(ctx, "T_C08", absfam.TRACE_CFG, records, tags=("REJECT", "SKIP"))
    sp = sum(1 for t in tuples["SKIP"] if t[2] == "prop")
    sa = sum(1 for t in tuples["SKIP"] if t[2] == "abs")
    absfam.collect(ctx, tuples, cases, results, "AbsParser", describe)
    cov = {
        "states": mc.distinct, "transitions": mc.generated,
        "traces_validated_against_impl": len(cases) - sp, "abs_events_validated": nabs - sa,
        "evaluations": len(cases),
        "distinct_nontrivial": len({(c["s"], repr(sorted(c["settings"].items())), c["parser"]) for c, r in zip(cases, results) if r["out"]}),
        "rule": "case = (string form, y, m[, d, time], PREFER_DAY_OF_MONTH, PREFER_MONTH_OF_YEAR, reference date, parser); non-trivial = distinct call returning a datetime",
        "exhaustive": not ctx.quick(),
        "tlc_constants": {"Years": "1..9999" if len(years) > 9000 else years, "RefDays": refs},
        "by_parser": {k: sum(1 for c in cases if c["parser"] == k) for k in ("abs", "fmt")},
        "by_parts": {k: sum(1 for c in cases if c["parts"] == k) for k in ("my", "y", "full")},
        "samples": [dict(describe(c), observed=r["out"], period=r["period"]) for c, r in list(zip(cases, results))[:: max(1, len(cases) // 6)]][:6],
    }
    return core.finish(ctx, LEVEL, cov, assumptions=[
        "TLC: machine = oracle for every (y, m) of the constants x 9 preference pairs x reference days (thorough: all years 1..9999)",
        "custom-format path: 'current' preferences read the system clock, bracketed by the worker (cases across midnight skipped: %d)" % clockskip])
