"""C01 - standard absolute date/time formats round-trip exactly; epoch numbers give that instant.

E1: P_C01.tla - every date of a year grid x clock times x microsecond shapes x 14 renderings through
    the machine (preferences vary with the state and must be irrelevant): machine = Trunc(d, t, precision).
E2/E3: the same renderings as real strings, English selected and autodetected; epoch numbers with
    ms/us suffixes, negative numbers, several TIMEZONE values; judged by TLC (T_C01.tla)."""

import calendar
import datetime

from .. import absfam, core, neighbours

LEVEL = "model_checking"
MON = ["January", "February", "March", "April", "May", "June", "July", "August", "September", "October",
       "November", "December"]
WDN = ["Monday", "Tuesday", "Wednesday", "Thursday", "Friday", "Saturday", "Sunday"]
PREF = ["first", "last", "current"]
PDF = ["past", "future", "current_period"]
NAIVE = 100000
EPOCH_ORD = 719163

MC_CFG = """SPECIFICATION Spec
CONSTANTS
  Years = {%s}
  Times = {%s}
  Micros = {%s}
INVARIANT RoundTrip
CHECK_DEADLOCK FALSE
"""
Q_YEARS = [1, 4, 100, 400, 999, 1000, 1900, 2000, 2024, 9999]
Q_TIMES = [0, 59, 115959, 120000, 125959, 235959, 103015]
Q_MICROS = [0, 1, 999, 1000, 999999, 120000, 12345]


def frac_digits(us, fl):
    return ("%06d" % us)[:fl]


def render(fam, dt, fl, rng):
    y, m, d, h, mi, s, us = dt
    Y = "%04d" % y
    iso = "%s-%02d-%02d" % (Y, m, d)
    hms = "%02d:%02d:%02d" % (h, mi, s)
    sep = rng.choice([" ", "T"])
    h12 = h % 12 or 12
    mer = rng.choice(["AM", "am"]) if h < 12 else rng.choice(["PM", "pm"])
    wd = WDN[datetime.date(y, m, d).weekday()] if True else ""
    mname = MON[m - 1]
    mab = mname[:3]
    if fam == 1:
        return iso, False, False, 0
    if fam == 2:
        return iso + sep + hms, True, True, 0
    if fam == 3:
        return iso + sep + hms + "." + frac_digits(us, fl), True, True, fl
    if fam == 4:
        return iso + " %02d:%02d" % (h, mi), True, False, 0
    if fam == 5:
        return "%s, %02d %s %s %s" % (wd[:3], d, mab, Y, hms), True, True, 0
    if fam == 6:
        return "%02d %s %s %s" % (d, mab, Y, hms), True, True, 0
    if fam == 7:
        return "%s %d, %s" % (rng.choice([mname, mab]), d, Y), False, False, 0
    if fam == 8:
        return "%d %s %s" % (d, rng.choice([mname, mab]), Y), False, False, 0
    if fam == 9:
        return "%s %d, %s %d:%02d %s" % (mname, d, Y, h12, mi, mer), True, False, 0
    if fam == 10:
        return "%s %d, %s %d:%02d:%02d %s" % (mab, d, Y, h12, mi, s, mer), True, True, 0
    if fam == 11:
        return "%d %s %s %02d:%02d" % (d, mname, Y, h, mi), True, False, 0
    if fam == 12:
        return "%d %s %s %s" % (d, mab, Y, hms), True, True, 0
    if fam == 13:
        return "%s, %s %d, %s" % (wd, mname, d, Y), False, False, 0
    if fam == 14:
        return "%s %d %s %s.%s" % (mname, d, Y, hms, frac_digits(us, fl)), True, True, fl
    raise ValueError(fam)


def make_cases(ctx, tzrows):
    rng = ctx.rng
    cases = []
    years = Q_YEARS + ([rng.randint(1, 9999) for _ in range(45)] if ctx.quick() else list(range(1, 10000, 37)) + list(range(1990, 2040)))
    fracs = [(1, 500000), (2, 50000), (3, 123000), (4, 123400), (5, 123450), (6, 123456), (6, 1), (6, 999999), (3, 1000),
             (1, 0), (6, 0), (5, 10), (2, 990000)]
    pools = [{"PREFER_DATES_FROM": a, "PREFER_DAY_OF_MONTH": b, "PREFER_MONTH_OF_YEAR": c} for a in PDF for b in PREF for c in PREF]
    auto_pool = [pools[0], pools[13], pools[26]]
    for y in years:
        days = [(1, 1), (12, 31), (2, 28), (3, 1), (rng.randint(1, 12), rng.randint(1, 28)), (rng.randint(1, 12), rng.randint(1, 28))]
        if calendar.isleap(y):
            days.append((2, 29))
        for (m, d) in days:
            for fam in range(1, 15):
                h, mi, s = rng.choice([(0, 0, 0), (0, 0, 59), (11, 59, 59), (12, 0, 0), (12, 59, 59), (23, 59, 59), (13, 5, 7),
                                       (rng.randint(0, 23), rng.randint(0, 59), rng.randint(0, 59))])
                fl, us = rng.choice(fracs)
                dt = [y, m, d, h, mi, s, us]
                s_, ht, hs, flw = render(fam, dt, fl, rng)
                for auto in (False, True):
                    if auto and ctx.quick() and rng.random() < 0.5:
                        continue
                    st = dict(rng.choice(auto_pool if auto else pools))
                    st["RELATIVE_BASE"] = [2021, 6, 15, 12, 0, 0, 0]
                    cases.append({"kind": "c01", "fam": fam, "dt": dt, "ht": ht, "hs": hs, "fl": flw, "s": s_,
                                  "kw": {} if auto else {"languages": ["en"]}, "settings": st, "api": "ddp", "probe": True})
    # every written fraction length 1..6 on the ISO forms (5-digit fractions are what the suite misses)
    for fl in range(1, 7):
        for us in (1, 12, 123, 1234, 12345, 123456, 999999, 100000, 10, 1000):
            for fam in (3, 14):
                dt = [2015, 3, 5, 10, 30, 15, us]
                s_, ht, hs, flw = render(fam, dt, fl, rng)
                cases.append({"kind": "c01", "fam": fam, "dt": dt, "ht": ht, "hs": hs, "fl": flw, "s": s_,
                              "kw": {"languages": ["en"]}, "settings": {"RELATIVE_BASE": [2021, 6, 15, 12, 0, 0, 0]}, "api": "ddp", "probe": True})
    # ---- coincidences between the fields of ONE string: the fraction written with the same digits as the year (or the day
    # and month, or the clock), the clock equal to the year's digits, day = month = hour ...: every field keeps its own place
    for _ in range(250 if ctx.quick() else 6000):
        y = rng.choice([rng.randint(1000, 2999), rng.randint(1000, 2999), 2020, 1999, 2000, rng.randint(1, 9999)])
        m, d = rng.randint(1, 12), rng.randint(1, 28)
        h, mi, s_ = rng.randint(0, 23), rng.randint(0, 59), rng.randint(0, 59)
        kind = rng.randrange(6)
        if kind == 0:
            fl, digits = 4, "%04d" % y                      # fraction = the year
        elif kind == 1:
            fl, digits = 4, "%02d%02d" % (m, d)             # fraction = month and day
        elif kind == 2:
            fl, digits = 6, "%02d%02d%02d" % (h, mi, s_)    # fraction = the clock
        elif kind == 3:
            fl, digits = 2, "%02d" % d                      # fraction = the day
        elif kind == 4:
            h, mi = (y // 100) % 24, (y % 100) % 60         # clock = the year's digits
            fl, digits = 4, "%04d" % y
        else:
            m = d = h = mi = s_ = rng.randint(1, 12)        # everything the same number
            fl, digits = 2, "%02d" % d
        us = int(digits.ljust(6, "0"))
        dt = [y, m, d, h, mi, s_, us]
        for fam in (3, 14):
            sr, ht, hs, flw = render(fam, dt, fl, rng)
            cases.append({"kind": "c01", "fam": fam, "dt": dt, "ht": ht, "hs": hs, "fl": flw, "s": sr, "kw": {"languages": ["en"]} if rng.random() < 0.7 else {},
                          "settings": {"RELATIVE_BASE": [2021, 6, 15, 12, 0, 0, 0]}, "api": "ddp", "probe": True})
    # ---- the written wall clock is returned as written whatever TIMEZONE is: wall times that do not exist (spring-forward
    # gap) or exist twice (fold) in a DST zone are where a zone-aware round trip would move them
    import pytz
    for z in ["America/New_York", "Europe/Berlin", "Australia/Lord_Howe", "America/St_Johns", "Pacific/Auckland", "America/Sao_Paulo", "Asia/Tehran", "Europe/London"]:
        tz = pytz.timezone(z)
        tt = [(t, i) for i, t in enumerate(tz._utc_transition_times) if 1971 <= t.year <= 2036 and i > 0]
        for t, i in rng.sample(tt, min(len(tt), 3 if ctx.quick() else 12)):
            before = tz._transition_info[i - 1][0]
            after = tz._transition_info[i][0]
            lo, hi = sorted([t + before, t + after])
            if hi - lo < datetime.timedelta(minutes=2):
                continue
            w = (lo + (hi - lo) / 2).replace(microsecond=0)          # inside the gap (or the fold)
            for w_ in (w, lo, hi - datetime.timedelta(seconds=1), lo - datetime.timedelta(hours=1)):
                dt = [w_.year, w_.month, w_.day, w_.hour, w_.minute, w_.second, 0]
                for fam in rng.sample(range(1, 15), 3):
                    s_, ht, hs, flw = render(fam, dt, 0, rng)
                    st = {"RELATIVE_BASE": [2021, 6, 15, 12, 0, 0, 0], "TIMEZONE": z}
                    if rng.random() < 0.3:
                        st["PREFER_DATES_FROM"] = rng.choice(["past", "future"])
                    cases.append({"kind": "c01", "fam": fam, "dt": dt, "ht": ht, "hs": hs, "fl": flw, "s": s_,
                                  "kw": {"languages": ["en"]} if rng.random() < 0.7 else {}, "settings": st, "api": "ddp", "probe": True})
    # ---- complete dates ON the reference date (and on today's date when no reference is given), times before and after
    # the reference, every PREFER_DATES_FROM: a complete date is never moved by the preferences
    today = datetime.datetime.utcnow()
    for base, explicit in (([2021, 6, 15, 12, 0, 0, 0], True), ([today.year, today.month, today.day, 12, 0, 0, 0], False),
                           ([2024, 2, 29, 0, 0, 0, 0], True), ([1999, 12, 31, 23, 59, 59, 0], True)):
        for hh, mi_, ss in ((0, 0, 0), (6, 30, 15), (11, 59, 59), (12, 0, 0), (12, 0, 1), (18, 30, 45), (23, 59, 59)):
            dt = [base[0], base[1], base[2], hh, mi_, ss, 0]
            for fam in (rng.sample(range(1, 15), 5) if ctx.quick() else range(1, 15)):
                for pdf in ("past", "future", "current_period"):
                    s_, ht, hs, flw = render(fam, dt, 0, rng)
                    st = {"PREFER_DATES_FROM": pdf}
                    if explicit:
                        st["RELATIVE_BASE"] = list(base)
                    cases.append({"kind": "c01", "fam": fam, "dt": dt, "ht": ht, "hs": hs, "fl": flw, "s": s_,
                                  "kw": {"languages": ["en"]} if rng.random() < 0.7 else {}, "settings": st, "api": "ddp", "probe": True})
    # ---- epoch numbers
    zones = ["UTC", "Asia/Kolkata", "America/New_York", "Europe/Berlin", "Australia/Lord_Howe", "Pacific/Apia",
             "Asia/Kathmandu", "America/St_Johns", "Pacific/Kiritimati", "Africa/Nairobi"]
    # TIMEZONE given as a library offset / abbreviation (resolved through the library's own table)
    libzones = {"+0530": 19800, "-03:30": -12600, "UTC+05:45": 20700, "UTC-12:00": -43200, "+1400": 50400, "AKST": -32400, "NPT": 20700}
    n_inst = 40 if ctx.quick() else 400
    insts = [10 ** 9, 10 ** 10 - 1, 1234567890, 2 ** 31 - 1, 2 ** 31, 2 ** 32, 1500000000, 9 * 10 ** 9, 8999999999, 4102444800]
    insts += [rng.randint(10 ** 9, 10 ** 10 - 1) for _ in range(n_inst)]
    for n in insts:
        for z in (zones if not ctx.quick() else rng.sample(zones, 3) + ["UTC"]):
            for sfx in (0, 3, 6):
                frac = 0 if sfx == 0 else (rng.randint(0, 999) * 1000 if sfx == 3 else rng.randint(0, 999999))
                neg = rng.random() < 0.3
                nn = -n if neg else n
                inst = pytz.utc.localize(datetime.datetime(1970, 1, 1) + datetime.timedelta(seconds=nn))
                zz = z
                if rng.random() < 0.15:
                    zz = rng.choice(sorted(libzones))
                    off = libzones[zz]
                else:
                    off = int(inst.astimezone(pytz.timezone(z)).utcoffset().total_seconds())
                s_ = str(nn) + ("" if sfx == 0 else ("%03d" % (frac // 1000) if sfx == 3 else "%06d" % frac))
                st = {"TIMEZONE": zz}
                if neg:
                    st["PARSERS"] = ["timestamp", "negative-timestamp", "relative-time", "custom-formats", "absolute-time"]
                days, sod = divmod(nn, 86400)
                cases.append({"kind": "epoch", "days": days, "sod": sod, "frac": frac, "zoff": off, "s": s_,
                              "kw": {"languages": ["en"]} if rng.random() < 0.7 else {}, "settings": st, "api": "ddp", "probe": False})
    # "all TIMEZONE values": every name of the tz database (Etc/GMT+5 means UTC-5; links; legacy names), each with an instant
    for z in pytz.all_timezones:
        for _ in range(1 if ctx.quick() else 4):
            n = rng.choice([10 ** 9, 1234567890, 2 ** 31, rng.randint(10 ** 9, 10 ** 10 - 1), rng.randint(10 ** 9, 2 * 10 ** 9)])
            sfx = rng.choice([0, 3, 6])
            frac = 0 if sfx == 0 else (rng.randint(0, 999) * 1000 if sfx == 3 else rng.randint(0, 999999))
            inst = pytz.utc.localize(datetime.datetime(1970, 1, 1) + datetime.timedelta(seconds=n))
            off = int(inst.astimezone(pytz.timezone(z)).utcoffset().total_seconds())
            s_ = str(n) + ("" if sfx == 0 else ("%03d" % (frac // 1000) if sfx == 3 else "%06d" % frac))
            days, sod = divmod(n, 86400)
            cases.append({"kind": "epoch", "days": days, "sod": sod, "frac": frac, "zoff": off, "s": s_,
                          "kw": {"languages": ["en"]} if rng.random() < 0.7 else {}, "settings": {"TIMEZONE": z}, "api": "ddp", "probe": False})
    return cases


def describe(c):
    return {"call": "DateDataParser(%s, settings=%r).get_date_data(%r)" % (
        ", ".join("%s=%r" % kv for kv in c["kw"].items()), c["settings"], c["s"]), "kind": c["kind"],
        "earlier_calls_of_the_process": neighbours.describe_pre(c)}


def run(ctx):
    if ctx.replay:
        cfg = MC_CFG % ("2015", "103015", "0, 123000")
    elif ctx.quick():
        cfg = MC_CFG % (", ".join(map(str, Q_YEARS)), ", ".join(map(str, Q_TIMES)), ", ".join(map(str, Q_MICROS)))
    else:
        cfg = MC_CFG % (", ".join(map(str, sorted(set(Q_YEARS + list(range(1, 10000, 97)) + list(range(1995, 2030)))))),
                        ", ".join(map(str, Q_TIMES + [1, 100, 10000, 235900, 130507])), ", ".join(map(str, Q_MICROS)))
    mc = ctx.tlc("P_C01", cfg, timeout=3000)
    mc.require_clean()
    for inv in mc.invariant_violated:
        ctx.violation({"tlc_counterexample": mc.counterexample()[-1:]}, "TLC refuted invariant %s of P_C01" % inv)
    cases = core.replay_cases(ctx)
    if not cases:
        cases = make_cases(ctx, None)
        # a share of the cases runs after a history of neighbouring calls (other clock spellings first of all)
        neighbours.attach(ctx.rng, cases, 0.12, weights={"clock": 5, "zone": 2})
    results = core.run_cases(ctx, "harness.lib", "call_parse", cases)
    if not ctx.replay:
        # TIMEZONE='local' (the default): the process-local zone comes from the TZ environment of the workers
        import pytz
        rng = ctx.rng
        for tzenv in ["Asia/Kolkata", "America/New_York", "Pacific/Kiritimati"] + ([] if ctx.quick() else ["Europe/Berlin", "Australia/Lord_Howe", "UTC"]):
            lc = []
            for _ in range(60 if ctx.quick() else 600):
                # pytz (the oracle) knows no DST rules after 2037 while the process-local zone (zoneinfo) extrapolates
                # them: zones with DST are only probed up to 2^31 - 1 seconds
                dst_free = tzenv in ("Asia/Kolkata", "Pacific/Kiritimati", "UTC")
                n = rng.choice([10 ** 9, 10 ** 10 - 1, 2 ** 31, rng.randint(10 ** 9, 10 ** 10 - 1)]) if dst_free else \
                    rng.choice([10 ** 9, 2 ** 31 - 1, rng.randint(10 ** 9, 2 ** 31 - 1)])
                sfx = rng.choice([0, 3, 6])
                frac = 0 if sfx == 0 else (rng.randint(0, 999) * 1000 if sfx == 3 else rng.randint(0, 999999))
                inst = pytz.utc.localize(datetime.datetime(1970, 1, 1) + datetime.timedelta(seconds=n))
                off = int(inst.astimezone(pytz.timezone(tzenv)).utcoffset().total_seconds())
                s_ = str(n) + ("" if sfx == 0 else ("%03d" % (frac // 1000) if sfx == 3 else "%06d" % frac))
                days, sod = divmod(n, 86400)
                lc.append({"kind": "epoch", "days": days, "sod": sod, "frac": frac, "zoff": off, "s": s_, "kw": {"languages": ["en"]},
                           "settings": rng.choice([None, {"TIMEZONE": "local"}]), "api": "ddp", "probe": False, "tzenv": tzenv})
            cases += lc
            results += core.run_cases(ctx, "harness.lib", "call_parse", lc, nproc=4, env={"TZ": tzenv})
    records, nabs = [], 0
    for i, (c, r) in enumerate(zip(cases, results)):
        rec = {"kind": c["kind"], "tid": i, "out": r["out"], "period": r["period"], "exc": r["exc"],
               "off": NAIVE if r["off"] == "naive" else r["off"]}
        if c["kind"] == "c01":
            rec.update(dt=c["dt"], ht=c["ht"], hs=c["hs"], fl=c["fl"])
        else:
            # the number as a whole is milli / microseconds since the epoch: for a NEGATIVE number the digits after the
            # seconds move the instant further back (-1234567890500 ms = -1234567890.5 s).  `fwd` is the other reading
            # (seconds negative, fraction added forwards), which the pinned tree implements and a test pins: finding
            neg = c["s"].startswith("-")
            total_us = (c["days"] * 86400 + c["sod"]) * 10 ** 6 + (-c["frac"] if neg else c["frac"])
            d2, rem = divmod(total_us, 86400 * 10 ** 6)
            s2, f2 = divmod(rem, 10 ** 6)
            rec.update(days=d2, sod=s2, frac=f2, zoff=c["zoff"], neg=neg and c["frac"] != 0, fwd=[c["days"], c["sod"], c["frac"]])
        records.append(rec)
        ar = absfam.abs_records(i, r)
        nabs += len(ar)
        records.extend(ar)
    tuples, _ = core.validate_traces(ctx, "T_C01", absfam.TRACE_CFG, records, tags=("REJECT", "SKIP", "KNOWN"))
    sp = sum(1 for t in tuples["SKIP"] if t[2] == "prop")
    sa = sum(1 for t in tuples["SKIP"] if t[2] == "abs")
    absfam.collect(ctx, tuples, cases, results, "AbsParser", describe)
    cov = {
        "states": mc.distinct, "transitions": mc.generated,
        "traces_validated_against_impl": len(cases) - sp, "abs_events_validated": nabs - sa,
        "evaluations": len(cases),
        "distinct_nontrivial": len({(c["s"], repr(sorted((c["settings"] or {}).items())), repr(c["kw"])) for c, r in zip(cases, results) if r["out"]}),
        "rule": "case = (rendering family, datetime, fraction length, language selected/autodetected, PREFER_* settings) or (epoch number, suffix, sign, TIMEZONE); non-trivial = distinct call returning a datetime",
        "exhaustive": False,
        "by_kind": {k: sum(1 for c in cases if c["kind"] == k) for k in ("c01", "epoch")},
        "autodetected": sum(1 for c in cases if not c["kw"]),
        "samples": [dict(describe(c), observed=r["out"]) for c, r in list(zip(cases, results))[:: max(1, len(cases) // 6)]][:6],
    }
    return core.finish(ctx, LEVEL, cov, findings_desc={f["id"]: f["signature"].get("text", "") for f in core.load_findings("C01")[0]}, assumptions=[
        "negative epoch numbers: the number as a whole is milli / microseconds since the epoch (the suffix moves the instant further back); the tree's forward reading, pinned by one of its tests, is known finding C01-negative-fraction",
        "zone offsets of IANA zones at the instant are taken from pytz (trusted); TIMEZONE='local' is exercised by running workers under several TZ environments"])
