"""C06 - every locale's relative phrases mean what their English canon means.

Exhaustive over the vocabulary exported from the tree: every fixed relative phrase and every counted
pattern of the shape 'text + one number group' of all languages and locales, several counts and
reference times.  TLC (T_C06.tla) compares each result with the English canonical expression's result
and with the value Freshness.tla (the specification bound by C04) assigns to the canonical key."""

import json
import os

from .. import core

LEVEL = "exploration"


def run(ctx):
    exported = core.run_cases(ctx, "harness.export", "export_locales", [{}], nproc=1)[0]
    rng = ctx.rng
    langs = exported["language_order"]
    findings, _ = core.load_findings("C06")
    known = {(f["signature"]["locale"], f["signature"]["phrase"]): f["id"] for f in findings}
    rep = core.replay_cases(ctx)
    if rep:
        langs = [rep[0]["lang"]]
    # "with any number substituted": besides the small counts, numbers that look like something else (a year, a day of
    # the month, an hour, a leading zero) - a rewrite rule keyed on such a shape hits only them
    WIDE = ["0", "3", "7", "10", "24", "31", "45", "60", "100", "120", "365", "1000", "1900", "1999", "2000", "2015", "2021", "2099", "07", "12345"]
    if ctx.quick():
        counts = ["1", "2", "11"] + rng.sample(WIDE, 3) + [rng.choice(["1999", "2015", "2021", "1900"])]
        # decimal counts, short and long fractions, either separator
        counts += [rng.choice(["1.5", "2,5", "0.5", "10.25"]), rng.choice(["0.125", "2,375", "1.0625", "3.141", "12.0005"])]
        bases = [[2021, 3, 31, 10, 30, 17, 0]]
    else:
        counts = ["1", "2", "11", "1.5", "2,5", "0.5", "10.25", "0.125", "2,375", "1.0625", "12.0005"] + WIDE
        bases = [[2021, 6, 15, 12, 0, 0, 0], [2021, 3, 31, 10, 30, 17, 0], [2020, 2, 29, 23, 59, 59, 0]]
    reqs = []
    for L in langs:
        tg = [L] + sorted(exported["langs"][L]["locales"])
        for i in range(0, len(tg), 6):
            reqs.append({"lang": L, "targets": tg[i:i + 6], "counts": counts, "bases": bases, "quick": ctx.quick(), "twice": i == 0})
    res = core.run_cases(ctx, "harness.c05lib", "walk_relative", reqs, chunk=1)
    records, index = [], []
    for L, recs in zip([r["lang"] for r in reqs], res):
        for rec in recs:
            if "error" in rec:
                continue
            for u in rec["runs"]:
                tid = len(index)
                index.append((L, rec, u))
                records.append({"tid": tid, "assign": rec["assign"], "terms": rec["canon"]["terms"], "dir": rec["canon"]["dir"], "base": u["base"],
                                "out": u["out"], "period": u["period"], "exc": u["exc"], "en_out": u["en_out"], "en_period": u["en_period"]})
    tuples, gen = core.validate_traces(ctx, "T_C06", "SPECIFICATION TSpec\nPOSTCONDITION Consumed\nCHECK_DEADLOCK FALSE\n", records, tags=("REJECT", "SKIP"))
    sp = len(tuples["SKIP"])
    failing = {}
    for t in tuples["REJECT"]:
        _, tid, kind, verdict, exp = t[:5]
        L, rec, u = index[tid]
        failing.setdefault((rec["target"], rec["word"]), []).append((rec, u, verdict, exp))
    for (target, word), lst in sorted(failing.items()):
        rec, u, verdict, exp = lst[0]
        fid = known.get((target, word)) or known.get((target.split("-")[0] if rec["tk"] == "locales" else target, word))
        if fid:
            ctx.known(fid)
            continue
        ctx.violation({"call": "DateDataParser(%s=[%r], settings={'RELATIVE_BASE': %r, 'TIMEZONE': 'UTC'}).get_date_data(%r)" % (rec["tk"], target, u["base"], rec["phrase"]),
                       "locale": target, "listed_phrase": word, "listed_under": rec["key"], "english_canon": rec["canon"]["text"], "failing_probes": len(lst)},
                      verdict, expected={"spec": exp, "english": u["en_out"], "english_period": u["en_period"]},
                      observed={"out": u["out"], "period": u["period"], "exc": u["exc"]}, extra={"full_case": {"lang": L}})
    if os.environ.get("VERIF_DUMP_FAILING"):
        with open(os.environ["VERIF_DUMP_FAILING"], "w") as f:
            json.dump([{"locale": k[0], "phrase": k[1], "key": v[0][0]["key"], "ik": v[0][0]["ik"], "n": len(v), "verdicts": sorted({x[2] for x in v}),
                        "example": v[0][0]["phrase"], "observed": v[0][1]["out"], "english": v[0][1]["en_out"], "spec": v[0][3]} for k, v in sorted(failing.items())], f, indent=1)
    cov = {
        "evaluations": len(records), "distinct_nontrivial": len({(r["target"], r["phrase"]) for _, r, u in index if u["out"]}),
        "rule": "case = (language or locale, listed relative phrase or instantiated counted pattern, reference time); non-trivial = distinct (locale, phrase) returning a datetime",
        "exhaustive": not ctx.quick(), "languages": len(langs), "outside_domain_probes": sp,
        "fixed_phrases": len({(r["target"], r["word"]) for _, r, _ in index if r["ik"] == "fixed"}),
        "patterns": len({(r["target"], r["word"]) for _, r, _ in index if r["ik"] == "pattern"}),
        "states": gen, "transitions": gen, "traces_validated_against_impl": len(records) - sp, "failing_locale_phrase_pairs": len(failing),
        "samples": [{"locale": r["target"], "phrase": r["phrase"], "canon": r["canon"]["text"], "observed": u["out"], "english": u["en_out"]} for _, r, u in index[:: max(1, len(index) // 6)]][:6],
    }
    return core.finish(ctx, LEVEL, cov, findings_desc={f["id"]: "relative %s %r of %s (listed under %r) does not parse like its English canonical expression" % (
        f["signature"].get("kind", "phrase"), f["signature"]["phrase"], f["signature"]["locale"], f["signature"].get("listed_under", "?")) for f in findings}, assumptions=[
        "counted patterns are instantiated only when they are 'literal text + one number group' (optional letters dropped, \\s* as nothing, \\s+ as one space)",
        "domain: the phrase is listed under exactly one key of the vocabulary; a pattern listed under several keys is outside",
        "the canonical key is evaluated by Freshness.tla (bound to the code by C04) and by the real English parse"])
