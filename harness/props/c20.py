"""C20 - concurrent calls return what the same calls return sequentially.

E1: TLC model-checks spec/SharedState2.tla (two threads, every shared read/write one action) under the
    single-preemption constraint: Linearizable and MutualExclusion hold for the locked design; the
    unlocked design is run too and must be refuted.
E2: systematic schedule exploration of the real code (sys.settrace, no source hooks): for every ordered
    pair of the pool, A is suspended at its k-th executed library line, B runs to completion, A resumes;
    results compared with the sequential ones.
E3: TLC (T_C20.tla) validates every explored schedule: property-on-trace and lock discipline."""

import concurrent.futures as cf
import json
import os
import subprocess

from .. import core

LEVEL = "model_checking"
DRV = os.path.join(core.VERIF, "harness", "c20drv.py")

CFG = """SPECIFICATION Spec
CONSTANTS
  Locked = %s
  OnePreemptOnly = %s
CONSTRAINT OnePreempt
INVARIANT Linearizable
INVARIANT MutualExclusion
CHECK_DEADLOCK FALSE
"""
SIG = {"PREFER_DATES_FROM": "past"}
N = "01/02/2015"
POOL = {
    "fr_sig": {"api": "parse", "s": N, "languages": ["fr"], "settings": SIG},
    "en_sig": {"api": "parse", "s": N, "languages": ["en"], "settings": SIG},
    "fr_def": {"api": "parse", "s": N, "languages": ["fr"], "settings": None},
    "tl_def": {"api": "parse", "s": N, "languages": ["tl"], "settings": None},
    "en_def": {"api": "parse", "s": N, "languages": ["en"], "settings": None},
    "fr_first": {"api": "parse", "s": "mars 2015", "languages": ["fr"], "settings": {"PREFER_DAY_OF_MONTH": "first"}},
    "en_last": {"api": "parse", "s": N, "languages": ["en"], "settings": {"PREFER_DAY_OF_MONTH": "last"}},
    "skip_foo": {"api": "parse", "s": "5 march 2015 foo", "languages": ["en"], "settings": {"SKIP_TOKENS": ["foo"]}},
    "noskip_foo": {"api": "parse", "s": "5 march 2015 foo", "languages": ["en"], "settings": None},
    "fr_raw": {"api": "parse", "s": "5 février 2015", "languages": ["fr"], "settings": {"NORMALIZE": False}},
    "fr_norm": {"api": "parse", "s": "5 fevrier 2015", "languages": ["fr"], "settings": None},
    "lim1_en": {"api": "parse", "s": N, "languages": ["en"], "settings": {"CACHE_SIZE_LIMIT": 1}},
    "lim_fr": {"api": "parse", "s": N, "languages": ["fr"], "settings": {"CACHE_SIZE_LIMIT": 1000, "DATE_ORDER": "DMY"}},
    "search_en": {"api": "search", "s": "on 12 January 2010 and yesterday", "languages": ["en"], "settings": None},
    "rel_en": {"api": "parse", "s": "yesterday", "languages": ["en"], "settings": None},
    "search_sig": {"api": "search", "s": "on 12 January 2010 and yesterday", "languages": ["en"], "settings": SIG},
    # language autodetected per call and reported with the hits
    "search_fr_adl": {"api": "search", "s": "Il est parti le 5 mai 2015, puis revenu le 7 juin 2016.", "languages": None, "settings": None, "adl": True},
    "search_en_adl": {"api": "search", "s": "She left on May 6th 2004 and came back on March 3rd 2005.", "languages": None, "settings": None, "adl": True},
    "search_ru_adl": {"api": "search", "s": "Он уехал 5 мая 2015 года и вернулся 7 июня 2016 года.", "languages": ["ru", "en"], "settings": None, "adl": True},
    "ddp_sig": {"api": "ddp", "s": "yesterday", "languages": ["en"], "settings": SIG},
    "ddp_fr": {"api": "ddp", "s": N, "languages": ["fr"], "settings": None},
    # every public entry point that reaches the shared settings must be serialised: get_date_tuple is one of them
    "tuple_fr": {"api": "tuple", "s": N, "languages": ["fr"], "settings": None},
    "tuple_sig": {"api": "tuple", "s": N, "languages": ["fr"], "settings": SIG},
    "tuple_tl": {"api": "tuple", "s": N, "languages": ["tl"], "settings": None},
    "jalali": {"api": "jalali", "s": "01/02/1394", "settings": None},
    "hijri": {"api": "hijri", "s": "01-02-1436", "settings": None},
}
PAIRS = [("fr_sig", "en_sig", False), ("fr_def", "tl_def", False), ("en_def", "en_def", False), ("fr_def", "en_def", False),
         ("fr_first", "en_last", False), ("skip_foo", "noskip_foo", False), ("fr_raw", "fr_norm", False),
         ("lim1_en", "lim_fr", True), ("search_en", "rel_en", False), ("search_sig", "ddp_sig", False),
         ("ddp_fr", "tl_def", False), ("jalali", "fr_def", False), ("hijri", "fr_def", False), ("ddp_fr", "ddp_sig", False),
         ("tuple_fr", "tl_def", False), ("tuple_sig", "en_sig", False), ("tuple_tl", "fr_def", False), ("tuple_fr", "tuple_tl", False),
         ("search_fr_adl", "search_en_adl", False), ("search_ru_adl", "search_en_adl", False), ("search_fr_adl", "fr_def", False)]


def explore(ctx, a, b, cold, points, budget, tbudget, fork=False):
    req = {"A": POOL[a], "B": POOL[b], "cold": cold, "points": points, "budget": budget, "seed": ctx.seed,
           "block_timeout": 0.03, "time_budget": tbudget, "fork": fork}
    p = subprocess.run([core.PY, DRV], input=json.dumps(req), env=ctx.pyenv(), stdout=subprocess.PIPE, stderr=subprocess.PIPE,
                       text=True, timeout=tbudget + 300)
    if p.returncode != 0:
        raise core.Machinery("schedule driver failed for (%s, %s): %s" % (a, b, p.stderr[-800:]))
    return json.loads(p.stdout[p.stdout.index("{"):])


def run(ctx):
    ctx.snapshot()
    mc = ctx.tlc("SharedState2", CFG % ("TRUE", "TRUE"), name="SharedState2_locked", timeout=900, workers=8)
    mc.require_clean()
    mc_all = ctx.tlc("SharedState2", CFG % ("TRUE", "FALSE"), name="SharedState2_locked_all_interleavings", timeout=900, workers=8)
    mc_all.require_clean()
    unl = ctx.tlc("SharedState2", CFG % ("FALSE", "TRUE"), name="SharedState2_unlocked", timeout=900, workers=8)
    if mc.invariant_violated or mc_all.invariant_violated:
        ctx.violation({"tlc_counterexample": (mc.counterexample() or mc_all.counterexample())[-4:]}, "TLC refutes %s on the locked SharedState2 design" % (mc.invariant_violated or mc_all.invariant_violated))
    if not unl.invariant_violated:
        raise core.Machinery("the unlocked configuration of SharedState2 is not refuted: the model cannot see the races")
    rep = core.replay_cases(ctx)
    if rep:
        jobs = [(rep[0]["A"], rep[0]["B"], rep[0].get("cold", False))]
    else:
        jobs = []
        for a, b, cold in PAIRS:
            jobs.append((a, b, cold))
            if a != b:
                jobs.append((b, a, cold))
        # the same pairs inside a forked child (inherited locks and caches): a sample in the quick tier
        FORKED = [("ddp_fr", "tl_def"), ("tl_def", "ddp_fr"), ("tuple_fr", "tl_def"), ("ddp_sig", "search_sig"), ("jalali", "fr_def"), ("fr_def", "jalali"),
                  ("ddp_fr", "ddp_sig"), ("fr_sig", "en_sig")]
        for a, b in (FORKED if ctx.quick() else [(x, y) for x, y, _ in PAIRS] + [(y, x) for x, y, _ in PAIRS if x != y]):
            jobs.append((a, b, False, True))
    points = "hot" if ctx.quick() else "all"
    budget = 150 if ctx.quick() else 100000
    tb = 60 if ctx.quick() else 500

    def one(j):
        return explore(ctx, j[0], j[1], j[2], points, budget, tb, fork=len(j) > 3)

    with cf.ThreadPoolExecutor(max_workers=core.NCPU) as ex:
        outs = list(ex.map(one, jobs))
    records = []
    index = []
    for ji, (j, o) in enumerate(zip(jobs, outs)):
        if o["seq_order_dependent"]:
            ctx.violation({"pair": j, "A": POOL[j[0]], "B": POOL[j[1]]}, "the sequential results of the pair depend on their order (C03)")
        for rec in o["recs"]:
            k, holds, blocked, aok, bok = rec
            records.append({"tid": len(index), "k": k, "holds": "unknown" if holds == "unknown" else ("yes" if holds else "no"),
                            "blocked": bool(blocked), "aok": bool(aok), "bok": bool(bok)})
            index.append((ji, k))
    tuples, _ = core.validate_traces(ctx, "T_C20", "SPECIFICATION TSpec\nPOSTCONDITION Consumed\nCHECK_DEADLOCK FALSE\n", records, tags=("REJECT", "SKIP"))
    reported = set()
    for t in tuples["REJECT"]:
        _, tid, kind, why, k = t[:5]
        ji, kk = index[tid]
        j, o = jobs[ji], outs[ji]
        if kind == "abs":
            ctx.note_drift("SharedState2", {"pair": j, "k": kk, "why": "B %s while A %s the lock" % ("completed", "held") if why else why})
            continue
        if ji in reported:
            continue
        reported.add(ji)
        bad = [b for b in o["bad"]][:5]
        ctx.violation({"A": POOL[j[0]], "B": POOL[j[1]], "cold_caches": j[2], "schedule": "A suspended at its k-th executed library line, B run to completion, A resumed",
                       "violating_k": [b["k"] for b in o["bad"]][:40], "first": bad},
                      "concurrent results differ from the sequential ones in %d of %d explored schedules" % (o["nbad"], o["schedules"]),
                      expected={"A": o["seqA"], "B": o["seqB"]}, observed=bad[:2],
                      extra={"full_case": {"A": j[0], "B": j[1], "cold": j[2]}})
    for j, o in zip(jobs, outs):      # deadlocks and the like
        for b in o["bad"]:
            if "why" in b and not any(v["case"].get("A") == POOL[j[0]] and v["case"].get("B") == POOL[j[1]] for v in ctx.violations):
                ctx.violation({"A": POOL[j[0]], "B": POOL[j[1]], "k": b["k"], "at": b.get("at")}, b["why"], extra={"full_case": {"A": j[0], "B": j[1], "cold": j[2]}})
    total = sum(o["schedules"] for o in outs)
    cov = {
        "states": mc.distinct + mc_all.distinct, "transitions": mc.generated + mc_all.generated,
        "traces_validated_against_impl": len(records),
        "evaluations": total, "distinct_nontrivial": sum(1 for r in records if r["holds"] != "unknown"),
        "rule": "schedule = (ordered pair of pool calls, preemption point k of A); non-trivial = schedule whose lock state at the preemption point was observed",
        "exhaustive": not ctx.quick(),
        "ordered_pairs": len(jobs), "blocked_schedules": sum(o["blocked"] for o in outs),
        "library_lines_per_call": {"%s|%s" % (j[0], j[1]): o["K"] for j, o in zip(jobs, outs)},
        "tlc": {"locked_one_preempt": mc.distinct, "locked_all_interleavings": mc_all.distinct, "unlocked_refuted": unl.invariant_violated},
        "samples": [{"A": POOL[j[0]], "B": POOL[j[1]], "K": o["K"], "explored": o["schedules"], "blocked": o["blocked"], "bad": o["nbad"]} for j, o in list(zip(jobs, outs))[:5]],
    }
    return core.finish(ctx, LEVEL, cov, assumptions=[
        "schedules: one preemption of A at an executed line of the library (Python line granularity), B run to completion, A resumed; both orders of every pair",
        "quick explores the lines of the functions that touch shared state plus a seeded sample of the others; thorough explores every line",
        "a schedule in which B cannot finish within 30 ms while A is suspended is recorded as blocked (B waits for a lock) and B's result is checked after A resumes"])
