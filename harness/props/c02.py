"""C02 - parse is total: a datetime or None, documented exceptions only.

E1: P_C02.tla - the exception flow of the pipeline (stages, may-raise sets, catch sets): only documented
    classes escape and an invalid setting is rejected before any stage looks at the string; the pinned
    handlers are run too and must be refuted.
Exploration (model-guided): strings built along the token alphabets of the specification, mutations of
    real date strings in many languages, digit / separator soups, arbitrary Unicode (<= 100 chars) x a pool
    of valid settings with boundary values x language / locale / region choices x date_formats; invalid
    settings x arbitrary strings.  TLC (T_C02.tla) judges every recorded call."""

import json

from .. import absfam, core
from ..c02gen import INVALID_SETTINGS, gen_formats, gen_string, settings_pool

LEVEL = "exploration"
P_CFG = """SPECIFICATION Spec
CONSTANTS
  CatchAbs = %s
  CatchFmt = %s
  AmbiguousHandled = %s
INVARIANT OnlyDocumentedEscape
INVARIANT InvalidSettingRejectedFirst
CHECK_DEADLOCK FALSE
"""


def run(ctx):
    rng = ctx.rng
    mc = ctx.tlc("P_C02", P_CFG % ('{"ValueError", "OverflowError"}', '{"OverflowError"}', "TRUE"), workers=2, name="P_C02_repaired")
    mc.require_clean()
    pinned = ctx.tlc("P_C02", P_CFG % ('{"ValueError"}', "{}", "FALSE"), workers=2, name="P_C02_pinned")
    if mc.invariant_violated:
        ctx.violation({"tlc_counterexample": mc.counterexample()[-2:]}, "TLC refutes %s on the repaired exception flow" % mc.invariant_violated)
    if not pinned.invariant_violated:
        raise core.Machinery("the pinned exception-flow configuration is not refuted")
    langs_exp = core.run_cases(ctx, "harness.export", "export_locales", [{}], nproc=1)[0]
    pv = ctx.tlc("P_Validate", "SPECIFICATION Spec\nCONSTANTS\n  MaxEntries = %d\n  Languages = {\"en\", \"fr\"}\nINVARIANT OrderInsensitive\nINVARIANT AcceptedAreTyped\nPROPERTY StaysRejected\nCHECK_DEADLOCK FALSE\n"
                 % (2 if ctx.quick() else 3), name="P_Validate", timeout=1800)
    pv.require_clean()
    for inv in list(pv.invariant_violated) + list(getattr(pv, "property_violated", []) or []):
        ctx.violation({"tlc_counterexample": pv.counterexample()[-2:]}, "TLC refuted law %s of Validate.tla" % inv)
    pa = ctx.tlc("P_Args", "SPECIFICATION Spec\nCONSTANTS\n  Languages = {\"en\", \"fr\"}\nINVARIANT OutcomeClasses\nINVARIANT WellTypedAccepted\n"
                 "INVARIANT WrongTypeRefusedEarly\nINVARIANT ValueErrorMeans\nCHECK_DEADLOCK FALSE\n", timeout=900, name="P_Args")
    pa.require_clean()
    for inv in pa.invariant_violated:
        ctx.violation({"tlc_counterexample": pa.counterexample()[-1:]}, "TLC refuted law %s of Validate.tla (ArgsVerdict)" % inv)
    order = langs_exp["language_order"]
    locales = [loc for L in order for loc in langs_exp["langs"][L]["locales"]]
    cases = core.replay_cases(ctx)
    if not cases:
        cases = []
        pool = settings_pool(rng, 32 if ctx.quick() else 120)
        n = 12000 if ctx.quick() else 300000
        auto_pool = pool[:3]
        for _ in range(n):
            s = gen_string(rng)
            r = rng.random()
            kw = {}
            if r < 0.55:
                kw["languages"] = rng.sample(order, rng.randint(1, 3))
                st = rng.choice(pool)
            elif r < 0.7:
                kw["locales"] = [rng.choice(locales)]
                st = rng.choice(pool)
            elif r < 0.9:
                L = rng.choice(order)
                kw["languages"] = [L]
                kw["region"] = rng.choice(["US", "GB", "001", "IN", "ZZ", "419"])
                st = rng.choice(pool)
            else:
                st = rng.choice(auto_pool)      # autodetection: few settings keys (every new key rebuilds all locales)
            fm = gen_formats(rng)
            if fm:
                kw["date_formats"] = fm
            cases.append({"s": s, "kw": kw, "settings": st, "api": rng.choice(["ddp", "ddp", "parse"]), "probe": True, "valid": True})
        # strings that MATCH their format: rendered from a datetime with a generated format (the random pairs above almost
        # never match), offset-bearing directives (%z, %Z) and the ends of the datetime range included
        import datetime as _dtm
        from ..c02gen import DIRECTIVES
        for _ in range(n // 6):
            ds = rng.sample([d for d in DIRECTIVES if d != "%%"], rng.randint(1, 7))
            if rng.random() < 0.5 and "%z" not in ds:
                ds.append("%z")
            fmt = "".join(d + rng.choice(["", " ", "-", "/", ":", ".", ", ", "T"]) for d in ds).strip()
            y = rng.choice([1, 2, 1000, 1969, 1970, 2021, 2038, 9998, 9999, rng.randint(1, 9999)])
            tz = rng.choice([_dtm.timezone.utc, _dtm.timezone(_dtm.timedelta(minutes=rng.choice([330, -210, 840, -720, 60, 345, -1, 1439, -1439])))])
            try:
                d0 = _dtm.datetime(y, rng.choice([1, 2, 12, rng.randint(1, 12)]), rng.choice([1, 28, rng.randint(1, 28)]), rng.choice([0, 12, 23]), rng.choice([0, 59]),
                                   rng.choice([0, 59]), rng.choice([0, 999999, 120]), tzinfo=tz)
                s = d0.strftime(fmt)
                if y < 1000:
                    s = s.replace(str(y), "%04d" % y, 1) if "%Y" in fmt else s
            except (ValueError, OverflowError):
                continue
            if rng.random() < 0.3:
                s = s.replace("+", rng.choice(["+", " +", "-"]), 1)
            kw = rng.choice([{}, {"languages": ["en"]}, {"languages": [rng.choice(order)]}, {"locales": [rng.choice(locales)]}])
            kw = dict(kw)
            kw["date_formats"] = rng.sample([fmt, "%d.%m.%Y", "%Y"], rng.randint(1, 3)) if rng.random() < 0.4 else [fmt]
            st_ = rng.choice(pool)
            if rng.random() < 0.5:
                # every kind of TIMEZONE / TO_TIMEZONE value the library resolves: tz database names, its own abbreviations,
                # numeric offsets in their spellings
                st_ = dict(st_ or {})
                st_[rng.choice(["TIMEZONE", "TIMEZONE", "TO_TIMEZONE"])] = rng.choice(["UTC", "Europe/Paris", "EST", "+0300", "UTC+3", "PKT", "-0500", "PST", "UTC-12:00",
                                                                                       "UTC+14:00", "+05:30", "GMT+1", "NPT", "AKST", "Asia/Kathmandu", "America/St_Johns"])
            cases.append({"s": s[:100], "kw": kw, "settings": st_, "api": rng.choice(["ddp", "parse"]), "probe": True, "valid": True})
        directed = [
            ("9999-12-31 23:59 -0500", {}, {"TIMEZONE": "UTC"}), ("0001-01-01 00:00 +1400", {}, {"TIMEZONE": "UTC"}),
            ("11\u66424\u5206", {}, {"RELATIVE_BASE": [1, 1, 1, 0, 0, 0, 0], "PREFER_DATES_FROM": "past"}),
            ("23:59", {"languages": ["en"]}, {"RELATIVE_BASE": [9999, 12, 31, 23, 0, 0, 0], "PREFER_DATES_FROM": "future"}),
            ("9999-12-31 23:59", {"date_formats": ["%Y-%m-%d %H:%M"]}, {"TIMEZONE": "UTC", "TO_TIMEZONE": "Pacific/Kiritimati"}),
            ("01:30", {}, {"TIMEZONE": "US/Eastern", "RELATIVE_BASE": [2021, 11, 7, 12, 0, 0, 0]}),
            ("02:30", {}, {"TIMEZONE": "US/Eastern", "RELATIVE_BASE": [2021, 3, 14, 12, 0, 0, 0], "PREFER_DATES_FROM": "past"}),
            ("Monday", {"languages": ["en"]}, {"RELATIVE_BASE": [1, 1, 3, 0, 0, 0, 0], "PREFER_DATES_FROM": "past"}),
            ("Sunday", {"languages": ["en"]}, {"RELATIVE_BASE": [9999, 12, 30, 0, 0, 0, 0], "PREFER_DATES_FROM": "future"}),
            ("5000 years ago", {"languages": ["en"]}, {"RELATIVE_BASE": [2021, 1, 1, 0, 0, 0, 0]}), ("in 9999 years", {"languages": ["en"]}, None),
            ("99999999 days ago", {"languages": ["en"]}, None), ("29 February", {"date_formats": ["%d %B"]}, None),
            ("1500000000", {}, {"TIMEZONE": "Pacific/Kiritimati", "TO_TIMEZONE": "Pacific/Pago_Pago", "RETURN_AS_TIMEZONE_AWARE": True}),
            ("-9999999999", {}, {"PARSERS": ["negative-timestamp"], "TIMEZONE": "UTC"}), ("9999999999999999", {}, {"TIMEZONE": "UTC"}),
        ]
        from ..c02gen import gate_string
        gate_settings = [{"PARSERS": ["timestamp", "negative-timestamp", "relative-time", "custom-formats", "absolute-time"]}, {"PARSERS": ["negative-timestamp"]},
                         {"PARSERS": ["negative-timestamp", "no-spaces-time", "absolute-time"], "TIMEZONE": "UTC"}, {"PARSERS": ["no-spaces-time"]}, {"PARSERS": ["timestamp"]},
                         {"PARSERS": ["relative-time", "negative-timestamp"]}, None]
        for _ in range(600 if ctx.quick() else 30000):
            directed.append((gate_string(rng), rng.choice([{}, {"languages": ["en"]}, {"languages": ["ar"]}, {"languages": ["hi", "en"]}]), rng.choice(gate_settings)))
        from ..c02gen import fold_string
        fold_settings = [{"NORMALIZE": False, "DEFAULT_LANGUAGES": ["en"]}, {"NORMALIZE": False}, {"DEFAULT_LANGUAGES": ["en", "fr"]}, None, {"NORMALIZE": False, "DEFAULT_LANGUAGES": ["de"]},
                         {"NORMALIZE": True, "DEFAULT_LANGUAGES": ["en"], "PARSERS": ["relative-time", "absolute-time"]}]
        for _ in range(500 if ctx.quick() else 20000):
            directed.append((fold_string(rng), rng.choice([{}, {}, {"languages": ["en"]}, {"languages": ["tr"]}, {"languages": ["de", "en"]}]), rng.choice(fold_settings)))
        from ..c02gen import fold_strings_all
        fa = fold_strings_all()
        for s_ in (fa if not ctx.quick() else rng.sample(fa, 250) + [x for x in fa if x.startswith("5 ") and not x.endswith("ago")]):
            for st_ in ({"NORMALIZE": False, "DEFAULT_LANGUAGES": ["en"]}, None):
                directed.append((s_, {} if st_ else {"languages": ["en"]}, st_))
        for s, kw, st in directed:
            for api in ("ddp", "parse"):
                cases.append({"s": s, "kw": dict(kw), "settings": st, "api": api, "probe": False, "valid": True})
        for inv in INVALID_SETTINGS:
            for _ in range(3 if ctx.quick() else 40):
                # strings that reach each consumer of the setting (numeric date, missing day, missing month, relative, epoch)
                s = rng.choice([gen_string(rng), "2015-03-05", "10/11/12", "March 2015", "2014", "Monday", "yesterday", "", "1500000000"])
                kw = {"languages": ["en"]} if rng.random() < 0.6 else {}
                if rng.random() < 0.3:
                    kw["date_formats"] = ["%Y-%m-%d"]
                cases.append({"s": s, "kw": kw, "settings": dict(inv), "api": rng.choice(["ddp", "parse"]), "probe": False, "valid": False})
    # ---- live parsers and look-alike settings: a parser made with valid settings stays alive while a call with the
    # same settings in the wrong TYPE (str(value), repr, int for bool, float for int ...) is made - and rejected - and
    # is then used again: no documented-only guarantee may be lost to an earlier rejected call
    twins = []
    if not ctx.replay:
        from ..lib import list_to_dt

        def look_alikes(k, v):
            if k == "RELATIVE_BASE" and isinstance(v, list):
                d = list_to_dt(v)
                return [str(d), d.isoformat(), repr(d)]
            if isinstance(v, bool):
                return [str(v), int(v), str(v).lower()]
            if isinstance(v, int):
                return [str(v), float(v) + 0.0]
            if isinstance(v, float):
                return [str(v)]
            if isinstance(v, str):
                return [[v]]          # (another STRING for TIMEZONE would be an unresolvable zone name: outside the statement, see DESIGN 0.3)
            if isinstance(v, list):
                return [str(v), ",".join(map(str, v)), {x: 1 for x in map(str, v)}]
            return [str(v)]
        tpool = settings_pool(rng, 40 if ctx.quick() else 300) + [{"RELATIVE_BASE": [2020, 1, 1, 0, 0, 0, 0]}, {"CACHE_SIZE_LIMIT": 1000},
                                                                  {"RELATIVE_BASE": [2021, 6, 15, 12, 30, 0, 0], "PREFER_DATES_FROM": "past"}]
        for st in tpool:
            if not st:
                continue
            for k in (list(st) if not ctx.quick() else rng.sample(list(st), min(2, len(st)))):
                for la in look_alikes(k, st[k]):
                    tw = dict(st)
                    tw[k] = la
                    twins.append({"settings": st, "kw": {"languages": ["en"]}, "twin": tw, "twin_api": rng.choice(["ddp", "parse"]),
                                  "s1": rng.choice(["yesterday", "12 March", "10/11/12", "in 2 days"]),
                                  "s2": rng.choice(["yesterday", "12 March", "10/11/12", "in 2 days", "March 2015", "2 weeks ago at 10:30"])})
    twin_results = core.run_cases(ctx, "harness.lib", "call_live_twin", twins, chunk=40) if twins else []
    # ---- the settings argument against Validate.tla: every documented key (and unknown ones) x values of every
    # type class; TLC decides from the abstract form whether the argument is valid, the code must agree
    vals = []
    if not ctx.replay:
        def T(t, v=None):
            return {"t": t, "v": v}
        S = lambda x: T("str", x)      # noqa: E731
        L = lambda *xs: T("list", list(xs))      # noqa: E731
        keys = ["DATE_ORDER", "TIMEZONE", "TO_TIMEZONE", "PREFER_MONTH_OF_YEAR", "PREFER_DAY_OF_MONTH", "PREFER_DATES_FROM", "RETURN_AS_TIMEZONE_AWARE",
                "STRICT_PARSING", "NORMALIZE", "RETURN_TIME_AS_PERIOD", "FUZZY", "PREFER_LOCALE_DATE_ORDER", "RELATIVE_BASE", "REQUIRE_PARTS", "SKIP_TOKENS",
                "PARSERS", "DEFAULT_LANGUAGES", "LANGUAGE_DETECTION_CONFIDENCE_THRESHOLD", "CACHE_SIZE_LIMIT", "UNKNOWN_SETTING", "date_order", "Timezone", ""]
        values = [S("DMY"), S("YMD"), S("dmy"), S("DMY "), S("first"), S("last"), S("current"), S("current_period"), S("past"), S("future"), S("Past"), S("UTC"),
                  S("Asia/Tokyo"), S("+0530"), S("EST"), S("day"), S("en"), S(""), S("True"), S("1"),
                  T("bool", True), T("bool", False), T("int", 0), T("int", 1), T("int", -1), T("int", 1000), T("int", 10 ** 12),
                  T("float", 0.0), T("float", 0.5), T("float", 1.0), T("float", 1.5), T("float", -0.1), T("float", "nan"), T("float", "inf"),
                  T("none"), T("dict", []), T("tuple", [S("day")]), T("tuple", []), T("bytes", "6162"), T("date", [2020, 1, 1]),
                  T("datetime", [2020, 1, 1, 0, 0, 0, 0]), T("datetime", [1, 1, 1, 0, 0, 0, 0]), T("datetime", [9999, 12, 31, 23, 59, 59, 999999]),
                  L(), L(S("day")), L(S("day"), S("month"), S("year")), L(S("day"), S("day")), L(S("week")), L(S("Day")), L(T("int", 1)), L(L(S("day"))), L(T("dict", [])),
                  L(S("en")), L(S("en"), S("fr")), L(S("en"), S("en")), L(S("xx")), L(S("EN")), L(T("none")),
                  L(S("absolute-time")), L(S("timestamp"), S("relative-time"), S("custom-formats"), S("absolute-time"), S("no-spaces-time"), S("negative-timestamp")),
                  L(S("absolute-time"), S("absolute-time")), L(S("sometimes")), L(S("t")), L(S("t"), S("foo"), S("t"))]
        strings = ["", "2015-03-05", "yesterday", "10/11/12", "March", "1500000000", "foo"]
        for k in keys:
            if k == "":
                continue
            for v in values:
                if k in ("TIMEZONE", "TO_TIMEZONE") and v["t"] == "str" and v["v"] not in ("UTC", "Asia/Tokyo", "+0530", "EST"):
                    continue          # unresolvable zone names: outside the statement (DESIGN 0.3)
                vals.append({"arg": T("dict", [[k, v]]), "s": rng.choice(strings), "api": rng.choice(["ddp", "ddp", "parse", "search"])})
        for _ in range(300 if ctx.quick() else 5000):      # dicts of 2-3 entries: the FIRST offending entry decides the class
            ks = rng.sample([k for k in keys if k], rng.randint(2, 3))
            ent = []
            for k in ks:
                v = rng.choice(values)
                if k in ("TIMEZONE", "TO_TIMEZONE") and v["t"] == "str":
                    v = S(rng.choice(["UTC", "Asia/Tokyo", "+0530", "EST"]))
                ent.append([k, v])
            vals.append({"arg": T("dict", ent), "s": rng.choice(strings), "api": rng.choice(["ddp", "parse"])})
        # the argument itself: None, falsy objects, a Settings object, other types
        for a in [T("none"), T("dict", []), T("int", 0), S(""), L(), T("tuple", []), T("bool", False), T("float", 0.0), T("settings", []),
                  T("settings", [["DATE_ORDER", S("DMY")]]), T("int", 5), S("DATE_ORDER=DMY"), L(S("DATE_ORDER")), T("tuple", [S("DATE_ORDER"), S("DMY")]), T("bool", True),
                  T("float", 1.5), T("bytes", "61"), L(L(S("DATE_ORDER"), S("DMY")))]:
            for st_ in strings[:4]:
                vals.append({"arg": a, "s": st_, "api": rng.choice(["ddp", "parse"])})
    val_results = core.run_cases(ctx, "harness.lib", "call_validate", vals, chunk=100) if vals else []
    # ---- the OTHER arguments (languages, locales, region, try_previous_locales, use_given_order, the date string, the
    # formats) with values of every type class: "TypeError (non-str input or wrongly typed argument), ValueError (unknown
    # ... languages)" and nothing else; which check fires first is the model's (Validate.tla ArgsVerdict), the code must agree
    argcases = []
    if not ctx.replay:
        POOLV = [T("none"), S("en"), S(""), T("int", 5), T("int", 0), T("float", 5.5), T("bool", True), T("bool", False), T("bytes", "656e"), T("bytes", ""),
                 L(S("en")), T("tuple", [S("en")]), T("set", [S("en")]), T("frozenset", [S("en")]), T("dict", [["en", T("int", 1)]]), T("dict", []), L(), T("tuple", []),
                 L(S("en"), T("none")), L(S("en"), T("int", 5)), L(L(S("en"))), L(S("xx")), L(S("EN")), L(S("en"), S("en")), L(T("bytes", "656e")), L(S("en"), S("fr")),
                 T("datetime", [2020, 1, 1, 0, 0, 0, 0])]
        FMTV = [T("none"), L(), L(S("#%Y")), T("tuple", [S("#%d/%m")]), T("set", [S("#%Y")]), S("#en"), S(""), T("int", 5), T("int", 0), T("float", 0.0), T("bool", True),
                T("bool", False), T("bytes", "23"), T("dict", [["#en", T("int", 1)]]), T("dict", []), L(S("#%Y"), T("none")), L(T("int", 5)), L(L(S("#%Y"))),
                L(T("bytes", "23")), T("frozenset", [S("#%Y %m")]), T("datetime", [2020, 1, 1, 0, 0, 0, 0])]
        base = {"languages": L(S("en")), "locales": T("none"), "region": T("none"), "tpl": T("bool", False), "ugo": T("bool", False), "ds": S("1 May 2020"), "fmts": T("none")}
        for name in ("languages", "locales", "region", "tpl", "ugo", "ds", "fmts"):
            for v in (FMTV if name == "fmts" else POOLV):
                if name == "locales" and v["t"] in ("list", "tuple", "set", "frozenset") and v["v"]:
                    continue        # (what a locale NAME may be is C13's subject; containers of other things are covered through `languages`)
                if name == "region" and v["t"] == "str":
                    continue
                for ds in ("1 May 2020", "zzz qqq"):
                    c = dict(base)
                    c[name] = v
                    if name != "ds":
                        c["ds"] = S(ds)
                    elif ds != "1 May 2020":
                        continue
                    argcases.append(c)
        for _ in range(150 if ctx.quick() else 3000):       # two arguments at once: the FIRST failing check decides
            c = dict(base)
            for name in rng.sample(["languages", "region", "tpl", "ugo", "ds", "fmts"], 2):
                c[name] = rng.choice(FMTV if name == "fmts" else [v for v in POOLV if not (name == "region" and v["t"] == "str")])
            if c["ds"]["t"] == "str":
                c["ds"] = S(rng.choice(["1 May 2020", "zzz qqq"]))
            argcases.append(c)
    arg_results = core.run_cases(ctx, "harness.lib", "call_args", argcases, chunk=100) if argcases else []
    if not ctx.replay:
        # cases that share a settings dict are executed by the same worker: the library rebuilds its regex
        # caches for every new (settings, locale) pair, which dominates the cost otherwise
        cases.sort(key=lambda c: (not c["valid"], json.dumps(c["settings"], sort_keys=True, default=str)))
    results = core.run_cases(ctx, "harness.lib", "call_parse", cases, chunk=200, contiguous=True)
    records = []
    for i, (c, r) in enumerate(zip(cases, results)):
        records.append({"kind": "c02", "tid": i, "valid": c["valid"], "api": c["api"], "exc": r["exc"], "mro": r["mro"], "hasDate": bool(r["out"]),
                        "period": r["period"], "locale": r["locale"]})
        # refinement-on-trace of every run of the absolute / no-spaces parser these calls reach (at most a few per call)
        records.extend((absfam.abs_records(i, r) + absfam.nsp_records(i, r))[:4])
        # ... and of the parser loop of (at most two of) the locales tried
        for e in [e for e in r.get("probe", []) if e.get("ev") == "parser_loop"][:2]:
            records.append({"kind": "ploop", "tid": i, "parsers": e["parsers"], "tries": e["tries"], "found": e["found"]})
    twin_index = {}
    for tc, tr3 in zip(twins, twin_results):
        for j, r in enumerate(tr3):
            tid = len(cases) + len(twin_index)
            twin_index[tid] = (tc, j, r)
            # the look-alike call is judged as what the library made of it: accepted -> a well-formed result, rejected -> by
            # a documented class; the two uses of the live parser are ordinary valid calls
            valid = True if j != 1 else (r["exc"] == "")
            records.append({"kind": "c02", "tid": tid, "valid": valid, "api": r.get("api", "ddp"), "exc": r["exc"], "mro": r["mro"], "hasDate": bool(r["out"]),
                            "period": r["period"], "locale": r["locale"]})
    def absval(v):
        t = v["t"]
        rec = {"t": {"date": "date", "bytes": "bytes", "settings": "settings"}.get(t, t), "s": v["v"] if t == "str" else "", "items": [], "in01": False}
        if t in ("list", "tuple"):
            rec["items"] = [{"t": x["t"], "s": x["v"] if x["t"] == "str" else ("%s:%r" % (x["t"], x.get("v")))} for x in v["v"]]
        if t in ("int", "float", "bool"):
            try:
                rec["in01"] = bool(0 <= float(v["v"]) <= 1)
            except (TypeError, ValueError):
                rec["in01"] = False
        return rec
    val_index = {}
    for vc, vr in zip(vals, val_results):
        tid = len(cases) + len(twin_index) + len(val_index)
        val_index[tid] = (vc, vr)
        a = vc["arg"]
        if a["t"] == "dict" and a["v"]:
            argkind, d = "dict", [[k, absval(v)] for k, v in a["v"]]
        elif a["t"] == "none":
            argkind, d = "none", []
        elif a["t"] == "settings":
            argkind, d = "settings", []
        elif a["t"] in ("dict", "list", "tuple") and not a["v"] or a["t"] in ("int", "float", "bool", "str") and not a["v"]:
            argkind, d = "falsy", []
        else:
            argkind, d = "other", []
        records.append({"kind": "val", "tid": tid, "argkind": argkind, "d": d, "exc": vr["exc"], "mro": vr["mro"]})
    def absarg(v):
        t = v["t"]
        items = []
        if t in ("list", "tuple", "set", "frozenset"):
            items = [{"t": x["t"], "s": x["v"] if x["t"] == "str" else ""} for x in v["v"]]
        return {"t": t, "items": items, "falsy": not v["v"] if t != "datetime" else False, "s": v["v"] if t == "str" else ""}
    arg_index = {}
    for ac, ar in zip(argcases, arg_results):
        tid = len(cases) + len(twin_index) + len(val_index) + len(arg_index)
        arg_index[tid] = (ac, ar)
        cabs = {k: absarg(ac[k]) for k in ("languages", "locales", "region", "tpl", "ugo", "ds", "fmts")}
        cabs["applicable"] = ac["ds"]["t"] == "str" and ac["ds"]["v"] == "1 May 2020"
        wellformed = (ac["languages"]["t"] in ("none", "list", "tuple", "set", "frozenset") and all(x["t"] == "str" and x["v"] in ("en", "fr") for x in (ac["languages"]["v"] or []))
                      and ac["locales"]["t"] == "none" and ac["region"]["t"] == "none" and ac["tpl"]["t"] == "bool" and ac["ugo"]["t"] == "bool" and not ac["ugo"]["v"]
                      and ac["ds"]["t"] == "str" and (ac["fmts"]["t"] == "none" or (ac["fmts"]["t"] in ("list", "tuple", "set", "frozenset") and all(x["t"] == "str" for x in ac["fmts"]["v"]))))
        records.append({"kind": "args", "tid": tid, "c": cabs, "exc": ar["exc"], "mro": ar["mro"], "phase": ar["phase"], "wellformed": bool(wellformed)})
    tuples, gen = core.validate_traces(ctx, "T_C02", "SPECIFICATION TSpec\nCONSTANTS\n  Languages = {%s}\nPOSTCONDITION Consumed\nCHECK_DEADLOCK FALSE\n"
                                       % ", ".join('"%s"' % x for x in order), records)
    seen = {}
    ndrift = 0
    for t in tuples["REJECT"]:
        _, tid, kind, verdict, exc = t[:5]
        if tid in arg_index:
            ac, ar = arg_index[tid]
            d_ = {"call": "DateDataParser(languages=<%r>, locales=<%r>, region=<%r>, try_previous_locales=<%r>, use_given_order=<%r>).get_date_data(<%r>, <%r>)" % tuple(
                ac[k] for k in ("languages", "locales", "region", "tpl", "ugo", "ds", "fmts"))}
            if kind == "abs":
                ctx.note_drift("Validate", dict(d_, model=exc, observed=[ar["phase"], ar["exc"] or "accepted"]))
            else:
                ctx.violation(d_, verdict, expected="Validate.tla ArgsVerdict: %s" % (exc,), observed={"exc": ar["exc"], "msg": ar.get("msg"), "phase": ar["phase"]})
            continue
        if tid in val_index:
            vc, vr = val_index[tid]
            if kind == "abs":
                ctx.note_drift("Validate", {"settings": vc["arg"], "model": exc, "observed": vr["exc"] or "accepted"})
            else:
                ctx.violation({"call": "%s(%r, languages=['en'], settings=<%r>)" % (vc["api"], vc["s"], vc["arg"])}, verdict,
                              expected="Validate.tla: %s" % exc, observed={"exc": vr["exc"], "msg": vr.get("msg"), "phase": vr.get("phase")})
            continue
        if tid in twin_index:
            tc, j, r = twin_index[tid]
            ctx.violation({"history": "p = DateDataParser(languages=['en'], settings=%r); p.get_date_data(%r); %s(%r, settings=%r)  [look-alike]; p.get_date_data(%r)" % (
                tc["settings"], tc["s1"], tc["twin_api"], tc["s1"], tc["twin"], tc["s2"]), "failing_step": ["first use", "look-alike call", "second use"][j]},
                verdict, expected="datetime or None / documented exception", observed={"exc": r["exc"], "msg": r.get("msg")})
            continue
        c, r = cases[tid], results[tid]
        if kind == "abs" and verdict == "parser-loop":
            ndrift += 1
            ctx.note_drift("Pipeline", {"string": c["s"], "kw": c["kw"], "settings": c["settings"], "tries": exc})
            continue
        if kind == "abs":
            ndrift += 1
            ctx.note_drift("AbsParser" if verdict == "absparser" else "NoSpaces",
                           {"string": c["s"], "kw": c["kw"], "settings": c["settings"], "model": exc,
                            "observed": [[e.get("ds"), e.get("out"), e.get("period")] for e in r.get("probe", [])][:3]})
            continue
        key = (verdict, r["exc"], (r.get("msg") or "")[:30])
        seen[key] = seen.get(key, 0) + 1
        if seen[key] > 3:
            continue
        ctx.violation({"call": "%s(%r, %s, settings=%r)" % ("dateparser.parse" if c["api"] == "parse" else "DateDataParser(...).get_date_data", c["s"],
                                                           ", ".join("%s=%r" % kv for kv in c["kw"].items()), c["settings"])},
                      verdict, expected="datetime or None (valid arguments) / SettingValidationError or TypeError (invalid setting)",
                      observed={"exc": r["exc"], "msg": r.get("msg"), "out": r["out"], "period": r["period"], "locale": r["locale"]}, extra={"full_case": c})
    ctx.notes.append({"reject_classes": {"%s|%s|%s" % k: v for k, v in seen.items()}})
    cov = {
        "live_parser_look_alike_histories": len(twins), "parser_loop_events_validated": sum(1 for r_ in records if r_.get("kind") == "ploop"), "settings_arguments_judged_by_Validate": len(vals), "other_arguments_judged_by_Validate": len(argcases),
        "evaluations": len(cases), "distinct_nontrivial": len({(c["s"], repr(c["kw"]), repr(c["settings"])) for c, r in zip(cases, results) if r["out"]}),
        "rule": "case = (string <= 100 chars, settings from the pool, languages / locales / region, date_formats); non-trivial = distinct call returning a datetime",
        "exhaustive": False, "states": mc.distinct, "transitions": mc.generated, "traces_validated_against_impl": len(cases),
        "parser_runs_refined": sum(1 for x in records if x.get("kind") in ("abs", "nsp")), "parser_runs_drift": ndrift,
        "invalid_setting_cases": sum(1 for c in cases if not c["valid"]), "parsed": sum(1 for r in results if r["out"]),
        "exceptions_seen": sorted({r["exc"] for r in results if r["exc"]}),
        "pinned_exception_flow_refuted": pinned.invariant_violated,
        "samples": [{"string": c["s"], "kw": c["kw"], "settings": c["settings"], "outcome": r["exc"] or r["out"] or None} for c, r in list(zip(cases, results))[:: max(1, len(cases) // 6)]][:6],
    }
    return core.finish(ctx, LEVEL, cov, assumptions=[
        "timezone names are drawn from the resolvable ones (pytz names and the library table)",
        "languages, locales and settings values are valid in the 'valid' cases: no exception at all may escape there",
        "the quantifier over all strings is explored, not exhausted: model-guided shapes + mutation + random Unicode"])
