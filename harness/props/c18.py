"""C18 - whitespace noise and the digit script never change what a string parses to.

E1: P_C18.tla - the sanitiser on character-class strings (Sanitize.tla), every class string up to
    length 6 (thorough 7): whitespace rewritings of a clean string sanitise back to it, and the
    sanitiser commutes with the digit-script substitution.  The pinned period rule ([^0-9\\s]) is run too
    and must be refuted.
E2/E3: generated dates in every language and English forms x the fixed family of whitespace
    rewritings x every Unicode block of decimal digits; TLC (T_C18.tla) checks result equality and that
    the real sanitiser commutes with the class abstraction."""

import unicodedata

from .. import core
from .c13 import export_words  # noqa: F401  (worker entry point lives in c13)

LEVEL = "model_checking"
CFG = ("SPECIFICATION Spec\nCONSTANTS\n  AsciiOnlyDigits = %s\n  TrimNeedsBothEnds = %s\n  CroatStrict = %s\n  MaxLen = %d\nINVARIANT WsInvariant\nINVARIANT ComposedInvariant\nINVARIANT PadInvariant\nINVARIANT CroatInvariant\nINVARIANT YearMarkInvariant\n"
       "INVARIANT DigitScriptInvariant\nCHECK_DEADLOCK FALSE\n")
BASE = [2021, 6, 15, 12, 0, 0, 0]


def digit_blocks():
    zeros = [chr(cp) for cp in range(0x80, 0x1FFFF) if unicodedata.category(chr(cp)) == "Nd" and unicodedata.digit(chr(cp)) == 0]
    blocks = []
    for z in zeros:
        b = [chr(ord(z) + i) for i in range(10)]
        if all(unicodedata.category(c) == "Nd" and unicodedata.digit(c) == i for i, c in enumerate(b)):
            blocks.append("".join(b))
    return blocks


def ws_variants(s):
    return [("pad", "  " + s + " "), ("pad-left", " " + s), ("pad-right", s + "  "), ("double", s.replace(" ", "  ")),
            ("tab", s.replace(" ", "\t")), ("newline", s.replace(" ", "\n")), ("nbsp", s.replace(" ", "\xa0")),
            ("mixed", s.replace(" ", " \t\xa0 ")), ("colon", s + ":"), ("pad-tabs", "\t" + s + "\n"),
            # however much of it there is (the text node of an indented template, fixed-width columns)
            ("pad-indented", INDENT + s + INDENT), ("pad-600", " " * 600 + s), ("pad-nbsp-600", s + "\xa0" * 600),
            ("run-100", s.replace(" ", " " * 100) if " " in s else "\n\t\t\t\t" * 110 + s + "\n"),
            # two members of the family one after the other (each keeps the result, so both do): the colon of a label
            # ('Posted: 5 March 2015: ') followed by the whitespace of the markup around it
            ("colon+pad-right", s + ": "), ("colon+newline", s + ":\n"), ("colon+nbsp", s + ":\xa0"), ("pad-left+colon", "  " + s + ":"),
            ("colon+pad", " " + s + ":  "), ("double+colon", s.replace(" ", "  ") + ":")]


INDENT = "\n" + ("\n" + " " * 24) * 12


def run(ctx):
    rng = ctx.rng
    mc = ctx.tlc("P_C18", CFG % ("FALSE", "FALSE", "FALSE", 5 if ctx.quick() else 6), timeout=3000, name="P_C18_repaired")
    mc.require_clean()
    pinned = ctx.tlc("P_C18", CFG % ("TRUE", "FALSE", "FALSE", 4), timeout=600, name="P_C18_pinned")
    # the pinned trim rule (whitespace at BOTH ends or none is removed): '1: ' keeps its colon
    pinned_trim = ctx.tlc("P_C18", (CFG % ("FALSE", "TRUE", "FALSE", 4)).replace("INVARIANT CroatInvariant\nINVARIANT YearMarkInvariant\n", ""), timeout=600, name="P_C18_pinned_trim")
    if "ComposedInvariant" not in pinned_trim.invariant_violated and "PadInvariant" not in pinned_trim.invariant_violated:
        raise core.Machinery("the pinned trim rule of the sanitiser is not refuted")
    # the pinned Croatian rule (at most one blank between the numbers, exactly ' u')
    pinned_croat = ctx.tlc("P_C18", CFG % ("FALSE", "FALSE", "TRUE", 2), timeout=600, name="P_C18_pinned_croat")
    if "CroatInvariant" not in pinned_croat.invariant_violated:
        raise core.Machinery("the pinned Croatian rule of the sanitiser is not refuted")
    if mc.invariant_violated:
        ctx.violation({"tlc_counterexample": mc.counterexample()[-1:]}, "TLC refutes %s on the sanitiser model" % mc.invariant_violated)
    if not pinned.invariant_violated:
        raise core.Machinery("the pinned sanitiser configuration is not refuted")
    W = core.run_cases(ctx, "harness.props.c13", "export_words", [{}], nproc=1)[0]
    blocks = digit_blocks()
    cases = core.replay_cases(ctx)
    if not cases:
        cases = []
        english = ["2015-03-05 10:30:15", "March 5, 2015 10:30 PM", "5 March 2015", "Tue, 05 Mar 2015 10:30:15", "1.5 hours ago", "in 2 days",
                   "2 weeks ago at 10:30", "10.30", "13.11.2015", "1 year, 2 months ago", "15 March", "Monday", "10:30", "2015", "March 2015",
                   "03/05/2015", "yesterday 14:05", "1500000000", "5 march 2015 at 7 pm", "12.5.2015 13.20", "2.5 minutes ago", "0.5 hours ago",
                   # digit groups that start with 0 and whose WIDTH matters (fractions, microseconds, two-digit and
                   # zero-padded years, numeric UTC offsets, minutes)
                   "1.05 hours ago", "2.005 minutes ago", "10:30:15.000123", "2015-03-05 10:30:15.012", "16.09.03 11:55", "03/05/07",
                   "03 Feb 0099", "0099-03-05", "2015-03-05 10:30 +0000", "2015-03-05T17:57:39+00:00", "Tue, 05 Mar 2015 10:30:15 +0530",
                   "00:05", "5 March 2015 00:00:07", "1500000000012", "in 0.25 hours", "01.02.03",
                   # strings ending in letters / forms the special-cased rules of sanitize_date look at ('on:', year marker,
                   # trailing periods, apostrophes, ', в')
                   "12 Jan 2015, Mon", "Monday 12 noon", "12 Jan 2015 at noon", "Posted on: 12 Jan 2015", "on: 5 March 2015", "5 March 2015 on",
                   "Sat, 3 Oct 2015 12:00 pm", "3 o'clock pm 5 March 2015", "5 Mar. 2015", "Mar. 5, 2015 10 a.m.", "5 March 2015 AD",
                   "10:30 PM", "5 march 2015 10pm", "yesterday at noon", "2 hours ago.", "5 March 2015."]
        # number shapes of every parser (epoch numbers with and without a fraction, compact digit runs, decimal counts,
        # clock times with fractions and unusual separators) and generated numeric dates
        english += ["1570308760.263", "1570308760.5", "1570308760,263", "1570308760263.5", "1500000000.000001", "1570308760.", "1570308760 .263",
                    "10:30:15,123", "10:30:15.5", "7.05pm", "12/31/99 23:59:59.5", "1/2/2015 3:04:05.678901", "in 1,5 hours", "1,5 hours ago", "2015.03.05 10.30.15",
                    "5/3/15 10h30", "2015-3-5", "5-3-2015 7:5", "0:0:0 1.1.2001", "24.12.2015 00:00:00.000", "31/12/1999 23:59", "99-12-31", "2015/03/05 - 10:30"]
        for _ in range(20 if ctx.quick() else 300):
            sep = rng.choice(["/", ".", "-", " "])
            d_, m_, y_ = rng.randint(1, 28), rng.randint(1, 12), rng.choice([2015, 1999, 99, 15, 2001, 1])
            body = sep.join(rng.choice([["%d", "%d", "%d"], ["%02d", "%02d", "%d"], ["%02d", "%02d", "%04d"]])) % (d_, m_, y_)
            if rng.random() < 0.6:
                body += " %d:%02d" % (rng.randint(0, 23), rng.randint(0, 59))
                if rng.random() < 0.5:
                    body += ":%02d" % rng.randint(0, 59)
                    if rng.random() < 0.5:
                        body += rng.choice([".", ","]) + "".join(rng.choice("0123456789") for _ in range(rng.randint(1, 6)))
            english.append(body)
        strings = [(s, ["en"]) for s in english] + [(s, None) for s in english[:8]]
        # strings that already END in a colon (the rewritings are applied to them as they are), and the forms the
        # language-specific rules of sanitize_date look at, with the language left to detection
        strings += [("12 March 2014 09:16:", ["en"]), ("5 March 2015:", ["en"]), ("2 hours ago:", ["en"]), ("10:30:", ["en"]), ("Posted on: 12 Jan 2015:", ["en"]),
                    ("13.11.2015. u 10:30", None), ("12.03.2014. u 10:00", None), ("12.03.2014. u 10:00", ["hr"]), ("12. 03. 2014. u 10:00", None), ("12. 03. 2014.", None), ("1. 2. 2014. u 7:05", ["hr"]), ("5 \u0444\u0435\u0432\u0440\u0430\u043b\u044f 2015 \u0433.", None),
                    ("12 \u044f\u043d\u0432\u0430\u0440\u044f 2015, \u0432 10:30", None)]
        PARSER_SETS = [["timestamp", "negative-timestamp", "relative-time", "custom-formats", "absolute-time"], ["no-spaces-time", "absolute-time"],
                       ["timestamp", "no-spaces-time"]]
        special = []
        for s_ in ["-1500000000", "-1500000000123", "-1570308760.263", "20150305", "201503051030", "150305", "05032015", "1030", "20150305103015",
                   "1570308760", "1570308760263"]:
            special.append((s_, ["en"], rng.choice(PARSER_SETS)))
        strings += [("il y a 2 heures environ", ["fr"]), ("12 Ion 2015", ["cy"]), ("5 \u0444\u0435\u0432\u0440\u0430\u043b\u044f 2015 \u0433.", ["ru"]),
                    ("13.11.2015. u 10:30", ["hr"]), ("12 \u044f\u043d\u0432\u0430\u0440\u044f 2015, \u0432 10:30", ["ru"]), ("le 5 mars 2015 \u00e0 10h30", ["fr"]),
                    ("5. M\u00e4rz 2015 um 10:30 Uhr", ["de"]), ("vor 2 Tagen", ["de"]), ("hace 2 d\u00edas", ["es"])]
        for L in W["order"]:
            w = W["langs"][L]
            mi = rng.randrange(12)
            if w["months"][mi]:
                strings.append(("%d %s %d %02d:%02d" % (rng.randint(1, 28), w["months"][mi], rng.choice([2015, 1999]), rng.randint(0, 23), rng.randint(0, 59)), [L]))
            wi = rng.randrange(7)
            if w["months"][mi] and w["weekdays"][wi]:         # a dated string ENDING in the language's weekday name
                strings.append(("%d %s %d, %s" % (rng.randint(1, 28), w["months"][mi], 2015, w["weekdays"][wi]), [L]))
            if w["rel"][0]:
                strings.append((w["rel"][0], [L]))
        for s, langs in strings:
            variants = ws_variants(s)
            bl = blocks if not ctx.quick() else rng.sample(blocks, 4) + [b for b in blocks if b[0] in "٠۰０༠"]
            if any(ch.isdigit() for ch in s):
                for b in bl:
                    variants.append(("digits", "".join(b[int(ch)] if ch in "0123456789" else ch for ch in s)))
            cases.append({"s": s, "variants": variants, "kw": {"languages": langs} if langs else {}, "settings": {"RELATIVE_BASE": BASE}})
        # ... and with date_formats whose reading differs from the default one: the rewritings must not decide WHICH
        # parser (custom formats or the heuristic ones) gets to read the string
        with_formats = [("03/12/2020", ["%d/%m/%Y"]), ("01.02.03", ["%y.%m.%d"]), ("2020-12-03 10:30", ["%Y-%d-%m %H:%M"]), ("12.03.2020", ["%m.%d.%Y"]),
                        ("3 march 2015", ["%d %B %Y"]), ("10:30", ["%M:%H"]), ("05-06-07", ["%d-%m-%y", "%y-%m-%d"]), ("2015 03", ["%Y %d"]), ("11/12", ["%d/%m"]),
                        ("5 mars 2015", ["%d %B %Y"])]
        for s, fm in with_formats:
            variants = ws_variants(s)
            for b in blocks if not ctx.quick() else rng.sample(blocks, 3) + [b for b in blocks if b[0] in "٠０"]:
                variants.append(("digits", "".join(b[int(ch)] if ch in "0123456789" else ch for ch in s)))
            cases.append({"s": s, "variants": variants, "kw": {"languages": ["fr"] if "mars" in s else ["en"], "date_formats": fm}, "settings": {"RELATIVE_BASE": BASE}})
        for s, langs, parsers in special:
            variants = ws_variants(s)
            for b in blocks if not ctx.quick() else rng.sample(blocks, 4) + [b for b in blocks if b[0] in "٠۰０༠"]:
                variants.append(("digits", "".join(b[int(ch)] if ch in "0123456789" else ch for ch in s)))
            cases.append({"s": s, "variants": variants, "kw": {"languages": langs}, "settings": {"RELATIVE_BASE": BASE, "PARSERS": parsers}})
    results = core.run_cases(ctx, "harness.lib", "call_c18", cases, chunk=10)
    records, index = [], []
    for c, r in zip(cases, results):
        for v in r["variants"]:
            tid = len(index)
            index.append((c, v))
            records.append({"tid": tid, "kind": v["kind"], "base": v["base"], "rew": v["rew"], "exc": v["exc"], "cls": v["cls"], "sancls": v["sancls"],
                            "plain": v["plain"]})
    tuples, gen = core.validate_traces(ctx, "T_C18", "SPECIFICATION TSpec\nCONSTANT AsciiOnlyDigits = FALSE\nCONSTANT TrimNeedsBothEnds = FALSE\nCONSTANT CroatStrict = FALSE\nPOSTCONDITION Consumed\nCHECK_DEADLOCK FALSE\n", records)
    for t in tuples["REJECT"]:
        _, tid, kind, verdict, extra = t[:5]
        c, v = index[tid]
        if kind == "abs":
            ctx.note_drift("Sanitize", {"input": v["v"], "model": extra, "real": v["sancls"]})
            continue
        ctx.violation({"original": c["s"], "rewritten": v["v"], "rewriting": v["kind"], "languages": c["kw"].get("languages"), "settings": c["settings"]},
                      verdict, expected=v["base"], observed=v["rew"] or v["exc"], extra={"full_case": {"s": c["s"], "variants": [[v["kind"], v["v"]]], "kw": c["kw"], "settings": c["settings"]}})
    cov = {
        "states": mc.distinct, "transitions": mc.generated, "traces_validated_against_impl": len(records),
        "evaluations": len(records), "distinct_nontrivial": len({(c["s"], v["v"]) for c, v in index if v["base"] and v["base"][0]}),
        "rule": "case = (string, language, one rewriting: whitespace family or a Unicode decimal-digit block); non-trivial = distinct pair whose original parses to a datetime",
        "exhaustive": False, "digit_blocks": len(blocks), "strings": len(cases), "pinned_period_rule_refuted": pinned.invariant_violated, "pinned_trim_rule_refuted": pinned_trim.invariant_violated, "pinned_croatian_rule_refuted": pinned_croat.invariant_violated,
        "samples": [{"original": c["s"], "rewritten": v["v"], "kind": v["kind"], "base": v["base"], "rewritten_result": v["rew"]} for c, v in index[:: max(1, len(index) // 6)]][:6],
    }
    return core.finish(ctx, LEVEL, cov, assumptions=[
        "class abstraction: ASCII digit, other Nd digit, space, tab/newline/CR, NBSP, '.', ':', letter, other; strings using the special-cased characters of sanitize_date (Russian year marker, 'on:', apostrophe look-alikes, ...) are excluded from the refinement check only",
        "digit substitution replaces every ASCII digit of the string by the digit of the same value of one Unicode Nd block"])
