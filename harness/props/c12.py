"""C12 - timezone settings preserve the instant; awareness follows the setting.

E1: P_C12.tla - the four parsers' pipelines (Timezone.tla) = oracle over an offset grid x boundary wall
    clocks x own-zone x TO_TIMEZONE x awareness.
E2/E3: ordered pairs of IANA zones (pytz.common_timezones) and library offsets / abbreviations, local
    datetimes 1950..2037 that are neither in a gap nor ambiguous, all four parsers, all three awareness
    settings; TLC (T_C12.tla) judges every call with zone offsets at the relevant instant taken from
    pytz (the statement's reference)."""

import datetime

import pytz

from .. import core

LEVEL = "model_checking"
NAIVE = 100000
MC_CFG = """SPECIFICATION Spec
CONSTANTS
  OffCodes = {%s}
  Walls = {1, 2, 3, 4, 5, 6, 7}
INVARIANT InstantPreserved
CHECK_DEADLOCK FALSE
"""
OFFS = [-43200, -39600, -34200, -18000, -12600, 0, 3600, 12600, 19800, 20700, 31500, 34200, 46800, 50400]
RATAS = ["true", "false", "default"]


def local_ok(tz, w):
    """offset of zone tz for the naive local time w, or None if w is in a gap / ambiguous there"""
    try:
        return int(tz.localize(w, is_dst=None).utcoffset().total_seconds())
    except (pytz.AmbiguousTimeError, pytz.NonExistentTimeError):
        return None


def off_at(tz, utc_naive):
    return int(pytz.utc.localize(utc_naive).astimezone(tz).utcoffset().total_seconds())


def run(ctx):
    rng = ctx.rng
    mc = ctx.tlc("P_C12", MC_CFG % ", ".join(str(o + 43200) for o in (OFFS if not ctx.quick() else OFFS[::2] + [20700])), timeout=1800)
    mc.require_clean()
    for inv in mc.invariant_violated:
        ctx.violation({"tlc_counterexample": mc.counterexample()[-1:]}, "TLC refuted invariant %s of P_C12" % inv)
    tzt = core.run_cases(ctx, "harness.export", "export_tz", [{}], nproc=1)[0]["rows"]
    lib_offsets = {}
    for name, pat, flags, off in tzt:
        lib_offsets.setdefault(name, set()).add(off)
    pytz_names = set(pytz.all_timezones)
    lib_abbr = [(n, next(iter(o))) for n, o in lib_offsets.items() if not n.startswith("UTC") and len(o) == 1 and n not in pytz_names
                and n.isascii() and n.isalpha() and len(n) >= 3 and n.upper() == n]
    lib_off = sorted({next(iter(o)) for n, o in lib_offsets.items() if n.startswith("UTC")})
    zones = list(pytz.common_timezones)

    def pick_zone():
        """(settings string, resolver)"""
        r = rng.random()
        if r < 0.8:
            z = rng.choice(zones)
            return z, pytz.timezone(z)
        if r < 0.9:
            n, o = rng.choice(lib_abbr)
            return n, pytz.FixedOffset(o // 60) if o % 60 == 0 else None
        o = rng.choice(lib_off)
        sign = "+" if o >= 0 else "-"
        s = rng.choice(["%s%02d%02d", "UTC%s%02d:%02d", "%s%02d:%02d"]) % (sign, abs(o) // 3600, (abs(o) % 3600) // 60)
        return s, pytz.FixedOffset(o // 60)

    cases = rep = core.replay_cases(ctx)
    if not rep:
        cases = []
        npairs = 20000 if ctx.quick() else 190000
        # every zone at least once on each side
        sides = [(z, pytz.timezone(z)) for z in zones]
        # name collisions: a library abbreviation that some IANA zone ALSO uses as its tzname, possibly for a different
        # offset (Asia/Shanghai and Havana say "CST", Kolkata and Dublin say "IST").  Every such (zone, abbreviation, date
        # at which the zone carries that name) pair is run in both directions.
        abbr_off = dict(lib_abbr)
        forced = []
        for z in zones:
            tz = pytz.timezone(z)
            seen_names = set()
            for y in range(1951, 2037, 5):
                for mth in (1, 7):
                    w0 = datetime.datetime(y, mth, 15, 12, 0, 0)
                    try:
                        nm = tz.localize(w0, is_dst=None).tzname()
                    except (pytz.AmbiguousTimeError, pytz.NonExistentTimeError):
                        continue
                    if nm in abbr_off and abbr_off[nm] % 60 == 0 and (nm, y >= 2002) not in seen_names:
                        seen_names.add((nm, y >= 2002))
                        B_ = (nm, pytz.FixedOffset(abbr_off[nm] // 60))
                        forced.append(((z, tz), B_, w0))
                        forced.append((B_, (z, tz), w0))
        if ctx.quick():
            rng.shuffle(forced)
            forced = forced[:1500]
        k = 0
        while len(cases) < npairs and k < npairs * 3:
            k += 1
            forced_w = None
            if forced:
                A, B, forced_w = forced.pop()
            else:
                A = sides[k % len(sides)] if k <= len(sides) else pick_zone()
                B = sides[(k * 7) % len(sides)] if len(sides) < k <= 2 * len(sides) else pick_zone()
            if A[1] is None or B[1] is None:
                continue
            parser = rng.choice(["absolute", "absolute-own", "relative", "timestamp", "custom"])
            rata = rng.choice(RATAS)
            has_to = rng.random() < 0.8
            y = rng.randint(2002, 2037) if parser == "timestamp" else rng.randint(1950, 2037)
            w = datetime.datetime(y, rng.randint(1, 12), rng.randint(1, 28), rng.randint(0, 23), rng.randint(0, 59), rng.randint(0, 59))
            if forced_w is not None:
                has_to = True
                w = forced_w.replace(hour=rng.randint(0, 23), minute=rng.randint(0, 59))
                if parser == "timestamp" and w.year < 2002:
                    parser = "absolute"
            elif rng.random() < 0.15:         # next to a DST transition of A, when it has any
                tt = getattr(A[1], "_utc_transition_times", None)
                if tt:
                    cand = [t for t in tt if 1950 < t.year < 2037 and (parser != "timestamp" or t.year > 2002)]
                    if cand:
                        t = rng.choice(cand)
                        w = (t + datetime.timedelta(seconds=off_at(A[1], t)) + datetime.timedelta(hours=rng.choice([-3, -2, 2, 3]))).replace(microsecond=0)
            st = {"TIMEZONE": A[0]}
            if has_to:
                st["TO_TIMEZONE"] = B[0]
            if rata != "default":
                st["RETURN_AS_TIMEZONE_AWARE"] = rata == "true"
            kw = {"languages": ["en"]}
            ws = w.strftime("%Y-%m-%d %H:%M:%S")
            own = False
            if parser == "absolute-own":
                if rng.random() < 0.35:      # the string's own zone as a library abbreviation
                    ab, o = rng.choice(lib_abbr)
                    s = ws + " " + ab
                else:
                    o = rng.choice(lib_off)
                    sign = "+" if o >= 0 else "-"
                    s = ws + rng.choice([" %s%02d%02d", " %s%02d:%02d", " UTC%s%02d:%02d"]) % (sign, abs(o) // 3600, (abs(o) % 3600) // 60)
                offA = o
                own = True
                inst = w - datetime.timedelta(seconds=o)
                offTz = off_at(A[1], inst)
                offTo = off_at(B[1], inst)
                offT = offTo if has_to else offTz
            else:
                offA = local_ok(A[1], w)
                if offA is None:
                    continue
                inst = w - datetime.timedelta(seconds=offA)
                offTz = offA
                offTo = off_at(B[1], inst)
                offT = offTo if has_to else offA
                if parser == "absolute":
                    s = ws
                elif parser == "custom":
                    s = ws
                    kw["date_formats"] = ["%Y-%m-%d %H:%M:%S"]
                elif parser == "relative":
                    s = rng.choice(["now", "0 seconds ago"])
                    wb = w
                    if rng.random() < 0.5:
                        # a phrase that MOVES the reference by whole days (often across a DST change of TIMEZONE): the
                        # result is the wall clock w in TIMEZONE, an instant like any other
                        nd = rng.choice([30, 45, 120, 200, 7, 400])
                        fut = rng.random() < 0.5
                        wb2 = w - datetime.timedelta(days=nd) if fut else w + datetime.timedelta(days=nd)
                        if 1950 <= wb2.year <= 2037 and local_ok(A[1], wb2) is not None:
                            wb = wb2
                            s = rng.choice(["in %d days", "in %d day"]) % nd if fut else "%d days ago" % nd
                            if nd % 7 == 0 and rng.random() < 0.5:
                                s = "in %d weeks" % (nd // 7) if fut else "%d weeks ago" % (nd // 7)
                    st["RELATIVE_BASE"] = [wb.year, wb.month, wb.day, wb.hour, wb.minute, wb.second, 0]
                else:
                    n = int((inst - datetime.datetime(1970, 1, 1)).total_seconds())
                    if not (10 ** 9 <= n < 10 ** 10):
                        continue
                    s = str(n)
            # the target's wall clock must be representable and not ambiguous to express (always true for an instant)
            cases.append({"parser": parser.split("-")[0], "own": own, "w": [w.year, w.month, w.day, w.hour, w.minute, w.second, 0],
                          "offA": offA, "offT": offT, "offTz": offTz, "offTo": offTo, "hasTo": has_to, "rata": rata,
                          "s": s, "kw": kw, "settings": st, "api": "parse", "probe": False, "zones": [A[0], B[0] if has_to else None]})
            # however the settings reach the library: a dict, a Settings object (settings.replace), or a dict that the
            # caller empties again once the parser exists
            r_ = rng.random()
            if r_ < 0.2:
                cases[-1]["via"] = "instance"
            elif r_ < 0.35:
                cases[-1]["via"] = "cleared"
                cases[-1]["api"] = "ddp"
    results = core.run_cases(ctx, "harness.lib", "call_parse", cases, env=({"TZ": cases[0]["tzenv"]} if rep and cases[0].get("tzenv") else None))
    # ---- TIMEZONE='local': the process-local zone comes from the TZ environment of the worker processes
    if not rep:
        for tzenv in (["Asia/Kolkata", "America/New_York", "Pacific/Kiritimati"] if ctx.quick() else
                      ["Asia/Kolkata", "America/New_York", "Pacific/Kiritimati", "Europe/Berlin", "Australia/Lord_Howe", "America/St_Johns", "UTC"]):
            Lz = pytz.timezone(tzenv)
            lc = []
            for _ in range(150 if ctx.quick() else 1500):
                B = pick_zone()
                if B[1] is None:
                    continue
                parser = rng.choice(["absolute", "relative", "timestamp", "custom"])
                rata = rng.choice(RATAS)
                has_to = rng.random() < 0.8
                y = rng.randint(2002, 2030)      # pytz (oracle) and the process-local zoneinfo agree on these years
                w = datetime.datetime(y, rng.randint(1, 12), rng.randint(1, 28), rng.randint(0, 23), rng.randint(0, 59), rng.randint(0, 59))
                offA = local_ok(Lz, w)
                if offA is None:
                    continue
                inst = w - datetime.timedelta(seconds=offA)
                offTo = off_at(B[1], inst)
                st = {"TIMEZONE": "local"}
                if has_to:
                    st["TO_TIMEZONE"] = B[0]
                if rata != "default":
                    st["RETURN_AS_TIMEZONE_AWARE"] = rata == "true"
                kw = {"languages": ["en"]}
                ws = w.strftime("%Y-%m-%d %H:%M:%S")
                if parser == "custom":
                    s_, kw["date_formats"] = ws, ["%Y-%m-%d %H:%M:%S"]
                elif parser == "relative":
                    s_ = "now"
                    st["RELATIVE_BASE"] = [w.year, w.month, w.day, w.hour, w.minute, w.second, 0]
                elif parser == "timestamp":
                    n = int((inst - datetime.datetime(1970, 1, 1)).total_seconds())
                    if not (10 ** 9 <= n < 10 ** 10):
                        continue
                    s_ = str(n)
                else:
                    s_ = ws
                lc.append({"parser": parser, "own": False, "w": [w.year, w.month, w.day, w.hour, w.minute, w.second, 0], "offA": offA,
                           "offT": offTo if has_to else offA, "offTz": offA, "offTo": offTo, "hasTo": has_to, "rata": rata, "s": s_, "kw": kw,
                           "settings": st, "api": "parse", "probe": False, "zones": ["local(TZ=%s)" % tzenv, B[0] if has_to else None], "tzenv": tzenv})
            lr = core.run_cases(ctx, "harness.lib", "call_parse", lc, nproc=4, env={"TZ": tzenv})
            cases += lc
            results += lr
    if not rep:
        # ---- a timezone-AWARE reference time: the relative result is a fixed instant (the reference's), TIMEZONE does not
        # re-read it, TO_TIMEZONE re-expresses it; awareness follows the setting (default: naive, the string names no zone)
        aware = []
        for _ in range(1200 if ctx.quick() else 20000):
            A = pick_zone()
            T = pick_zone()
            B = pick_zone()
            if A[1] is None or B[1] is None or isinstance(A[0], str) and not hasattr(A[1], "localize"):
                continue
            w = datetime.datetime(rng.randint(1971, 2037), rng.randint(1, 12), rng.randint(1, 28), rng.randint(0, 23), rng.randint(0, 59), rng.randint(0, 59))
            offA = local_ok(A[1], w)
            if offA is None:
                continue
            inst = w - datetime.timedelta(seconds=offA)
            has_to = rng.random() < 0.6
            rata = rng.choice(RATAS)
            offTo = off_at(B[1], inst)
            st = {"RELATIVE_BASE": {"dt": [w.year, w.month, w.day, w.hour, w.minute, w.second, 0], "tz": A[0] if A[0] in pytz_names else offA}}
            if rng.random() < 0.8:
                st["TIMEZONE"] = T[0]
            if has_to:
                st["TO_TIMEZONE"] = B[0]
            if rata != "default":
                st["RETURN_AS_TIMEZONE_AWARE"] = rata == "true"
            aware.append({"parser": "relative", "own": False, "w": [w.year, w.month, w.day, w.hour, w.minute, w.second, 0], "offA": offA,
                          "offT": offTo if has_to else offA, "offTz": offA, "offTo": offTo, "hasTo": has_to, "rata": rata, "s": rng.choice(["now", "0 seconds ago"]),
                          "kw": {"languages": ["en"]}, "settings": st, "api": "parse", "probe": False, "zones": ["aware base " + str(A[0]), B[0] if has_to else None]})
        # half of them after a call whose reference is the SAME INSTANT written in another zone, all other settings equal
        # (aware datetimes compare and hash by instant: whatever is remembered under such a value must not serve this call)
        for c in aware:
            if rng.random() < 0.5:
                new = c["offA"] - 18000 if c["offA"] >= 0 else c["offA"] + 25200
                d_ = datetime.datetime(*c["w"][:6]) + datetime.timedelta(seconds=new - c["offA"])
                st_ = dict(c["settings"])
                st_["RELATIVE_BASE"] = {"dt": [d_.year, d_.month, d_.day, d_.hour, d_.minute, d_.second, 0], "tz": new}
                c["pre"] = [{"s": rng.choice(["now", "2 hours ago", "6 months ago"]), "kw": {"languages": ["en"]}, "settings": st_}]
        cases += aware
        results += core.run_cases(ctx, "harness.lib", "call_parse", aware)
        # with TIMEZONE given explicitly the zone of the PROCESS must not matter: a sample of the cases above (all those
        # whose TIMEZONE sits at offset zero - UTC, Abidjan, London in winter - and a share of the rest) runs again in
        # workers whose TZ is far from UTC
        main = [c for c in cases if not c.get("tzenv")]
        pick = [c for c in main if c["offTz"] == 0 or c["parser"] == "relative"][: (1500 if ctx.quick() else 20000)]
        pick += rng.sample(main, min(len(main), 1000 if ctx.quick() else 15000))
        for tzenv in ["America/New_York", "Asia/Kolkata"] if ctx.quick() else ["America/New_York", "Asia/Kolkata", "Pacific/Kiritimati", "America/St_Johns"]:
            sub = [dict(c, tzenv="process " + tzenv) for c in pick[:: (2 if ctx.quick() else 1)]]
            cases += sub
            results += core.run_cases(ctx, "harness.lib", "call_parse", sub, env={"TZ": tzenv})
    records = []
    for i, (c, r) in enumerate(zip(cases, results)):
        records.append({"tid": i, "parser": c["parser"], "own": c["own"], "w": c["w"], "offA": c["offA"], "offT": c["offT"], "offTz": c["offTz"],
                        "offTo": c["offTo"], "hasTo": c["hasTo"], "rata": c["rata"], "out": r["out"], "off": NAIVE if r["off"] == "naive" else r["off"],
                        "exc": r["exc"]})
    tuples, _ = core.validate_traces(ctx, "T_C12", "SPECIFICATION TSpec\nPOSTCONDITION Consumed\nCHECK_DEADLOCK FALSE\n", records, tags=("REJECT", "SKIP"))
    sp = len(tuples["SKIP"])
    for t in tuples["REJECT"]:
        _, tid, kind, verdict, exp = t[:5]
        c, r = cases[tid], results[tid]
        d = {"call": "dateparser.parse(%r, %s, settings=%r)" % (c["s"], ", ".join("%s=%r" % kv for kv in c["kw"].items()), c["settings"]), "parser": c["parser"], "TZ_env": c.get("tzenv"), "earlier_calls_of_the_process": c.get("pre") or [],
             "settings_given_as": {"instance": "dateparser.conf.settings.replace(**settings)", "cleared": "a dict passed to DateDataParser(...) and emptied by the caller before get_date_data"}.get(c.get("via"), "a dict")}
        if kind == "abs":
            ctx.note_drift("Timezone", {"case": d, "model": exp, "observed": [r["out"], r["off"]]})
        else:
            ctx.violation(d, verdict, expected=exp, observed={"out": r["out"], "off": r["off"], "exc": r["exc"], "msg": r.get("msg")}, extra={"full_case": c})
    cov = {
        "states": mc.distinct, "transitions": mc.generated, "traces_validated_against_impl": len(cases) - sp,
        "evaluations": len(cases), "distinct_nontrivial": len({(c["s"], repr(sorted(c["settings"].items()))) for c, r in zip(cases, results) if r["out"]}),
        "rule": "case = (parser, local datetime, TIMEZONE, TO_TIMEZONE, RETURN_AS_TIMEZONE_AWARE, own zone); non-trivial = distinct call returning a datetime",
        "exhaustive": False,
        "by_parser": {p: sum(1 for c in cases if c["parser"] == p) for p in ("absolute", "relative", "timestamp", "custom")},
        "own_zone_cases": sum(1 for c in cases if c["own"]), "zones_as_TIMEZONE": len({c["zones"][0] for c in cases}),
        "zones_as_TO_TIMEZONE": len({c["zones"][1] for c in cases if c["zones"][1]}),
        "samples": [{"call": c["s"], "settings": c["settings"], "parser": c["parser"], "observed": [r["out"], r["off"]]} for c, r in list(zip(cases, results))[:: max(1, len(cases) // 6)]][:6],
    }
    return core.finish(ctx, LEVEL, cov, assumptions=[
        "zone offsets at the relevant instant come from pytz (the statement's reference); local times in a DST gap or fold of TIMEZONE are excluded",
        "library abbreviations that are also IANA names (CET, EST, ...) are not used as settings values: the two resolution orders of the library give them different meanings",
        "TIMEZONE='local': worker processes run with TZ set to several zones; strings with their own zone are not combined with TIMEZONE='local' (the code keeps the string's zone there, the statement does not settle it)"])
