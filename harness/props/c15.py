"""C15 - Jalali and Hijri dates convert to the right Gregorian date.

Spec: CalParsers.tla (the absolute parser's token machine with the non-Gregorian acceptance / hand-off
rules).  Every valid date of the chosen years in numeric and (Jalali) named / weekday / spelled-day /
Persian-digit spellings, with and without a clock time, through JalaliCalendar / HijriCalendar; TLC
(T_C15.tla) compares with the reference conversion (convertdate.persian, hijridate) and with the machine."""

from .. import core

LEVEL = "model_checking"
PDIG = "۰۱۲۳۴۵۶۷۸۹"


def pers(s):
    return "".join(PDIG[int(ch)] if ch.isdigit() else ch for ch in s)


def export_tables(_req=None):
    from dateparser.calendars.jalali_parser import jalali_parser as J
    return {"months": [v[-1] for v in J._months.values()], "weekdays": {k: v for k, v in J._weekdays.items()},
            "numbers": {str(k): v for k, v in J._number_letters.items()}}


def run(ctx):
    rng = ctx.rng
    from convertdate import persian
    from hijridate import Hijri
    import datetime
    tabs = core.run_cases(ctx, "harness.props.c15", "export_tables", [{}], nproc=1)[0]
    cases = core.replay_cases(ctx)
    if not cases:
        cases = []

        def add(cal, y, m, d, s, tm, mlen, ref, deflen):
            cases.append({"cal": cal, "y": y, "m": m, "d": d, "s": s, "tm": tm or [0, 0, 0, 0], "monthLen": mlen, "ref": list(ref), "defLen": deflen})

        def tsuffix():
            r = rng.random()
            if r < 0.5:
                return "", None
            h, mi, s = rng.randint(0, 23), rng.randint(0, 59), rng.randint(0, 59)
            if r < 0.7:
                return " %02d:%02d" % (h, mi), [h, mi, 0, 0]
            if r < 0.88:
                return " %02d:%02d:%02d" % (h, mi, s), [h, mi, s, 0]
            digits = rng.choice([1, 2, 3, 6])          # "any clock time in the string": fractions of a second too
            frac = rng.randint(1, 10 ** digits - 1)
            return " %02d:%02d:%02d.%0*d" % (h, mi, s, digits, frac), [h, mi, s, frac * 10 ** (6 - digits)]

        # ---- Jalali
        jy = [1200, 1201, 1299, 1300, 1348, 1370, 1375, 1379, 1394, 1395, 1399, 1400, 1403, 1404, 1408, 1450, 1499, 1500] + \
             [rng.randint(1200, 1500) for _ in range(7)]
        if not ctx.quick():
            jy = list(range(1200, 1501))
        wd_names = ["Monday", "Tuesday", "Wednesday", "Thursday", "Friday", "Saturday", "Sunday"]
        for y in jy:
            for m in range(1, 13):
                mlen = persian.month_length(y, m)
                days = {1, mlen, rng.randint(2, mlen - 1)} if ctx.quick() else set(range(1, mlen + 1))
                if not ctx.quick():
                    days = {1, 12, 13, mlen, mlen - 1, rng.randint(2, 28)} if y % 5 else days
                for d in sorted(days):
                    ref = persian.to_gregorian(y, m, d)
                    forms = ["%04d/%02d/%02d" % (y, m, d), "%04d-%d-%d" % (y, m, d), "%02d-%02d-%04d" % (m, d, y)]
                    if d > 12:
                        forms.append("%02d-%02d-%04d" % (d, m, y))
                    f = rng.choice(forms)
                    if rng.random() < 0.3:
                        f = pers(f)
                    suf, tm = tsuffix()
                    add("jalali", y, m, d, f + suf, tm, mlen, ref, 31)
                    # named month (every listed spelling over the run), optionally weekday / spelled-out day / Persian digits
                    name = rng.choice(tabs["months"][m - 1])
                    daytxt = str(d)
                    r = rng.random()
                    if r < 0.25 and str(d) in tabs["numbers"]:
                        daytxt = rng.choice(tabs["numbers"][str(d)]) + ("م" if rng.random() < 0.5 else "")
                    s = "%s %s %04d" % (daytxt, name, y)
                    if rng.random() < 0.3:
                        wd = wd_names[datetime.date(*ref).weekday()]
                        s = rng.choice(tabs["weekdays"][wd]) + " " + s
                    if rng.random() < 0.4:
                        s = pers(s)
                    suf, tm = tsuffix()
                    add("jalali", y, m, d, s + suf, tm, mlen, ref, 31)
        # every listed month-name spelling at least once
        for m, names in enumerate(tabs["months"], 1):
            for name in names:
                add("jalali", 1394, m, 15, "15 %s 1394" % name, None, persian.month_length(1394, m), persian.to_gregorian(1394, m, 15), 31)
        # ---- Hijri: all dates of the supported range (quick: month starts / ends + a seeded sample)
        for y in range(1343, 1501):
            for m in range(1, 13):
                mlen = Hijri(y, m, 1).month_length()
                days = set(range(1, mlen + 1)) if not ctx.quick() else {1, mlen, rng.randint(2, mlen - 1)}
                for d in sorted(days):
                    g = Hijri(y, m, d).to_gregorian()
                    ref = (g.year, g.month, g.day)
                    forms = ["%04d-%02d-%02d" % (y, m, d), "%04d/%d/%d" % (y, m, d), "%02d-%02d-%04d" % (m, d, y)]
                    if d > 12:
                        forms.append("%02d-%02d-%04d" % (d, m, y))
                    suf, tm = tsuffix()
                    add("hijri", y, m, d, rng.choice(forms) + suf, tm, mlen, ref, 30)
    # which day it is TODAY plays no part for a fully written date: a share of the cases runs with the library's clock
    # moved to days that are the 30th / 31st of a Jalali or Hijri month, a Gregorian month end, a leap day
    # (2021-04-20 = 31 Farvardin 1400, 2021-09-22 = 31 Shahrivar 1400, 2022-03-20 = 29 Esfand 1400, 2021-05-12 = 30 Ramadan 1442,
    #  2021-08-08 = 29 Dhu al-Hijjah 1442)
    CLOCKS = [[2021, 4, 20], [2021, 9, 22], [2022, 3, 20], [2021, 5, 12], [2021, 8, 8], [2024, 2, 29], [2023, 12, 31], [2021, 1, 1], [2021, 3, 21]]
    if not ctx.replay:
        for i, c in enumerate(cases):
            if i % 3 == 0:
                c["fake_today"] = rng.choice(CLOCKS)
    results = core.run_cases(ctx, "harness.lib", "call_calendar", cases)
    records = []
    for i, (c, r) in enumerate(zip(cases, results)):
        records.append({"tid": i, "y": c["y"], "m": c["m"], "d": c["d"], "tm": c["tm"], "monthLen": c["monthLen"], "defLen": c["defLen"],
                        "ref": c["ref"], "out": r["out"], "exc": r["exc"], "toks": r["toks"]})
    tuples, gen = core.validate_traces(ctx, "T_C15", "SPECIFICATION TSpec\nPOSTCONDITION Consumed\nCHECK_DEADLOCK FALSE\n", records, tags=("REJECT", "SKIP"))
    sp = len(tuples["SKIP"])
    for t in tuples["REJECT"]:
        _, tid, kind, verdict, exp = t[:5]
        c, r = cases[tid], results[tid]
        d = {"call": "%sCalendar(%r).get_date()" % (c["cal"].capitalize(), c["s"]), "written": [c["y"], c["m"], c["d"]]}
        if kind == "abs":
            ctx.note_drift("CalParsers", {"case": d, "latin": r.get("latin"), "observed": r["out"]})
        else:
            ctx.violation(d, verdict, expected=exp, observed={"out": r["out"], "exc": r["exc"]}, extra={"full_case": c})
    cov = {
        "states": gen, "transitions": gen, "traces_validated_against_impl": len(cases) - sp,
        "evaluations": len(cases), "distinct_nontrivial": len({(c["cal"], c["s"]) for c, r in zip(cases, results) if r["out"]}),
        "rule": "case = (calendar, written date, spelling, optional clock time); non-trivial = distinct call returning a datetime",
        "exhaustive": not ctx.quick(),
        "by_calendar": {k: sum(1 for c in cases if c["cal"] == k) for k in ("jalali", "hijri")},
        "samples": [{"call": "%sCalendar(%r)" % (c["cal"], c["s"]), "written": [c["y"], c["m"], c["d"]], "reference": c["ref"], "observed": r["out"]}
                    for c, r in list(zip(cases, results))[:: max(1, len(cases) // 6)]][:6],
    }
    return core.finish(ctx, LEVEL, cov, assumptions=[
        "reference conversions: convertdate.persian and hijridate (the statement's reference); what is verified is dateparser's parsing and hand-off",
        "numeric spellings follow the module default DATE_ORDER (MDY): Y-M-D, M-D-Y, and D-M-Y only when D > 12",
        "days beyond the default month's length (31 Jalali / 30 Hijri) are outside the domain"])
