"""C05 - every locale's month and weekday names resolve to their meaning.

Exhaustive over the vocabulary exported from the tree: all languages and regional locales, every listed
month / weekday name, NORMALIZE on and off, 'D <name> YYYY' and weekday-alone probes.  TLC
(Vocabulary.tla / T_C05.tla) decides the domain (single meaning under the ordered-override model), the
expected date, and checks that the model's dictionary value equals the real dictionary's."""

from .. import core

LEVEL = "exploration"


def run(ctx):
    rng = ctx.rng
    exported = core.run_cases(ctx, "harness.export", "export_locales", [{}], nproc=1)[0]
    langs = exported["language_order"]
    findings, _ = core.load_findings("C05")
    known = {(f["signature"]["locale"], f["signature"]["word"]): f["id"] for f in findings}
    only_norm = {f["id"]: f["signature"]["normalize"] for f in findings if "normalize" in f["signature"]}
    rep = core.replay_cases(ctx)
    if rep:
        langs = [rep[0]["lang"]]
    if ctx.quick():
        days, years = [rng.choice([1, 2, 3]), rng.choice([13, 17, 21]), 28], [rng.choice([2015, 1999, 2024])]
        refs = [[2021, 6, d, 10, 30, 0, 0] for d in (8, rng.randint(9, 23), 24)]
    else:
        days, years = list(range(1, 29)), [1987, 2024]
        refs = [[2021, 6, d, 10, 30, 0, 0] for d in range(8, 25)]
    reqs = []
    for L in langs:
        tg = [L] + sorted(exported["langs"][L]["locales"])
        for i in range(0, len(tg), 6):          # one work unit = a language and up to 5 of its locales (load balance)
            reqs.append({"lang": L, "targets": tg[i:i + 6], "days": days, "years": years, "refs": refs, "quick": ctx.quick(),
                         "search_first": False})
    # every language once more with search_dates reaching it FIRST under the very settings the parser then uses (a
    # reference time of their own keeps these settings apart from everything else the worker has seen)
    for L in langs:
        reqs.append({"lang": L, "targets": [L], "days": days[:1], "years": years[:1], "refs": [[r_[0], r_[1], r_[2], 11, 45, 0, 0] for r_ in refs[:1]], "quick": ctx.quick(),
                     "search_first": True, "base_hour": 13})
    res = core.run_cases(ctx, "harness.c05lib", "walk_language", reqs, chunk=1)
    # ---- load order: the units above load the language first and its regional locales after it.  Regional locales that
    # add words of their own are also loaded FIRST in a fresh process, then the language, then sibling locales: what one
    # locale adds must not reach the others.  (Always: overlays with a word the language lists under another key.)
    fresh_reqs = []
    if not rep:
        for L in langs:
            ov = exported["langs"][L].get("overlays", {})
            if not ov:
                continue
            firsts = [loc for loc, o in sorted(ov.items()) if o["collides"]]
            others = [loc for loc in sorted(ov) if loc not in firsts]
            firsts += others if not ctx.quick() else rng.sample(others, min(1, len(others)))
            allloc = sorted(exported["langs"][L]["locales"])
            for f in firsts:
                sib = rng.sample([x for x in allloc if x != f], min(2, len(allloc) - 1))
                order_ = [f, L] + sib
                fresh_reqs.append({"lang": L, "targets": order_, "order": order_, "days": days[:2], "years": years[:1], "refs": refs[:2], "quick": False})
        fres = core.run_fresh(ctx, "harness.c05lib", "walk_language", fresh_reqs)
        reqs = reqs + fresh_reqs
        res = res + fres
    records, index = [], []
    nwords = 0
    for L, recs in zip([r["lang"] for r in reqs], res):
        for rec in recs:
            if "error" in rec:
                ctx.violation({"locale": rec["target"]}, "the locale cannot be loaded: %s" % rec["error"])
                continue
            nwords += 1
            for run_ in rec["runs"]:
                tid = len(index)
                index.append((L, rec, run_))
                records.append({"tid": tid, "kind": rec["kind"], "val": rec["val"], "assign": rec["assign"], "writes": rec["writes"], "dictval": rec["dictval"],
                                "d": run_["d"], "y": run_["y"], "base": run_["base"], "out": run_["out"], "exc": run_["exc"]})
    tuples, gen = core.validate_traces(ctx, "T_C05", "SPECIFICATION TSpec\nPOSTCONDITION Consumed\nCHECK_DEADLOCK FALSE\n", records, tags=("REJECT", "SKIP"))
    sp = len(tuples["SKIP"])
    failing = {}
    for t in tuples["REJECT"]:
        _, tid, kind, verdict, exp = t[:5]
        L, rec, run_ = index[tid]
        if kind == "abs":
            ctx.note_drift("Vocabulary", {"locale": rec["target"], "word": rec["word"], "normalize": rec["norm"], "model": exp, "dictionary": rec["dictval"]})
            continue
        failing.setdefault((rec["target"], rec["word"]), []).append((rec, run_, verdict, exp))
    for (target, word), lst in sorted(failing.items()):
        fid = known.get((target, word)) or known.get((lst[0][0]["tk"] == "locales" and target.split("-")[0] or target, word))
        if fid and fid in only_norm:
            # a finding recorded for one NORMALIZE value only: failures under the other value are new
            rest = [x for x in lst if x[0]["norm"] not in only_norm[fid]]
            ctx.known(fid, len(lst) - len(rest))
            if not rest:
                continue
            lst = rest
        elif fid:
            ctx.known(fid, len(lst))
            continue
        rec, run_, verdict, exp = lst[0]
        ctx.violation({"call": "DateDataParser(%s=[%r], settings={'NORMALIZE': %r, 'RELATIVE_BASE': %r}).get_date_data(%r)" % (
            rec["tk"], target, rec["norm"], run_["base"], run_["s"]), "locale": target, "word": word, "listed_under": rec["key"], "failing_probes": len(lst)},
            verdict, expected=exp, observed={"out": run_["out"], "exc": run_["exc"]}, extra={"full_case": {"lang": L}})
    cov = {
        "evaluations": len(records), "distinct_nontrivial": len({(r["target"], r["word"], r["norm"]) for _, r, _ in index if r["assign"] and len(set(r["assign"])) == 1}),
        "rule": "case = (language or locale, listed month/weekday name, NORMALIZE, probe); non-trivial = distinct (locale, name, NORMALIZE) inside the domain (single meaning)",
        "exhaustive": not ctx.quick(), "languages": len(langs), "locale_word_pairs": nwords, "outside_domain_probes": sp,
        "states": gen, "transitions": gen, "traces_validated_against_impl": len(records) - sp,
        "failing_locale_word_pairs": len(failing), "regional_first_fresh_processes": len(fresh_reqs),
        "samples": [{"locale": r["target"], "word": r["word"], "key": r["key"], "probe": u["s"], "observed": u["out"]} for _, r, u in index[:: max(1, len(index) // 6)]][:6],
    }
    import os, json
    if os.environ.get("VERIF_DUMP_FAILING"):
        with open(os.environ["VERIF_DUMP_FAILING"], "w") as f:
            json.dump([{"locale": k[0], "word": k[1], "key": v[0][0]["key"], "tk": v[0][0]["tk"], "n": len(v), "verdicts": sorted({x[2] for x in v}),
                        "norms": sorted({x[0]["norm"] for x in v}), "example": v[0][1]["s"], "observed": v[0][1]["out"], "expected": v[0][3]} for k, v in sorted(failing.items())], f, indent=1)
    return core.finish(ctx, LEVEL, cov, findings_desc={f["id"]: "%s name %r of %s (listed under %r)%s is not read as that month / weekday" % (
        "month / weekday", f["signature"]["word"], f["signature"]["locale"], f["signature"].get("listed_under", "?"),
        " with NORMALIZE=%s" % f["signature"]["normalize"] if "normalize" in f["signature"] else "") for f in findings}, assumptions=[
        "domain: the word's (lower-cased, NORMALIZE-dependent) form is listed under exactly one key across skip, pertain, the known words, parser tokens and relative-type words",
        "weekday-only probes use reference days 8..24 (month boundaries are C09's subject)",
        "quick: locales that add no names of their own are covered by a sample of the language's names"])
