"""C07 - DATE_ORDER and the locale's own order decide numeric dates.

E1: TLC enumerates every valid (y, m, d) of a year grid x 6 orders x padding x time suffix and
    checks machine = oracle (spec/P_C07.tla).
E2/E3: stratified + seeded cases rendered to strings, executed through the public API of the tree
    under test with the absolute-parser probe on; TLC (spec/T_C07.tla) judges every recorded call
    against the oracle (property-on-trace) and every probe event against the machine (refinement)."""

import calendar

from .. import absfam, core

LEVEL = "model_checking"
ORDERS = ["DMY", "DYM", "MDY", "MYD", "YDM", "YMD"]
SEPS = ["-", "/", ".", " "]
BASE = [2021, 6, 15, 12, 0, 0, 0]

MC_CFG = """SPECIFICATION Spec
CONSTANTS
  Years = {%s}
  Orders = {"DMY", "DYM", "MDY", "MYD", "YDM", "YMD"}
INVARIANT GeneratedInDomain
INVARIANT ExplicitOrderDecides
INVARIANT FourDigitPinsYear
CHECK_DEADLOCK FALSE
"""

QUICK_YEARS = [1, 4, 12, 31, 32, 99, 100, 400, 999, 1000, 1200, 1400, 1582, 1900, 1969, 2000, 2015, 2024,
               2100, 9999]
THOROUGH_YEARS = sorted(set(QUICK_YEARS + list(range(1, 40)) + list(range(1000, 1500, 7)) +
                            list(range(1890, 2110)) + list(range(100, 10000, 173)) + [9998, 9000, 2400]))


def render(f, sep, tm, style=None):
    """style: (joiner, fraction digits or '', zone suffix) - the written forms of "optional time suffix"."""
    s = sep.join(str(v).zfill(n) for n, v in f)
    if tm is not None:
        j, frac, zone = style or (" ", "", "")
        s += "%s%02d:%02d:%02d" % ((j,) + tuple(tm))
        if frac:
            s += "." + frac
        s += zone
    return s


JOINERS = [" ", " ", "T", "t"]
FRACS = ["", "", "", "250", "5", "123456"]
ZONES = ["", "", "", "Z", "z", "+02:00", "-0500", " +0200", " UTC", " -03:30"]


def time_style(rng, sep):
    j = rng.choice(JOINERS) if sep != " " else " "
    z = rng.choice(ZONES)
    if z == "z" and j == " ":
        z = "Z"
    return (j, rng.choice(FRACS), z)


def fields(order, y, m, d, pad):
    out = []
    for ch in order:
        if ch == "Y":
            out.append([4, y])
        elif ch == "M":
            out.append([2 if pad else len(str(m)), m])
        else:
            out.append([2 if pad else len(str(d)), d])
    return out


def boundary_days(y):
    days = [(1, 1), (1, 31), (2, 28), (3, 1), (4, 30), (5, 13), (6, 12), (7, 7), (8, 31), (9, 9), (10, 10),
            (11, 30), (12, 12), (12, 31), (1, 2), (2, 1), (12, 1), (1, 12), (3, 4), (11, 10)]
    if calendar.isleap(y):
        days.append((2, 29))
    return days


def make_cases(ctx, langs):
    rng = ctx.rng
    cases = []
    years = QUICK_YEARS if ctx.quick() else THOROUGH_YEARS
    # --- clause 1: explicit DATE_ORDER decides (English), every order x separator x padding x time form
    n_rand = 4 if ctx.quick() else 30
    for o in ORDERS:
        for y in years:
            days = boundary_days(y)
            days += [(m, rng.randint(1, calendar.monthrange(y, m)[1])) for m in rng.sample(range(1, 13), n_rand if n_rand <= 12 else 12)]
            for (m, d) in days:
                for sep in (SEPS if not ctx.quick() else rng.sample(SEPS, 2)):
                    pad = rng.random() < 0.6
                    tm = None if rng.random() < 0.6 else [rng.randint(0, 23), rng.randint(0, 59), rng.randint(0, 59)]
                    cases.append({"clause": "explicit", "order": o, "f": fields(o, y, m, d, pad), "sep": sep, "tm": tm,
                                  "style": time_style(rng, sep) if tm is not None and rng.random() < 0.5 else None,
                                  "kw": {"languages": ["en"]}, "explicit": True, "plo": True, "locorder": "MDY"})
    # --- clause 1, every written form of the time suffix on padded fields: the suffix (ISO 'T', fraction, 'Z', numeric
    # offset) never takes part in deciding the order
    for o in ORDERS:
        for (y, m, d) in [(2012, 11, 10), (1999, 2, 1), (2024, 12, 31), (rng.choice(years), rng.randint(1, 12), rng.randint(1, 12))]:
            for sep in ("-", "/", "."):
                for j in ("T", "t", " "):
                    for z in ("", "Z", "+02:00", "-0500", ".250Z", ".5", ".123456+05:30"):
                        if ctx.quick() and sep != "-" and rng.random() < 0.7:
                            continue
                        frac, zone = (z[1:].rstrip("Z+05:30") if z.startswith(".") else ""), z
                        if z.startswith("."):
                            frac = "".join(ch for ch in z[1:].split("Z")[0].split("+")[0] if ch.isdigit())
                            zone = z[1 + len(frac):]
                        cases.append({"clause": "explicit", "order": o, "f": fields(o, y, m, d, True), "sep": sep,
                                      "tm": [rng.randint(0, 23), rng.randint(0, 59), rng.randint(0, 59)], "style": (j, frac, zone),
                                      "kw": rng.choice([{"languages": ["en"]}, {}, {"locales": ["en-GB"]}]), "explicit": True, "plo": rng.random() < 0.7,
                                      "locorder": "MDY"})
    # --- clause 1 crossed with every language and locale (a locale must never override the caller's order)
    probe_dates = [(2015, 3, 4), (1999, 12, 11), (2024, 2, 29), (31, 10, 9)]
    for lang, ent in sorted(langs.items()):
        targets = [("languages", lang, ent["date_order"])] + [("locales", loc, lo) for loc, lo in sorted(ent["locales"].items())]
        if ctx.quick():
            targets = targets[:1] + rng.sample(targets[1:], min(2, len(targets) - 1))
        for kind, name, lo in targets:
            for o in ORDERS:
                ds = probe_dates if not ctx.quick() else rng.sample(probe_dates, 1)
                for (y, m, d) in ds:
                    cases.append({"clause": "explicit-x-locale", "order": o, "f": fields(o, y, m, d, rng.random() < 0.5),
                                  "sep": rng.choice(SEPS), "tm": None, "kw": {kind: [name]}, "explicit": True,
                                  "plo": True, "locorder": lo})
    # --- clause 2: no order supplied -> the locale's own order (MDY if none / preference off)
    for lang, ent in sorted(langs.items()):
        targets = [("languages", lang, ent["date_order"])] + [("locales", loc, lo) for loc, lo in sorted(ent["locales"].items())]
        for kind, name, lo in targets:
            eff = lo or "MDY"
            ds = [(2015, 3, 4), (2015, 11, 5), (1987, 1, 12)] if ctx.quick() else \
                [(2015, 3, 4), (2015, 11, 5), (1987, 1, 12), (2024, 2, 29), (12, 6, 7), (9999, 12, 1)]
            for (y, m, d) in ds:
                for plo in ([True, False] if (y, m, d) == (2015, 3, 4) or not ctx.quick() else [True]):
                    e2 = eff if plo else "MDY"
                    cases.append({"clause": "locale-order", "order": "", "f": fields(e2, y, m, d, rng.random() < 0.5),
                                  "sep": rng.choice(SEPS), "tm": None, "kw": {kind: [name]}, "explicit": False,
                                  "plo": plo, "locorder": lo})
    # "poison" calls interleaved with the cases: parses that FAIL under a locale with its own order and default
    # settings.  They are not judged; a tree that lets such a call leak state (DATE_ORDER left behind on the
    # failure path) shows it in the cases that follow in the same worker process.
    poison = [{"clause": "poison", "order": "", "f": [[2, 12], [2, 31], [4, 2012]], "sep": "/", "tm": None, "kw": {"languages": [L]},
               "explicit": False, "plo": True, "locorder": "", "poison": True} for L in ("fr", "de", "ru", "ja", "hu", "fr", "es", "it")]
    mixed = []
    for i, c in enumerate(cases):
        if i % 96 == 0:
            mixed.extend(dict(p) for p in poison * 2)
        mixed.append(c)
    cases = mixed
    for i, c in enumerate(cases):
        st = {"RELATIVE_BASE": BASE}
        if c["explicit"]:
            st["DATE_ORDER"] = c["order"]
        if not c["plo"]:
            st["PREFER_LOCALE_DATE_ORDER"] = False
        c["s"] = render(c["f"], c["sep"], c["tm"], c.get("style"))
        # a weekday name next to the numeric date (true or not for that date) is decoration: the order still decides
        if c["clause"] == "explicit" and rng.random() < 0.15:
            wd = rng.choice(["Mon", "Tue", "Wed", "Thu", "Fri", "Sat", "Sun", "Monday", "Tuesday", "Wednesday", "Thursday", "Friday", "Saturday", "Sunday"])
            c["s"] = rng.choice(["%s %s" % (wd, c["s"]), "%s, %s" % (wd, c["s"]), "%s (%s)" % (c["s"], wd)]) if c["tm"] is None else "%s %s" % (wd, c["s"])
        c["settings"] = st if not c.get("poison") else None
        c["api"] = "ddp"
        c["probe"] = True
    return cases


def describe(c):
    return {"call": "DateDataParser(%s, settings=%r).get_date_data(%r)" % (
        ", ".join("%s=%r" % kv for kv in c["kw"].items()), c["settings"], c["s"]), "clause": c["clause"],
        "parser_used_through": {"pickle": "pickle.loads(pickle.dumps(parser))", "deepcopy": "copy.deepcopy(parser)", "copy": "copy.copy(parser)"}.get(c.get("copy"), "itself")}


def run(ctx):
    years = QUICK_YEARS if ctx.quick() else THOROUGH_YEARS
    # ---------------- E1
    if ctx.replay:
        years = [2015]
    mc = ctx.tlc("P_C07", MC_CFG % ", ".join(map(str, years)), timeout=1500)
    mc.require_clean()
    for inv in mc.invariant_violated:
        ctx.violation({"tlc_counterexample": mc.counterexample()[-1:]}, "TLC refuted invariant %s of P_C07 (machine vs oracle)" % inv)
    if not mc.invariant_violated and mc.distinct < 1000 and not ctx.replay:
        raise core.Machinery("P_C07 explored only %d states (vacuous)" % mc.distinct)
    # ---------------- E2 / E3
    langs = core.run_cases(ctx, "harness.export", "export_locales", [{}], nproc=1)[0]["langs"]
    cases = core.replay_cases(ctx) or make_cases(ctx, langs)
    # a share of the cases runs on parsers that were all constructed before any of them was used (state shared behind
    # the constructor would surface as another case's result)
    # ... among them "twins": settings with EQUAL effective values but different explicit keys - an explicit
    # DATE_ORDER='MDY' (the caller's order wins) next to no order at all (the locale's order wins), for the same locale
    def twin(i):
        c = cases[i]
        return c["clause"] in ("explicit-x-locale", "locale-order") and ((c["explicit"] and c["order"] == "MDY") or (not c["explicit"] and c["plo"]))

    def target(i):
        return (0, repr(sorted(cases[i]["kw"].items())), cases[i]["explicit"]) if twin(i) else (1, "", False)
    results = core.run_cases_prebuilt(ctx, cases, lambda i: not ctx.replay and not cases[i].get("poison") and (i % 5 == 0 or twin(i)), size=4, key=target)
    # ---- the parser handed on as a copy (pickled for a worker process, deep-copied into a pool): the explicit order stays
    # with it.  Each case in an interpreter of its own (copying a parser has side effects on the process on this tree)
    if not ctx.replay:
        rng = ctx.rng
        cp = []
        for _ in range(32 if ctx.quick() else 300):
            o = rng.choice(ORDERS)
            y, m, d = rng.choice([(2020, 2, 3), (2015, 11, 10), (1999, 12, 11), (2024, 5, 6)])
            kw = rng.choice([{"languages": ["fr"]}, {"languages": ["en"]}, {"locales": ["en-AU"]}, {"languages": ["ja"]}, {"languages": ["de"]}, {"locales": ["fr-CA"]}])
            sep = rng.choice(["-", "/", "."])
            f = fields(o, y, m, d, True)
            cp.append({"clause": "explicit-copied", "order": o, "f": f, "sep": sep, "tm": None, "kw": kw, "explicit": True, "plo": True, "locorder": "",
                       "s": render(f, sep, None), "settings": {"RELATIVE_BASE": BASE, "DATE_ORDER": o}, "api": "ddp", "probe": False,
                       "copy": rng.choice(["pickle", "deepcopy", "copy"])})
        cases += cp
        results += core.run_fresh(ctx, "harness.lib", "call_parse", cp)
    records = []
    nabs = 0
    for i, (c, r) in enumerate(zip(cases, results)):
        if c.get("poison"):
            continue
        records.append({"kind": "c07", "tid": i, "explicit": c["explicit"], "given": c["order"] or "MDY",
                        "plo": c["plo"], "locorder": c["locorder"], "f": c["f"], "sep": c["sep"],
                        "tm": c["tm"] or [0, 0, 0],
                        "us": int((c["style"][1] + "000000")[:6]) if c.get("style") and c["style"][1] else 0, "out": r["out"], "period": r["period"], "exc": r["exc"]})
        ar = absfam.abs_records(i, r)
        nabs += len(ar)
        records.extend(ar)
    tuples, gen = core.validate_traces(ctx, "T_C07", absfam.TRACE_CFG, records, tags=("REJECT", "SKIP", "KNOWN"))
    skipped_prop = sum(1 for t in tuples["SKIP"] if t[2] == "prop")
    skipped_abs = sum(1 for t in tuples["SKIP"] if t[2] == "abs")
    absfam.collect(ctx, tuples, cases, results, "AbsParser", describe)
    unbound = sorted({u for r in results for u in r.get("unbound", [])})
    if unbound:
        ctx.notes.append("probe targets not found (refinement skipped): %s" % unbound)
    nontrivial = len({c["s"] + repr(sorted((c["settings"] or {}).items())) + repr(c["kw"]) for c, r in zip(cases, results) if r["out"]})
    # the character scanner in front of the token machine (spec/CharTokens.tla) is bound here: its output is what the abstract
    # tokens of every AbsParser / NoSpaces refinement are read from.  Mismatches are reported as model drift.
    from .. import chartokcheck
    scanner = {}
    if not ctx.replay:
        pairs = list(dict.fromkeys((c["s"], (c["kw"].get("languages") or [None])[0]) for c in cases if isinstance(c.get("s"), str)))
        scanner = chartokcheck.run(ctx, ctx.rng.sample(pairs, min(len(pairs), 900 if ctx.quick() else 6000)) + chartokcheck.multilingual(langs))
    cov = {
        "character_scanner": scanner,
        "states": mc.distinct, "transitions": mc.generated,
        "traces_validated_against_impl": len(cases) - skipped_prop,
        "abs_events_validated": nabs - skipped_abs,
        "evaluations": len(cases), "distinct_nontrivial": nontrivial,
        "rule": "case = (order, three numeric fields, separator, optional time, language/locale); non-trivial = distinct call whose result is a datetime",
        "exhaustive": False,
        "tlc_constants": {"Years": years, "Orders": ORDERS},
        "clauses": {k: sum(1 for c in cases if c["clause"] == k) for k in ("explicit", "explicit-x-locale", "locale-order", "poison")},
        "locales_covered": len({repr(c["kw"]) for c in cases}),
        "samples": [dict(describe(c), expected_by_spec="Reading(order, fields)", observed=r["out"]) for c, r in list(zip(cases, results))[:: max(1, len(cases) // 6)]][:6],
    }
    return core.finish(ctx, LEVEL, cov, findings_desc={f["id"]: f["signature"].get("text", "") for f in core.load_findings("C07")[0]}, assumptions=[
        "TLC bounds: year grid above x all valid days x 6 orders x padding x time suffix (machine = oracle in every state)",
        "the machine is bound to the code by refinement-on-trace of every probe event; the property verdict uses only the oracle",
        "year-last dates joined by '-' whose year spells a UTC offset (HHMM <= 1400, MM in {00,30,45}) are judged by the statement; the pinned tree fails them (known finding C07-year-as-offset), any other wrong reading of such a string is a violation"])
