"""C09 - PREFER_DATES_FROM selects the past / future occurrence, keeping the named parts.

E1: P_C09.tla - base days x times x forms x preferences through the faithful machine: property or
    exactly the known-finding signature (SignatureExact), repaired design satisfies the property.
E2/E3: real calls (TIMEZONE='UTC' for every form, further fixed-offset zones for the time-only form)
    judged by TLC (T_C09.tla); probe events validated against the machine."""

import calendar
import datetime

from .. import absfam, core

LEVEL = "model_checking"
PREFS = ["past", "future", "current_period"]
WD = ["monday", "tuesday", "wednesday", "thursday", "friday", "saturday", "sunday"]
MON = ["january", "february", "march", "april", "may", "june", "july", "august", "september", "october",
       "november", "december"]
ZONES = [("UTC", 0), ("Asia/Kolkata", 19800), ("Pacific/Kiritimati", 50400), ("Pacific/Pago_Pago", -39600),
         ("Asia/Kathmandu", 20700), ("Asia/Tokyo", 32400), ("America/Phoenix", -25200), ("Africa/Nairobi", 10800)]

MC_CFG = """SPECIFICATION Spec
CONSTANTS
  BaseYears = {%s}
  BaseDays = {%s}
  BaseTimes = {0, 100, 1200, 2359}
  ClockGrid = {%s}
  YYs = {0, 21, 30, 67, 68, 69, 70, 99}
INVARIANT GeneratedInDomain
INVARIANT HoldsOrKnownFinding
INVARIANT SignatureExact
INVARIANT RepairedHolds
CHECK_DEADLOCK FALSE
"""
BOUNDARY_DAYS = [101, 102, 115, 131, 201, 228, 297, 299, 301, 331, 430, 501, 630, 731, 801, 831, 901, 1031, 1130,
                 1201, 1231, 1299, 298, 303, 1298, 1229, 107, 108]
ALL_DAYS = sorted({m * 100 + d for m in range(1, 13) for d in range(1, 29)} | {m * 100 + k for m in range(1, 13) for k in (97, 98, 99)})


def cap(s, rng):
    return rng.choice([s, s.capitalize(), s.upper()])


def make_cases(ctx):
    rng = ctx.rng
    cases = []
    years = [1970, 1999, 2000, 2020, 2021, 2023, 2024, 2040, 2067] if ctx.quick() else list(range(1970, 2068))

    def bases_for(y, n):
        out = []
        for m in range(1, 13):
            dim = calendar.monthrange(y, m)[1]
            for d in {1, 2, dim - 1, dim}:
                out.append((y, m, d))
        out += [(y, rng.randint(1, 12), rng.randint(3, 27)) for _ in range(n)]
        return out

    def tod():
        return rng.choice([(0, 0, 0, 0), (0, 0, 1, 0), (1, 0, 0, 0), (12, 0, 0, 0), (23, 59, 59, 999999),
                           (rng.randint(0, 23), rng.randint(0, 59), rng.randint(0, 59), rng.choice([0, 1, 500000]))])

    def gap_cases():
        """time-only strings under zones with daylight saving, on and next to the transition days: wall times inside
        the spring-forward gap, inside the fold, and ordinary ones"""
        import pytz
        for z in ["Europe/Berlin", "America/New_York", "Australia/Lord_Howe", "America/St_Johns", "Pacific/Auckland", "Europe/London", "America/Santiago"]:
            tz = pytz.timezone(z)
            tt = [(t, i) for i, t in enumerate(tz._utc_transition_times) if 2001 <= t.year <= 2036 and i > 0]
            for t, i in rng.sample(tt, min(len(tt), 4 if ctx.quick() else 30)):
                before, after = tz._transition_info[i - 1][0], tz._transition_info[i][0]
                lo, hi = sorted([t + before, t + after])
                if hi - lo < datetime.timedelta(minutes=2) or not (4 <= lo.day <= 25):
                    continue          # (a shift across a month end meets the known month-override finding)
                mid = (lo + (hi - lo) / 2).replace(second=0, microsecond=0)
                for w in (mid, lo.replace(second=0, microsecond=0), (hi - datetime.timedelta(minutes=1)).replace(second=0, microsecond=0),
                          (lo - datetime.timedelta(hours=3)).replace(second=0, microsecond=0)):
                    for bshift in (0, -1, 1):
                        bday = lo.date() + datetime.timedelta(days=bshift)
                        base = (bday.year, bday.month, bday.day) + rng.choice([(0, 0, 0, 0), (12, 0, 0, 0), (23, 59, 59, 0), (w.hour, w.minute, 0, 0)])
                        for pref in ("past", "future", "current_period"):
                            s = rng.choice(["%d:%02d" % (w.hour, w.minute), "%02d:%02d:00" % (w.hour, w.minute),
                                            "%d:%02d %s" % (w.hour % 12 or 12, w.minute, "am" if w.hour < 12 else "pm")])
                            add("timegap", pref, base, s, t=(w.hour, w.minute, 0, 0), zone=(z, 0))

    def add(form, pref, base, s, w=0, t=(0, 0, 0, 0), m=0, d=0, yy=0, zone=("UTC", 0)):
        st = {"RELATIVE_BASE": list(base), "PREFER_DATES_FROM": pref, "TIMEZONE": zone[0]}
        cases.append({"form": form, "pref": pref, "base": list(base), "w": w, "t": list(t), "m": m, "d": d, "yy": yy,
                      "off": zone[1], "s": s, "kw": {"languages": ["en"]}, "settings": st, "api": "ddp", "probe": True})

    for y in years:
        for (by, bm, bd) in bases_for(y, 6 if ctx.quick() else 20):
            base = (by, bm, bd) + tod()
            for pref in PREFS:
                # weekday-only: every weekday (full or abbreviated)
                for w in (range(7) if not ctx.quick() else rng.sample(range(7), 3) + [datetime.date(by, bm, bd).weekday()]):
                    name = WD[w] if rng.random() < 0.6 else WD[w][:3]
                    add("weekday", pref, base, cap(name, rng), w=w)
                # time-only
                for _ in range(3):
                    h, mi = rng.choice([(0, 0), (0, 1), (23, 59), (12, 0), (base[3], base[4]), (rng.randint(0, 23), rng.randint(0, 59))])
                    form = rng.randrange(4)
                    if form == 0:
                        s, t = "%02d:%02d" % (h, mi), (h, mi, 0, 0)
                    elif form == 1:
                        sec = rng.choice([0, 59, base[5]])
                        s, t = "%d:%02d:%02d" % (h, mi, sec), (h, mi, sec, 0)
                    elif form == 2:
                        h12 = h % 12 or 12
                        s, t = "%d:%02d %s" % (h12, mi, "am" if h < 12 else "pm"), (h, mi, 0, 0)
                    else:
                        h12 = h % 12 or 12
                        s, t = "%d %s" % (h12, "AM" if h < 12 else "PM"), (h, 0, 0, 0)
                    zone = ZONES[0] if rng.random() < 0.6 or not (2000 <= by <= 2037) else rng.choice(ZONES[1:])
                    if zone[0] != "UTC":     # the offset the zone really had on that day (Kiritimati and Kathmandu changed theirs before 2000)
                        import pytz
                        zone = (zone[0], int(pytz.timezone(zone[0]).utcoffset(datetime.datetime(by, bm, bd, 12)).total_seconds()))
                    add("time", pref, base, s, t=t, zone=zone)
                # month-only / day-and-month / two-digit year
                for m in (range(1, 13) if not ctx.quick() else rng.sample(range(1, 13), 3) + [bm]):
                    add("month", pref, base, cap(MON[m - 1] if rng.random() < 0.5 else MON[m - 1][:3], rng), m=m)
                    d = rng.choice([1, 15, 28, calendar.monthrange(2000, m)[1], rng.randint(1, 28), bd if bd <= calendar.monthrange(2000, m)[1] else 1])
                    mn = MON[m - 1] if rng.random() < 0.5 else MON[m - 1][:3]
                    s = rng.choice(["%d %s" % (d, mn), "%s %d" % (mn, d)])
                    add("daymonth", pref, base, s, m=m, d=d)
                    # ... with a clock time: on the reference's own day the time of day decides the side (earlier, equal, later
                    # than the reference's time), on other days it is kept as written
                    dd = bd if (rng.random() < 0.5 and m == bm) else d
                    if dd <= calendar.monthrange(2000, m)[1]:
                        h_, mi_ = rng.choice([(base[3], base[4]), (23, 59), (0, 0), (min(23, base[3] + 1), base[4]), (max(0, base[3] - 1), base[4]), (rng.randint(0, 23), rng.randint(0, 59))])
                        add("daymonthtime", pref, base, rng.choice(["%d %s %02d:%02d", "%d %s, %d:%02d"]) % (dd, mn, h_, mi_), m=m, d=dd, t=(h_, mi_, 0, 0))
                    d2 = rng.choice([1, 13, 28, [31, 28, 31, 30, 31, 30, 31, 31, 30, 31, 30, 31][m - 1]])
                    yy = rng.choice([0, 21, 30, 67, 68, 69, 70, 99, by % 100, (by + 1) % 100, (by - 1) % 100, rng.randint(0, 99)])
                    s = rng.choice(["%d %s %02d" % (d2, mn, yy), "%s %d, %02d" % (mn, d2, yy), "%02d/%02d/%02d" % (m, d2, yy)])
                    add("yy", pref, base, s, m=m, d=d2, yy=yy)
    gap_cases()
    # timezone-aware reference times for the forms that take calendar fields from the reference (weekday alone, month
    # alone, day and month): the reference's OWN calendar day counts, whatever other zone the same instant could be
    # written in; these run on parsers built next to a parser for the same instant in another zone
    for _ in range(250 if ctx.quick() else 4000):
        by = rng.choice([2001, 2015, 2021, 2024, 2036])
        bm, bd = rng.randint(1, 12), rng.randint(4, 25)
        base = (by, bm, bd) + rng.choice([(0, 30, 0, 0), (2, 30, 0, 0), (21, 30, 0, 0), (23, 45, 0, 0), (12, 0, 0, 0)])
        off = rng.choice([0, 3600, -18000, 19800, 32400, -28800, 43200])
        pref = rng.choice(PREFS)
        r_ = rng.random()
        if r_ < 0.6:
            w = rng.randrange(7)
            add("weekday", pref, base, cap(WD[w] if rng.random() < 0.6 else WD[w][:3], rng), w=w)
        elif r_ < 0.8:
            m = rng.randint(1, 12)
            add("month", pref, base, cap(MON[m - 1], rng), m=m)
        else:
            m = rng.randint(1, 12)
            d = rng.choice([1, 15, 28])
            add("daymonth", pref, base, "%d %s" % (d, MON[m - 1]), m=m, d=d)
        cases[-1]["settings"]["RELATIVE_BASE"] = {"dt": list(base), "tz": off}
        cases[-1]["awarebase"] = True
        cases[-1]["boff"] = off
    # a clock time alone, reference timezone-aware and written in the zone that TIMEZONE names (zones with daylight saving
    # included, away from their transition days): nearest occurrence on the demanded side
    for _ in range(300 if ctx.quick() else 5000):
        zname = rng.choice(["Europe/Paris", "America/New_York", "Asia/Kolkata", "Australia/Sydney", "UTC", "Asia/Tokyo", "America/Sao_Paulo", "Europe/London"])
        by = rng.choice([2001, 2015, 2021, 2024, 2036])
        bm, bd = rng.choice([1, 2, 5, 6, 7, 8, 12]), rng.randint(4, 25)
        base = (by, bm, bd) + rng.choice([(0, 0, 0, 0), (6, 0, 0, 0), (12, 0, 0, 0), (23, 59, 59, 0), (rng.randint(0, 23), rng.randint(0, 59), 0, 0)])
        h, mi = rng.choice([(0, 0), (23, 59), (12, 0), (base[3], base[4]), (rng.randint(0, 23), rng.randint(0, 59)), (rng.randint(0, 23), rng.randint(0, 59))])
        pref = rng.choice(PREFS)
        s_ = rng.choice(["%02d:%02d" % (h, mi), "%d:%02d %s" % (h % 12 or 12, mi, "am" if h < 12 else "pm")])
        add("timeaw", pref, base, s_, t=(h, mi, 0, 0), zone=(zname, 0))
        cases[-1]["settings"]["RELATIVE_BASE"] = {"dt": list(base), "tz": zname}
    # a clock time that carries its own zone, under every TIMEZONE: the string's zone decides on which side of the
    # reference the candidate lies (zero-offset zones included), TIMEZONE only re-expresses the result
    SZ = [(" UTC", 0), (" GMT", 0), ("Z", 0), (" +00:00", 0), (" EST", -18000), (" +02:00", 7200), (" -03:30", -12600),
          (" +0530", 19800), (" -1000", -36000), (" UTC+9", 32400)]
    for _ in range(500 if ctx.quick() else 6000):
        by = rng.choice([2001, 2015, 2021, 2024, 2036])
        bm, bd = rng.randint(1, 12), rng.randint(4, 25)
        base = (by, bm, bd) + rng.choice([(0, 0, 0, 0), (6, 0, 0, 0), (12, 0, 0, 0), (23, 59, 59, 0), (rng.randint(0, 23), rng.randint(0, 59), 0, 0)])
        h, mi = rng.choice([(0, 0), (23, 59), (12, 0), (base[3], base[4]), (rng.randint(0, 23), rng.randint(0, 59)), (rng.randint(0, 23), rng.randint(0, 59))])
        sfx, soff = rng.choice(SZ)
        zone = rng.choice(ZONES)
        import pytz
        zone = (zone[0], int(pytz.timezone(zone[0]).utcoffset(datetime.datetime(by, bm, bd, 12)).total_seconds()))
        add("timez", rng.choice(PREFS), base, "%02d:%02d%s" % (h, mi, sfx), t=(h, mi, 0, 0), zone=zone)
        cases[-1]["soff"] = soff
    return cases


def describe(c):
    return {"call": "DateDataParser(languages=['en'], settings=%r).get_date_data(%r)" % (c["settings"], c["s"]), "form": c["form"]}


def run(ctx):
    if ctx.replay:
        cfg = MC_CFG % ("2021", "115, 831", "930")
    elif ctx.quick():
        cfg = MC_CFG % ("1970, 2000, 2021, 2024, 2067", ", ".join(map(str, BOUNDARY_DAYS)), "0, 1, 59, 100, 930, 1159, 1200, 2300, 2359")
    else:
        cfg = MC_CFG % (", ".join(map(str, [1970, 1971, 1972, 1999, 2000, 2001, 2019, 2020, 2021, 2022, 2023, 2024, 2038, 2066, 2067])),
                        ", ".join(map(str, ALL_DAYS)), ", ".join(str(h * 100 + m) for h in range(24) for m in (0, 1, 30, 59)))
    mc = ctx.tlc("P_C09", cfg, timeout=3000)
    mc.require_clean()
    for inv in mc.invariant_violated:
        ctx.violation({"tlc_counterexample": mc.counterexample()[-1:]}, "TLC refuted invariant %s of P_C09" % inv)
    cases = core.replay_cases(ctx) or make_cases(ctx)
    # a share of the cases runs on parsers that were all constructed before any of them was used (state shared behind
    # the constructor would surface as another case's result)
    results = core.run_cases_prebuilt(ctx, cases, lambda i: (i % 4 == 0 or cases[i].get("awarebase")) and not ctx.replay, size=5)
    # ---- no RELATIVE_BASE: the reference is the current instant (UTC).  Clock times some hours before / after now, every
    # preference, in worker processes whose local zone is far from UTC: the clock of the PROCESS is not the reference
    if not ctx.replay:
        nowu = datetime.datetime.utcnow()
        live = []
        for dh in (-13, -9, -7, -2, 2, 7, 9, 13):
            t_ = nowu + datetime.timedelta(hours=dh)
            minute = (nowu.minute + 30) % 60
            for pref in ("past", "future", "current_period"):
                live.append({"form": "time", "pref": pref, "base": [], "w": 0, "t": [t_.hour, minute, 0, 0], "m": 0, "d": 0, "yy": 0, "off": 0,
                             "s": "%d:%02d" % (t_.hour, minute), "kw": {"languages": ["en"]}, "settings": {"PREFER_DATES_FROM": pref, "TIMEZONE": "UTC"},
                             "api": "ddp", "probe": False, "live": True})
        for tzenv in ("Pacific/Kiritimati", "America/New_York", "UTC"):
            lr = core.run_cases(ctx, "harness.lib", "call_parse", live, nproc=2, env={"TZ": tzenv})
            for c, r in zip(live, lr):
                b = r["uclock0"]
                sod_now = b[3] * 3600 + b[4] * 60 + b[5]
                sod_t = c["t"][0] * 3600 + c["t"][1] * 60
                if min((sod_now - sod_t) % 86400, (sod_t - sod_now) % 86400) < 300 or r["uclock0"][:3] != r["uclock1"][:3]:
                    continue          # too close to the named time (or midnight passed during the call) to bracket
                cases.append(dict(c, base=b, process_tz=tzenv))
                results.append(r)
    records, nabs = [], 0
    for i, (c, r) in enumerate(zip(cases, results)):
        records.append({"kind": "c09", "tid": i, "form": c["form"], "pref": c["pref"], "base": c["base"], "w": c["w"],
                        "t": c["t"], "m": c["m"], "d": c["d"], "yy": c["yy"], "off": c["off"], "soff": c.get("soff", 0), "boff": c.get("boff", 0), "out": r["out"], "exc": r["exc"]})
        ar = absfam.abs_records(i, r)
        nabs += len(ar)
        records.extend(ar)
    tuples, _ = core.validate_traces(ctx, "T_C09", absfam.TRACE_CFG, records, tags=("REJECT", "SKIP", "KNOWN"))
    sp = sum(1 for t in tuples["SKIP"] if t[2] == "prop")
    sa = sum(1 for t in tuples["SKIP"] if t[2] == "abs")
    absfam.collect(ctx, tuples, cases, results, "AbsParser", describe)
    desc = {f["id"]: f["signature"]["text"] for f in core.load_findings("C09")[0]}
    cov = {
        "states": mc.distinct, "transitions": mc.generated,
        "traces_validated_against_impl": len(cases) - sp, "abs_events_validated": nabs - sa,
        "evaluations": len(cases),
        "distinct_nontrivial": len({(c["s"], repr(sorted(c["settings"].items()))) for c, r in zip(cases, results) if r["out"]}),
        "rule": "case = (form, string, reference datetime, preference, zone); non-trivial = distinct call returning a datetime",
        "exhaustive": False,
        "by_form": {k: sum(1 for c in cases if c["form"] == k) for k in ("weekday", "time", "month", "daymonth", "daymonthtime", "yy")},
        "samples": [dict(describe(c), observed=r["out"]) for c, r in list(zip(cases, results))[:: max(1, len(cases) // 6)]][:6],
    }
    return core.finish(ctx, LEVEL, cov, findings_desc=desc, assumptions=[
        "PREFER_DAY_OF_MONTH / PREFER_MONTH_OF_YEAR at their defaults",
        "time-only form in zones other than UTC: the direction clause alarms only if wrong under both readings of the naive reference (UTC / TIMEZONE)",
        "two-digit-year forms: reference years 1970..2067, Feb 29 excluded (a century shift onto a non-leap year makes the parser give up)"])
