"""C10 - strictness only filters; strict results never borrow from the clock.

E1: P_C10.tla - presence subsets x field shapes x REQUIRE_PARTS subsets x reference-time pairs through
    the machine; relational invariants.
E2/E3: generated partial dates (every presence subset, English + every language's own month/weekday
    names) and custom-format / timestamp inputs; each input is run five times by the worker and TLC
    (T_C10.tla) checks the relations between the real outcomes."""

import itertools

from .. import absfam, core

LEVEL = "model_checking"
B1 = [1970, 1, 1, 0, 0, 0, 0]
B2 = [2033, 12, 31, 23, 59, 0, 0]
B3 = [2024, 2, 29, 12, 0, 0, 0]
PARTS = ["day", "month", "year"]
RSETS = [list(c) for n in range(4) for c in itertools.combinations(PARTS, n)]
MON = ["january", "february", "march", "april", "may", "june", "july", "august", "september", "october",
       "november", "december"]
WDN = ["monday", "tuesday", "wednesday", "thursday", "friday", "saturday", "sunday"]

MC_CFG = """SPECIFICATION Spec
CONSTANT UseB3 = %s
INVARIANT Relations
INVARIANT StrictNeedsAllParts
CHECK_DEADLOCK FALSE
"""


def gen_string(ps, rng, month_names, weekday_names):
    """A partial date stating exactly the parts in ps, spelled unambiguously (month by name,
    four-digit year, day > 12)."""
    d = rng.choice([13, 15, 28, 29, 30, 31, 17])
    mi = rng.randrange(12)
    m = month_names[mi]
    y = rng.choice([2015, 1999, 2024, 1850, 2101, 1000])
    w = rng.choice(weekday_names)
    t = rng.choice(["10:30", "23:59:59", "00:00", "7:05"])
    order = rng.choice(["dmy", "mdy", "ymd"])
    seq = {"dmy": ["day", "month", "year"], "mdy": ["month", "day", "year"], "ymd": ["year", "month", "day"]}[order]
    toks = []
    if "weekday" in ps:
        toks.append(w)
    for p in seq:
        if p in ps:
            toks.append({"day": str(d), "month": m, "year": str(y)}[p])
    if "time" in ps:
        toks.append(t)
    return " ".join(toks)


def make_cases(ctx, vocab):
    rng = ctx.rng
    cases = []
    subsets = [set(c) for n in range(1, 6) for c in itertools.combinations(["day", "month", "year", "weekday", "time"], n)]
    reps = 3 if ctx.quick() else 12

    def add(s, kw, present, gen, parser, R, st=None, b2=None, y4=False):
        st = dict(st or {})
        # the quantifier: "with the absolute / custom-format / timestamp parsers" (a relative phrase
        # legitimately depends on the reference time; dsb lists 'now' as a month abbreviation)
        st.setdefault("PARSERS", ["timestamp", "custom-formats", "absolute-time"])
        cases.append({"s": s, "kw": kw, "settings": st, "b1": B1, "b2": b2 or rng.choice([B2, B3]), "R": R,
                      "present": sorted(present & set(PARTS)), "gen": gen, "parser": parser, "api": "ddp", "probe": True, "y4": bool(gen or y4),
                      "pdf": (st or {}).get("PREFER_DATES_FROM", "current_period")})

    # generated partial dates in English: every presence subset x every REQUIRE_PARTS subset
    for ps in subsets:
        for R in RSETS:
            for _ in range(reps):
                add(gen_string(ps, rng, [m.capitalize() for m in MON], [w.capitalize() for w in WDN]),
                    {"languages": ["en"]}, ps, True, "abs", R)
    # ... and in every language, with its own first-listed month / weekday names (relations only need
    # the five runs to agree; whether the language understands the word is C05's subject)
    langs = sorted(vocab)
    if ctx.quick():
        langs = rng.sample(langs, 60)
    for lang in langs:
        months, wds = vocab[lang]
        if not months or not wds:
            continue
        for ps in rng.sample(subsets, 6 if ctx.quick() else 20):
            add(gen_string(ps, rng, months, wds), {"languages": [lang]}, ps, False, "abs", rng.choice(RSETS))
    # ambiguous numeric forms (relations only)
    for s in ["11 0001", "5", "15", "03/2015", "12/11", "1/2/3", "30 02", "2015", "31", "10:30 15", "99", "02 29",
              "29 02", "0229", "12 31 99", "Feb 29", "29 February", "31 April 2015", "31 04", "Mar", "Tue 5"]:
        for R in RSETS:
            add(s, {"languages": ["en"]}, set(), False, "abs", R)
            add(s, {"languages": ["en"]}, set(), False, "abs", R, st={"DATE_ORDER": rng.choice(["DMY", "YMD", "YDM", "MYD"])})
    # every preference setting next to strictness ("turning strictness on never changes a result" is not limited to the
    # default preferences), with two-digit years, whose century the preference may move
    PREFS = [{"PREFER_DATES_FROM": "past"}, {"PREFER_DATES_FROM": "future"}, {"PREFER_DAY_OF_MONTH": "last"}, {"PREFER_DAY_OF_MONTH": "first", "PREFER_MONTH_OF_YEAR": "last"},
             {"PREFER_DATES_FROM": "past", "PREFER_DAY_OF_MONTH": "first"}, {"PREFER_DATES_FROM": "future", "PREFER_MONTH_OF_YEAR": "first"}, {"RETURN_TIME_AS_PERIOD": True},
             {"PREFER_DATES_FROM": "future", "DATE_ORDER": "YMD"}, {"PREFER_DATES_FROM": "past", "DATE_ORDER": "DMY"}]
    yy = ["10 March 35", "10 March 15", "12/05/65", "3 March 99", "14 June 68", "21.08.61", "March 35", "5 Mar 01", "01-02-03", "31/12/69", "1 Jan 00", "Tuesday 3 March 20"]
    for pf in PREFS:
        for s in yy + ["15 March 2015", "March 2015", "15 March", "2015", "Monday", "10:30", "March", "15"]:
            add(s, {"languages": ["en"]}, set(), False, "abs", rng.choice(RSETS), st=dict(pf))
        for ps in rng.sample(subsets, 4 if ctx.quick() else 31):
            # (with an explicit DATE_ORDER a lone number may be read as the year: which parts are stated is then unknown)
            add(gen_string(ps, rng, [m.capitalize() for m in MON], [w.capitalize() for w in WDN]), {"languages": ["en"]}, ps, "DATE_ORDER" not in pf, "abs",
                rng.choice(RSETS), st=dict(pf))
    # reference times that are timezone-AWARE (two different offsets), results observed as instants (TO_TIMEZONE,
    # RETURN_AS_TIMEZONE_AWARE): a fully stated date is the same for every reference time, also as an instant
    AW1 = {"dt": [2009, 3, 1, 12, 0, 0, 0], "tz": 19800}
    AW2 = {"dt": [2033, 12, 31, 23, 59, 0, 0], "tz": -28800}
    for outst in ({"TO_TIMEZONE": "UTC"}, {"RETURN_AS_TIMEZONE_AWARE": True}, {"TO_TIMEZONE": "Asia/Tokyo", "RETURN_AS_TIMEZONE_AWARE": True},
                  {"TIMEZONE": "Europe/Paris", "TO_TIMEZONE": "UTC"}, {}):
        for s in ["5 March 2015 10:00", "2015-03-05", "15 March 2015", "March 2015", "5 mars 2015 10:00", "2015-03-05 23:30", "15/03/2015"]:
            add(s, {"languages": ["fr" if "mars" in s else "en"]}, set(), False, "abs", rng.choice(RSETS), st=dict(outst), b2=AW2)
            cases[-1]["b1"] = AW1
    # strings with TWO date tokens only (a number and a year, a month name and a year ...): whatever the order in which
    # numbers are read, they cannot state day, month and year - strict parsing must refuse them
    for s_ in ["10 2014", "10/2014", "5 1999", "03/2015", "12 2015", "2014 10", "2014/3", "11 0001", "March 2014", "2014 March", "7 March", "10-2014"]:
        for o in ("MDY", "DMY", "YMD", "YDM", "MYD", "DYM"):
            add(s_, {"languages": ["en"]}, set(), False, "abs", ["day", "month", "year"], st={"DATE_ORDER": o})
            cases[-1]["maxparts"] = 2
            cases[-1]["dorder"] = o
    # fully stated dates (four-digit year, a day that can only be a day) in every order of WRITING, read under every
    # DATE_ORDER and through the order of a locale, with every PREFER_DATES_FROM: references far before and far after
    # the stated date (the preference moves only what the string leaves open)
    full = []
    for _ in range(12 if ctx.quick() else 80):
        d, m, y = rng.randint(13, 28), rng.randint(1, 12), rng.choice([1985, 2014, 2021, 2050, 1999])
        mn = rng.choice([MON[m - 1].capitalize(), MON[m - 1][:3].capitalize()])
        full += ["%d %s %d" % (d, mn, y), "%s %d %d" % (mn, d, y), "%s %d, %d" % (mn, d, y), "%d %s %d" % (y, mn, d),
                 "%d.%d.%d" % (d, m, y) if m > 9 else "%d %s, %d" % (d, mn, y), "%s %d-%d, %d" % (mn, d, d + 1, y)]
    for s_ in full:
        for o in rng.sample(["MDY", "DMY", "YMD", "YDM", "MYD", "DYM"], 2 if ctx.quick() else 6):
            pdf = rng.choice(["past", "future", "current_period"])
            add(s_, {"languages": ["en"]}, set(), False, "abs", rng.choice(RSETS[1:]), st={"DATE_ORDER": o, "PREFER_DATES_FROM": pdf},
                b2=rng.choice([B2, [2120, 5, 17, 0, 0, 0, 0], [1900, 1, 1, 0, 0, 0, 0]]), y4=True)
    for loc, s_ in [("hu", "15 március 2014"), ("hu", "2014 március 15"), ("ja", "2014年3月15日"), ("zh", "2014年3月15日"), ("ko", "2014년 3월 15일"),
                    ("lt", "2014 kovo 15"), ("mn", "2014 3 15"), ("sv", "15 mars 2014"), ("en-CA", "15 March 2014"), ("en-ZA", "March 15 2014")]:
        for pdf in ("past", "future", "current_period"):
            add(s_, {"locales" if "-" in loc else "languages": [loc]}, set(), False, "abs", rng.choice(RSETS[1:]), st={"PREFER_DATES_FROM": pdf},
                b2=rng.choice([B2, [2120, 5, 17, 0, 0, 0, 0]]), y4=True)
    # custom-format and timestamp parsers: the relational clauses
    for s, fmt in [("March 2015", "%B %Y"), ("2015", "%Y"), ("15 March", "%d %B"), ("15/03/2015", "%d/%m/%Y"),
                   ("10:30", "%H:%M"), ("March", "%B"), ("15", "%d")]:
        for R in RSETS[:4]:
            add(s, {"languages": ["en"], "date_formats": [fmt]}, set(), False, "fmt", R)
    # the no-spaces parser (dates written as one run of digits): relational clauses + refinement against NoSpaces.tla
    compact = ["20150305", "2015035", "150305", "05032015", "0305", "1030", "10:30", "201503051030", "20150305103015", "2015:03:05", "1", "12", "123",
               "1234", "12345", "0000", "99999999", "00000000", "311299", "991231", "19991231", "31121999", "12311999", "20151305", "1503", "0229",
               "20160229", "29022015", "0015", "00150305", "2015030510", "1015 2015", "3", "60", "2460", "10:61", "121212", "010203", "2015-03"]
    compact += ["".join(rng.choice("0123456789") for _ in range(rng.randint(1, 14))) for _ in range(60 if ctx.quick() else 1500)]
    compact += ["%04d%02d%02d" % (rng.randint(1, 9999), rng.randint(1, 12), rng.randint(1, 28)) for _ in range(30 if ctx.quick() else 400)]
    for s in compact:
        for R in ([rng.choice(RSETS), []] if ctx.quick() else RSETS):
            st = {"PARSERS": ["no-spaces-time"]}
            if rng.random() < 0.6:
                st["DATE_ORDER"] = rng.choice(["DMY", "DYM", "MDY", "MYD", "YDM", "YMD"])
            add(s, {"languages": ["en"]}, set(), False, "nsp", R, st=st)
    for s in ["1500000000", "1500000000123", "1500000000123456", "0999999999"]:
        for R in RSETS[:4]:
            add(s, {"languages": ["en"]}, set(), False, "ts", R, st={"TIMEZONE": "UTC"})
    return cases


def describe(c):
    return {"string": c["s"], "kw": c["kw"], "settings": c["settings"], "b1": c["b1"], "b2": c["b2"], "REQUIRE_PARTS": c["R"],
            "runs": "outN=(strict off,b1) outS=(STRICT_PARSING,b1) outS2=(STRICT_PARSING,b2) outR=(REQUIRE_PARTS,b1) outR2=(REQUIRE_PARTS,b2) outSR=(both,b1) outSR2=(both,b2)"}


def export_names(_req=None):
    import importlib
    from dateparser.data import language_order
    out = {}
    for lang in language_order:
        info = importlib.import_module("dateparser.data.date_translation_data." + lang).info
        out[lang] = [[(info.get(m) or [""])[0] for m in MON], [(info.get(w) or [""])[0] for w in WDN]]
        if not all(out[lang][0]) or not all(out[lang][1]):
            out[lang] = [[], []]
    return out


def run(ctx):
    mc = ctx.tlc("P_C10", MC_CFG % ("FALSE" if ctx.quick() or ctx.replay else "TRUE"), timeout=3000)
    mc.require_clean()
    for inv in mc.invariant_violated:
        ctx.violation({"tlc_counterexample": mc.counterexample()[-1:]}, "TLC refuted invariant %s of P_C10" % inv)
    vocab = core.run_cases(ctx, "harness.props.c10", "export_names", [{}], nproc=1)[0]
    cases = core.replay_cases(ctx) or make_cases(ctx, vocab)
    results = core.run_cases(ctx, "harness.lib", "call_c10", cases, chunk=50)
    records, nabs = [], 0
    for i, (c, r) in enumerate(zip(cases, results)):
        rec = {"kind": "c10", "tid": i, "R": c["R"], "present": c["present"], "gen": c["gen"], "pdf": c["pdf"], "maxparts": c.get("maxparts", 3), "y4": bool(c.get("y4")), "conv": bool((c.get("settings") or {}).get("TO_TIMEZONE")),
               "dorder": c.get("dorder", "")}
        rec.update(r["runs"])
        if c["parser"] == "fmt" and r["clock0"][:3] != r["clock1"][:3]:
            rec["pdf"] = "skip"
        records.append(rec)
        ar = absfam.abs_records(i, r) + absfam.nsp_records(i, r)
        nabs += len(ar)
        records.extend(ar)
    tuples, _ = core.validate_traces(ctx, "T_C10", absfam.TRACE_CFG, records, tags=("REJECT", "SKIP", "KNOWN"))
    sp = sum(1 for t in tuples["SKIP"] if t[2] == "prop")
    sa = sum(1 for t in tuples["SKIP"] if t[2] == "abs")
    for r in results:
        r["period"] = ""
    absfam.collect(ctx, tuples, cases, [dict(r, out=r["runs"]) for r in results], "AbsParser", describe)
    cov = {
        "states": mc.distinct, "transitions": mc.generated,
        "traces_validated_against_impl": len(cases) - sp, "abs_events_validated": nabs - sa,
        "evaluations": 5 * len(cases),
        "distinct_nontrivial": len({(c["s"], repr(c["kw"]), repr(c["R"]), repr(c["settings"])) for c, r in zip(cases, results) if r["runs"]["outN"]}),
        "rule": "case = (string, language, REQUIRE_PARTS subset, reference-time pair), five runs each; non-trivial = distinct case whose non-strict run returns a datetime",
        "strict_results": sum(1 for r in results if r["runs"]["outS"]),
        "require_results": sum(1 for r in results if r["runs"]["outR"]),
        "languages": len({repr(c["kw"].get("languages")) for c in cases}),
        "exhaustive": False,
        "samples": [dict(describe(c), outcomes=r["runs"]) for c, r in list(zip(cases, results))[:: max(1, len(cases) // 5)]][:5],
    }
    return core.finish(ctx, LEVEL, cov, findings_desc={f["id"]: f["signature"].get("text", "") for f in core.load_findings("C10")[0]}, assumptions=[
        "PREFER_DATES_FROM at its default (current_period): under past/future a stated two-digit year is pivoted by the reference time",
        "'states all parts' is demanded only of generated, unambiguously spelled inputs (month by name, 4-digit year, day > 12) through the absolute parser; custom-format and timestamp parsers: relational clauses only (DESIGN 4 C10)"])
