"""C11 - a timezone written in the string yields exactly that offset.

Exhaustive over the loaded table (exported from the tree under test): every supported UTC offset in 8
spellings and both signs, every abbreviation in upper and lower case, several bodies and positions,
English selected and autodetected.  TLC (T_C11.tla / Timezone.tla) decides (i) FirstMatchIsOwn on the
ordered table from the exported match relation and (ii) every real call: offset, wall clock, pickling."""

import collections

from .. import core

LEVEL = "exploration"
NAIVE = 100000
BODIES = [("2015-03-05 10:11:12", [2015, 3, 5, 10, 11, 12, 0]), ("March 5, 2015 10:11", [2015, 3, 5, 10, 11, 0, 0]),
          ("5 March 2015 23:59:59", [2015, 3, 5, 23, 59, 59, 0])]


def spellings(off):
    sign = "+" if off >= 0 else "-"
    a = abs(off)
    hh, mm = a // 3600, (a % 3600) // 60
    H = str(hh)
    out = ["%s%02d%02d" % (sign, hh, mm), "%s%02d:%02d" % (sign, hh, mm), "UTC%s%02d:%02d" % (sign, hh, mm),
           "UTC%s%02d%02d" % (sign, hh, mm), "GMT%s%02d:%02d" % (sign, hh, mm), "GMT%s%02d%02d" % (sign, hh, mm),
           "UTC%s%s%s" % (sign, H, "" if mm == 0 else ":%02d" % mm), "GMT%s%s%s" % (sign, H, "" if mm == 0 else ":%02d" % mm)]
    if off == 0:
        out += [x.replace("+", "-") for x in out]
    return out


def run(ctx):
    rng = ctx.rng
    tz = core.run_cases(ctx, "harness.export", "export_tz", [{}], nproc=1)[0]
    rows = tz["rows"]
    byname = collections.OrderedDict()
    for i, (name, pat, flags, off) in enumerate(rows):
        byname.setdefault(name, set()).add(off)
    offsets = sorted({off for (name, pat, flags, off) in rows if name.startswith("UTC")})
    abbrs = [(n, next(iter(o))) for n, o in byname.items() if not n.startswith("UTC") and len(o) == 1]
    ambiguous = [n for n, o in byname.items() if len(o) > 1]
    findings, _ = core.load_findings("C11")
    known_names = {f["signature"]["abbreviation"]: f["id"] for f in findings}
    cases = []

    def add(kind, s, wall, expoff, langs, name, extra=None):
        c = {"kind": kind, "s": s, "wall": wall, "expoff": expoff, "kw": {"languages": langs} if langs else {}, "name": name,
             "settings": {"RELATIVE_BASE": [2021, 6, 15, 12, 0, 0, 0]}, "api": "parse", "probe": False, "pk": True}
        cases.append(c)

    for off in offsets:
        for sp in spellings(off):
            bodies = BODIES
            for body, wall in bodies:
                for langs in (["en"], None):
                    add("c11", body + " " + sp, wall, off, langs, sp)
            add("c11", BODIES[0][0] + sp, BODIES[0][1], off, ["en"], sp) if sp[0] in "+-" else None
        # the JavaScript Date.toString() shape: "... GMT+0100 (CET)"
        sign = "+" if off >= 0 else "-"
        a = abs(off)
        js = "GMT%s%02d%02d" % (sign, a // 3600, (a % 3600) // 60)
        for ab in ("CET", "EST", rng.choice(abbrs)[0]):
            add("c11", "Thu Mar 05 2015 10:11:12 %s (%s)" % (js, ab), [2015, 3, 5, 10, 11, 12, 0], off, ["en"], js + " (..)")
            add("c11", "Thu Mar 05 2015 10:11:12 %s (%s)" % (js.replace("GMT", "UTC"), ab), [2015, 3, 5, 10, 11, 12, 0], off, None, js + " (..)")
    for name, off in abbrs:
        for variant in (name, name.lower() if name.lower() != name else name.upper()):
            bodies = BODIES if not ctx.quick() else [BODIES[rng.randrange(3)], BODIES[rng.randrange(3)]]
            for body, wall in bodies:
                for langs in (["en"], None):
                    add("c11", body + " " + variant, wall, off, langs, name)
            add("c11", "%s (%s)" % (BODIES[0][0], variant), BODIES[0][1], off, ["en"], name)
            add("c11", "%s%s" % (BODIES[0][0], variant), BODIES[0][1], off, ["en"], name)      # attached to the last digit
            add("c11", "Thu Mar 05 10:11:12 %s 2015" % variant, BODIES[0][1], off, ["en"], name)  # the Unix date(1) shape
    # ---- bodies with every English month name (a name may contain letters that look like a zone: "Sept" holds "EPT"),
    # and earlier calls of the same process: the zone is found by FIRST match in the ordered table whatever was parsed
    # before - a bare "UTC" / "GMT" / abbreviation first, then the numeric spelling with the same letters
    MONTHS = ["January", "February", "March", "April", "May", "June", "July", "August", "September", "October", "November", "December",
              "Jan", "Feb", "Mar", "Apr", "Jun", "Jul", "Aug", "Sep", "Sept", "Oct", "Nov", "Dec"]
    MNUM = {m: (i % 12) + 1 for i, m in enumerate(MONTHS[:12])}
    MNUM.update({"Jan": 1, "Feb": 2, "Mar": 3, "Apr": 4, "Jun": 6, "Jul": 7, "Aug": 8, "Sep": 9, "Sept": 9, "Oct": 10, "Nov": 11, "Dec": 12})
    st0 = {"RELATIVE_BASE": [2021, 6, 15, 12, 0, 0, 0]}
    for m in MONTHS:
        body, wall = "15 %s 2020 10:30" % m, [2020, MNUM[m], 15, 10, 30, 0, 0]
        offs = offsets if not ctx.quick() else rng.sample(offsets, 6) + [0, 10800, -18000]
        for off in offs:
            sps = spellings(off)
            for sp in (sps if not ctx.quick() else rng.sample(sps, 3)):
                add("c11", body + " " + sp, wall, off, ["en"], sp)
                if sp[:3] in ("UTC", "GMT"):
                    add("c11", body + " " + sp, wall, off, rng.choice([["en"], None]), sp)
                    cases[-1]["pre"] = [{"s": body + " " + sp[:3], "kw": {"languages": ["en"]}, "settings": st0}]
        for name, aoff in (abbrs if not ctx.quick() else rng.sample(abbrs, 12)):
            add("c11", "%s %s" % (body, name), wall, aoff, ["en"], name)
            # the JavaScript shape after the abbreviation alone was parsed: the NUMERIC part decides (a supported offset)
            off = rng.choice(offsets)
            sign = "+" if off >= 0 else "-"
            num = "%s%02d%02d" % (sign, abs(off) // 3600, (abs(off) % 3600) // 60)
            pfx = rng.choice(["GMT", "UTC"])
            add("c11", "%s %s%s (%s)" % (body, pfx, num, name), wall, off, ["en"], "%s%s (..)" % (pfx, num))
            cases[-1]["pre"] = [{"s": "%s %s" % (body, name), "kw": {"languages": ["en"]}, "settings": st0}]
        add("naive", body, wall, NAIVE, ["en"], "")
    # ---- a clock time alone with a zone, under every PREFER_DATES_FROM and reference times on both sides of it: the date
    # is the preference's business (C09), the offset and the written time of day are this property's
    for off in (offsets if not ctx.quick() else rng.sample(offsets, 8) + [-18000, 19800]):
        sps = [sp for sp in spellings(off)]
        for sp in (sps if not ctx.quick() else rng.sample(sps, 2)):
            for hh, mi_ in ((3, 30), (16, 0), (23, 59), (0, 5)):
                for pdf in ("past", "future", "current_period"):
                    body = rng.choice(["%d:%02d" % (hh, mi_), "%02d:%02d:00" % (hh, mi_), "%d:%02d %s" % (hh % 12 or 12, mi_, "am" if hh < 12 else "pm")])
                    add("c11", body + " " + sp, [2021, 6, 15, hh, mi_, 0, 0], off, ["en"], sp)
                    cases[-1]["timeonly"] = True
                    cases[-1]["settings"] = {"RELATIVE_BASE": [2021, 6, 15, rng.choice([0, 6, 12, 18, 23]), 30, 0, 0], "PREFER_DATES_FROM": pdf}
    for name, off in (abbrs if not ctx.quick() else rng.sample(abbrs, 25)):
        hh, mi_ = rng.choice([(3, 30), (16, 0), (23, 59), (0, 5), (12, 0)])
        for pdf in ("past", "future"):
            add("c11", "%d:%02d %s" % (hh, mi_, name), [2021, 6, 15, hh, mi_, 0, 0], off, ["en"], name)
            cases[-1]["timeonly"] = True
            cases[-1]["settings"] = {"RELATIVE_BASE": [2021, 6, 15, rng.choice([0, 12, 23]), 30, 0, 0], "PREFER_DATES_FROM": pdf}
    for body, wall in BODIES:
        for langs in (["en"], None):
            add("naive", body, wall, NAIVE, langs, "")
    # ---- English selected, but not as the first language tried (languages in the caller's order): every locale gets
    # the string with its zone removed to look at, not only the first
    FIRST = ["ja", "zh", "ar", "he", "ko", "th", "ru", "el", "fr", "de"]
    for name, off in (abbrs if not ctx.quick() else rng.sample(abbrs, 40)):
        body, wall = BODIES[rng.randrange(1, 3)]
        add("c11", "%s %s" % (body, name), wall, off, [rng.choice(FIRST[:8]), "en"], name)
        cases[-1]["kw"]["use_given_order"] = True
        cases[-1]["api"] = "ddp"
    for off in (offsets if not ctx.quick() else rng.sample(offsets, 10)):
        for sp in rng.sample(spellings(off), 2):
            body, wall = BODIES[rng.randrange(1, 3)]      # (month by name: the first language's own order reads no digits)
            add("c11", "%s %s" % (body, sp), wall, off, rng.sample(FIRST, 2) + ["en"], sp)
            cases[-1]["kw"]["use_given_order"] = True
            cases[-1]["api"] = "ddp"
    # ---- date-time bodies in other languages, language autodetected, with numeric spellings and the abbreviations of
    # the regions where those languages are written
    FOREIGN = [("5 mars 2014 14:30:15", ["CET", "CEST", "WET"]), ("5 марта 2014 14:30:15", ["MSK", "YEKT"]),
               ("5 de marzo de 2014 14:30:15", ["EST", "ART", "CET"]), ("5 März 2014 14:30:15", ["MEZ", "CET"]),
               ("5 marzo 2014 14:30:15", ["CET", "PKT"]), ("5 Mart 2014 14:30:15", ["EET"])]
    aoff = dict(abbrs)
    for body, names in FOREIGN:
        for name in names:
            if name in aoff:
                for v in (name, name.lower()):
                    add("c11", "%s %s" % (body, v), [2014, 3, 5, 14, 30, 15, 0], aoff[name], None, name)
        for off in rng.sample(offsets, 4 if ctx.quick() else len(offsets)):
            add("c11", "%s %s" % (body, rng.choice(spellings(off))), [2014, 3, 5, 14, 30, 15, 0], off, None, "numeric")
    strings = sorted({c["s"] for c in cases if c["kind"] == "c11"})
    rel = core.run_cases(ctx, "harness.lib", "tz_matches", [{"strings": strings[i::core.NCPU]} for i in range(core.NCPU)])
    matches = {}
    for i in range(core.NCPU):
        for s, m in zip(strings[i::core.NCPU], rel[i]):
            matches[s] = m
    results = core.run_cases(ctx, "harness.lib", "call_parse", cases)
    records = []
    for i, (c, r) in enumerate(zip(cases, results)):
        records.append({"kind": c["kind"], "tid": i, "expoff": c["expoff"], "wall": c["wall"], "out": r["out"],
                        "off": NAIVE if r["off"] == "naive" else r["off"], "pk": bool(r.get("pk", True)), "exc": r["exc"], "moffs": [], "timeonly": bool(c.get("timeonly"))})
    seen = set()
    shadow_index = {}
    for i, c in enumerate(cases):
        if c["kind"] == "c11" and c["s"] not in seen:
            seen.add(c["s"])
            tid = len(cases) + len(shadow_index)
            shadow_index[tid] = i
            records.append({"kind": "shadow", "tid": tid, "expoff": c["expoff"], "moffs": [rows[j][3] for j in matches[c["s"]]],
                            "wall": [], "out": [], "off": 0, "pk": True, "exc": "", "timeonly": False})
    tuples, gen = core.validate_traces(ctx, "T_C11", "SPECIFICATION TSpec\nPOSTCONDITION Consumed\nCHECK_DEADLOCK FALSE\n", records)
    for t in tuples["REJECT"]:
        _, tid, kind, verdict, exp = t[:5]
        if tid in shadow_index:
            c = cases[shadow_index[tid]]
            r = {"out": None, "off": None, "exc": ""}
            what = "table analysis (%s)" % verdict
        else:
            c, r = cases[tid], results[tid]
            what = verdict
        fid = known_names.get(c["name"])
        if fid and verdict in ("not-parsed", "naive-result"):
            ctx.known(fid)
            continue
        ctx.violation({"call": "%s(%r%s)" % ("dateparser.parse" if c["api"] == "parse" else "DateDataParser(..).get_date_data", c["s"], "".join(", %s=%r" % kv for kv in sorted(c["kw"].items()))),
                       "settings": c["settings"], "earlier_calls_of_the_process": c.get("pre") or [], "table_entry": c["name"]}, what,
                      expected={"utcoffset_seconds": c["expoff"], "wall": c["wall"]}, observed={"out": r["out"], "off": r["off"], "exc": r["exc"]},
                      extra={"full_case": c})
    desc = {f["id"]: f["signature"].get("text", "") for f in findings}
    cov = {
        "evaluations": len(cases), "distinct_nontrivial": len({c["s"] + repr(c["kw"]) for c, r in zip(cases, results) if r["out"] and r["off"] != "naive"}),
        "rule": "case = (date-time body, zone spelling, position, language selected/autodetected); non-trivial = distinct call returning an aware datetime",
        "exhaustive": True,
        "table_rows": len(rows), "offsets": len(offsets), "abbreviations": len(abbrs), "excluded_ambiguous_names": ambiguous,
        "states": gen, "transitions": gen, "traces_validated_against_impl": len(cases), "shadow_records": len(shadow_index),
        "samples": [{"call": c["s"], "languages": c["kw"].get("languages"), "expected_offset": c["expoff"], "observed": [r["out"], r["off"]]}
                    for c, r in list(zip(cases, results))[:: max(1, len(cases) // 6)]][:6],
    }
    return core.finish(ctx, LEVEL, cov, findings_desc=desc, assumptions=[
        "the loaded table is its own oracle for the offsets (C16 ties it to the sources)",
        "names listed with several offsets (LMT) are outside the domain",
        "the match relation between compiled patterns and spellings is exported from the regex engine (trusted projection)"])
