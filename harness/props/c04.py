"""C04 - relative expressions are exact calendar arithmetic on the base.

E1: P_C04.tla - machine with relativedelta semantics = oracle with single-clamp arithmetic over bases x
    counts x units x directions (+2/3-unit sums, decimals), period truthful, out-of-range -> None.
E2/E3: English phrases through the real API with RELATIVE_BASE, and the implicit-now form with
    TIMEZONE/TO_TIMEZONE pairs (bracket oracle); TLC (T_C04.tla) judges outcomes against the oracle and
    against the machine."""

import calendar
import datetime

from .. import core, neighbours

LEVEL = "model_checking"
UNITS = ["decade", "year", "month", "week", "day", "hour", "minute", "second"]
SPELL = {
    "decade": [("decade", "decades")], "year": [("year", "years"), ("yr", "yr")], "month": [("month", "months"), ("mo", "mo")],
    "week": [("week", "weeks"), ("wk", "wk")], "day": [("day", "days")], "hour": [("hour", "hours"), ("hr", "hr")],
    "minute": [("minute", "minutes"), ("min", "min")], "second": [("second", "seconds"), ("sec", "sec")],
}
FIXED = [("now", {}, "ago", ["second"]), ("today", {}, "ago", ["day"]), ("yesterday", {"day": 1}, "ago", ["day"]),
         ("tomorrow", {"day": 1}, "in", ["day"]), ("last week", {"week": 1}, "ago", ["week"]),
         ("next week", {"week": 1}, "in", ["week"]), ("last month", {"month": 1}, "ago", ["month"]),
         ("next month", {"month": 1}, "in", ["month"]), ("last year", {"year": 1}, "ago", ["year"]),
         ("next year", {"year": 1}, "in", ["year"])]
PDF = ["past", "future", "current_period"]
NODST = [("UTC", 0), ("Asia/Kolkata", 19800), ("Asia/Tokyo", 32400), ("America/Phoenix", -25200),
         ("Pacific/Kiritimati", 50400), ("Asia/Kathmandu", 20700), ("Africa/Nairobi", 10800), ("Pacific/Pago_Pago", -39600)]

MC_CFG = """SPECIFICATION Spec
CONSTANTS
  Years = {%s}
  Counts = {%s}
  Combos = {%s}
INVARIANT ExactArithmetic
CHECK_DEADLOCK FALSE
"""


def word(u, n, rng):
    sing, plur = rng.choice(SPELL[u])
    return sing if n == 1 else plur


def kw0():
    return {"decade": 0, "year": 0, "month": 0, "week": 0, "day": 0, "hour": [0, 1], "minute": [0, 1], "second": [0, 1]}


def kw_day1():
    k = kw0()
    k["day"] = 1
    return k


def setkw(kw, u, num, den=1):
    if u in ("hour", "minute", "second"):
        kw[u] = [num, den]
    else:
        kw[u] = num


def numstr(num, den):
    if den == 1:
        return str(num)
    q = num / den
    s = ("%.2f" % q).rstrip("0")
    return s


def make_cases(ctx):
    rng = ctx.rng
    cases = []
    years = [1800, 1899, 1900, 1999, 2000, 2020, 2023, 2024, 2100, 2199, 2200] + ([] if ctx.quick() else list(range(1800, 2201, 7)))
    counts = [0, 1, 2, 3, 11, 12, 13, 24, 28, 29, 30, 31, 52, 99, 100, 365, 366, 1000, 4999, 5000]

    def bases(y, n):
        out = []
        for m in range(1, 13):
            dim = calendar.monthrange(y, m)[1]
            for d in {1, 15, dim}:
                out.append((y, m, d))
        out = rng.sample(out, min(len(out), n))
        if calendar.isleap(y):
            out.append((y, 2, 29))
        return out

    def tod():
        return rng.choice([(0, 0, 0, 0), (10, 30, 17, 0), (23, 59, 59, 999999), (12, 0, 0, 500000)])

    def add(kind, s, b, kw, dir_, pdf, tov, counted, terms, zone="UTC", rtap=False, extra=None):
        st = {"PREFER_DATES_FROM": pdf, "TIMEZONE": zone}
        if b is not None:
            st["RELATIVE_BASE"] = list(b)
        if rtap:
            st["RETURN_TIME_AS_PERIOD"] = True
        c = {"kind": kind, "s": s, "b": list(b) if b else [], "kw": kw, "dir": dir_, "pdf": pdf, "tov": tov or [],
             "counted": counted, "terms": terms, "rtap": rtap, "api_kw": {"languages": ["en"]}, "settings": st}
        if extra:
            c.update(extra)
        cases.append(c)

    for y in years:
        for (by, bm, bd) in bases(y, 6 if ctx.quick() else 14):
            b = (by, bm, bd) + tod()
            # single unit, every unit, several counts, both directions (+ bare form with each preference)
            for u in UNITS:
                for n in (rng.sample(counts, 7) if ctx.quick() else rng.sample(counts, 8) + [rng.randint(0, 5000)]):
                    dir_ = rng.choice(["ago", "in", "none"])
                    pdf = rng.choice(PDF)
                    w = word(u, n, rng)
                    s = {"ago": "%d %s ago" % (n, w), "in": "in %d %s" % (n, w), "none": "%d %s" % (n, w)}[dir_]
                    kw = kw0()
                    setkw(kw, u, n)
                    add("c04", s, b, kw, dir_, pdf, None, [u], [{"u": u, "num": n, "den": 1}], zone=rng.choice(["UTC", "UTC", "local", "Asia/Kolkata"]))
            # decimals for sub-day units
            for u in ("hour", "minute", "second"):
                num, den = rng.choice([(3, 2), (1, 2), (9, 4), (5, 2), (25, 10), (10001, 2), (1, 4)])
                dir_ = rng.choice(["ago", "in"])
                w = word(u, 2, rng)
                s = "%s %s ago" % (numstr(num, den), w) if dir_ == "ago" else "in %s %s" % (numstr(num, den), w)
                kw = kw0()
                setkw(kw, u, num, den)
                add("c04", s, b, kw, dir_, rng.choice(PDF), None, [u], [{"u": u, "num": num, "den": den}])
            # two and three units in one phrase
            for _ in range(3 if ctx.quick() else 10):
                k = rng.choice([2, 2, 3])
                us = sorted(rng.sample(range(8), k))
                ns = [rng.choice([0, 1, 2, 5, 11, 12, 13, 30, 100]) for _ in us]
                dir_ = rng.choice(["ago", "in"])
                parts = ["%d %s" % (n, word(UNITS[i], n, rng)) for i, n in zip(us, ns)]
                if dir_ == "ago":
                    s = rng.choice([", ".join(parts), " and ".join(parts), " ".join(parts)]) + " ago"
                else:
                    s = "in " + rng.choice([" ".join(parts), " and ".join(parts)])
                kw = kw0()
                for i, n in zip(us, ns):
                    setkw(kw, UNITS[i], n)
                add("c04", s, b, kw, dir_, rng.choice(PDF), None, [UNITS[i] for i in us], [{"u": UNITS[i], "num": n, "den": 1} for i, n in zip(us, ns)])
            # a month / year step TOGETHER WITH a clock step that carries the reference over midnight (month ends, leap days):
            # the calendar step is taken on the reference, the clock step afterwards - whichever comes first in the phrase
            for _ in range(2 if ctx.quick() else 8):
                cal, clk = rng.choice(["month", "year", "decade"]), rng.choice(["hour", "hour", "minute"])
                n1 = rng.choice([1, 1, 2, 11, 12])
                n2 = rng.choice([1, 2, 11, 13, 25, 1000]) if clk == "hour" else rng.choice([1, 31, 61, 1441])
                us_ = [cal, clk] if rng.random() < 0.7 else [clk, cal]
                ns_ = [n1 if u == cal else n2 for u in us_]
                dir_ = rng.choice(["ago", "in"])
                parts = ["%d %s" % (n, word(u, n, rng)) for u, n in zip(us_, ns_)]
                s = (rng.choice([", ".join(parts), " and ".join(parts), " ".join(parts)]) + " ago") if dir_ == "ago" else "in " + rng.choice([" ".join(parts), " and ".join(parts)])
                kw = kw0()
                for u, n in zip(us_, ns_):
                    setkw(kw, u, n)
                add("c04", s, b, kw, dir_, rng.choice(PDF), None, list(us_), [{"u": u, "num": n, "den": 1} for u, n in zip(us_, ns_)])
            # several units with DECIMAL counts on the sub-day ones (decimal point), in either order of writing: the units add up
            for _ in range(2 if ctx.quick() else 6):
                us = rng.sample(["hour", "minute", "second", "day", "week"], rng.choice([2, 2, 3]))
                if rng.random() < 0.6:
                    us.sort(key=UNITS.index)           # larger unit first, as people write it
                qs = [rng.choice([(3, 2), (1, 2), (9, 4), (5, 2), (1, 4), (15, 10), (1, 1), (20, 1), (10, 1)]) if u in ("hour", "minute", "second") else (rng.choice([1, 2, 3]), 1)
                      for u in us]
                dir_ = rng.choice(["ago", "in"])
                parts = ["%s %s" % (numstr(n_, d_), word(u, 2, rng)) for u, (n_, d_) in zip(us, qs)]
                s = (rng.choice([" ".join(parts), ", ".join(parts), " and ".join(parts)]) + " ago") if dir_ == "ago" else "in " + rng.choice([" ".join(parts), " and ".join(parts)])
                kw = kw0()
                for u, (n_, d_) in zip(us, qs):
                    setkw(kw, u, n_, d_)
                add("c04", s, b, kw, dir_, rng.choice(PDF), None, list(us), [{"u": u, "num": n_, "den": d_} for u, (n_, d_) in zip(us, qs)])
            # fixed words, with and without a clock time
            for (wd, delta, dir_, counted) in FIXED:
                kw = kw0()
                for u, n in delta.items():
                    setkw(kw, u, n)
                terms = [{"u": counted[0], "num": list(delta.values())[0] if delta else 0, "den": 1}]
                if rng.random() < 0.5:
                    add("c04", wd, b, kw, dir_, rng.choice(PDF), None, counted, terms)
                elif counted[0] not in ("second",):
                    h, mi = rng.choice([(0, 0), (14, 5), (23, 59), (9, 30)])
                    rtap = rng.random() < 0.5
                    s = rng.choice(["%s at %02d:%02d", "%s %d:%02d"]) % (wd, h, mi)
                    add("c04", s, b, kw, dir_, rng.choice(PDF), [h, mi, 0, 0], counted, terms, rtap=rtap)
            # counted phrase with a clock time
            n = rng.choice([1, 2, 7])
            u = rng.choice(["day", "week", "month", "year"])
            h, mi = rng.choice([(0, 0), (14, 5), (23, 59), (9, 30)])
            kw = kw0()
            setkw(kw, u, n)
            rtap = rng.random() < 0.5
            add("c04", "%d %s ago at %02d:%02d" % (n, word(u, n, rng), h, mi), b, kw, "ago", rng.choice(PDF), [h, mi, 0, 0], [u],
                [{"u": u, "num": n, "den": 1}], rtap=rtap)
            sec_ = rng.randint(0, 59)
            us_ = rng.choice([500000, 250000, 999999, 1000, 120000])
            fr_ = ("%06d" % us_).rstrip("0")
            add("c04", rng.choice(["%d %s ago at %02d:%02d:%02d.%s", "%d %s ago %02d:%02d:%02d.%s"]) % (n, word(u, n, rng), h, mi, sec_, fr_), b, dict(kw), "ago",
                rng.choice(PDF), [h, mi, sec_, us_], [u], [{"u": u, "num": n, "den": 1}], rtap=not rtap)
            add("c04", "yesterday at %d:%02d:%02d.%s" % (h, mi, sec_, fr_), b, kw_day1(), "ago", rng.choice(PDF), [h, mi, sec_, us_], ["day"],
                [{"u": "day", "num": 1, "den": 1}])
            # several units AND a clock time in one phrase ("1 year, 2 months ago at 2pm"): the families above vary them
            # one at a time
            for _ in range(2 if ctx.quick() else 6):
                k = rng.choice([2, 2, 3])
                us = sorted(rng.sample(range(8), k))
                ns = [rng.choice([1, 2, 5, 11, 13, 30]) for _ in us]
                dir_ = rng.choice(["ago", "in"])
                parts = ["%d %s" % (n_, word(UNITS[i], n_, rng)) for i, n_ in zip(us, ns)]
                h, mi = rng.choice([(0, 0), (14, 5), (23, 59), (9, 30), (2, 0)])
                clock = rng.choice(["at %02d:%02d" % (h, mi), "%d:%02d" % (h, mi), "at %d:%02d %s" % (h % 12 or 12, mi, "am" if h < 12 else "pm")])
                sec_, us_ = 0, 0
                if rng.random() < 0.4:          # seconds and fractions of a second are part of "an explicit clock time"
                    sec_ = rng.randint(0, 59)
                    digits = rng.choice([0, 1, 3, 6])
                    us_ = 0 if digits == 0 else rng.randint(1, 10 ** digits - 1) * 10 ** (6 - digits)
                    frac = "" if digits == 0 else ".%0*d" % (digits, us_ // 10 ** (6 - digits))
                    clock = rng.choice(["at %02d:%02d:%02d%s" % (h, mi, sec_, frac), "%d:%02d:%02d%s %s" % (h % 12 or 12, mi, sec_, frac, "am" if h < 12 else "pm")])
                if dir_ == "ago":
                    s = rng.choice([", ".join(parts), " and ".join(parts), " ".join(parts)]) + " ago " + clock
                else:
                    s = "in " + rng.choice([" ".join(parts), " and ".join(parts)]) + " " + clock
                kw = kw0()
                for i, n_ in zip(us, ns):
                    setkw(kw, UNITS[i], n_)
                add("c04", s, b, kw, dir_, rng.choice(PDF), [h, mi, sec_, us_], [UNITS[i] for i in us],
                    [{"u": UNITS[i], "num": n_, "den": 1} for i, n_ in zip(us, ns)], rtap=rng.random() < 0.4)
    # the ends of the representable range: results landing exactly in year 1 / year 9999, and one step beyond (None)
    for by in (1809, 1999, 2019, 2199, 1800, 2200, 2000):
        b = (by, rng.choice([1, 6, 12]), rng.choice([1, 15, 28])) + tod()
        edge = []
        if by % 10 == 9:
            n = (9999 - by) // 10
            edge += [("in %d decades" % n, {"decade": n}, "in", ["decade"]), ("in %d decades" % (n + 1), {"decade": n + 1}, "in", ["decade"]),
                     ("in %d decades 9 years" % (n - 1), {"decade": n - 1, "year": 9}, "in", ["decade", "year"]),
                     ("in %d decades and 10 years" % (n - 1), {"decade": n - 1, "year": 10}, "in", ["decade", "year"]),
                     ("in %d decades 8 years 12 months" % (n - 1), {"decade": n - 1, "year": 8, "month": 12}, "in", ["decade", "year", "month"])]
        edge += [("%d years ago" % (by - 1), {"year": by - 1}, "ago", ["year"]), ("%d years ago" % by, {"year": by}, "ago", ["year"]),
                 ("%d months ago" % ((by - 1) * 12), {"month": 0}, "ago", ["month"])]
        for s_, delta, dir_, counted in edge:
            if delta.get("month", 1) == 0:
                continue        # counts above 5000 are outside the stated range
            kw = kw0()
            for u, n_ in delta.items():
                setkw(kw, u, n_)
            add("c04", s_, b, kw, dir_, rng.choice(PDF), None, counted, [{"u": u, "num": n_, "den": 1} for u, n_ in delta.items()])
    # implicit now: TIMEZONE / TO_TIMEZONE pairs over zones without DST (offset independent of the instant)
    for (z, zo) in NODST:
        for (z2, zo2) in ([(None, None)] + (NODST if not ctx.quick() else rng.sample(NODST, 3))):
            for _ in range(2):
                u = rng.choice(UNITS[1:])     # results stay within 2013..2040, where these zones have one offset
                n = rng.choice([0, 1, 2, 13, 100]) if u != "year" else rng.choice([0, 1, 2, 13])
                dir_ = rng.choice(["ago", "in"])
                w = word(u, n, rng)
                s = "%d %s ago" % (n, w) if dir_ == "ago" else "in %d %s" % (n, w)
                kw = kw0()
                setkw(kw, u, n)
                extra = {"zoff": zo, "tooff": zo if z2 is None else zo2}
                c_len = len(cases)
                add("c04now", s, None, kw, dir_, "current_period", None, [u], [{"u": u, "num": n, "den": 1}], zone=z, extra=extra)
                if z2 is not None:
                    cases[c_len]["settings"]["TO_TIMEZONE"] = z2
                # "the current instant" on days where month arithmetic has to clamp (the library's clock is moved there)
                if rng.random() < 0.5:
                    cases[c_len]["fake_today"] = rng.choice([[2024, 3, 31], [2023, 12, 31], [2024, 2, 29], [2021, 1, 31], [2022, 5, 31], [2023, 8, 31], [2025, 1, 1]])
    for c in cases:
        c["api"] = "ddp"
        c["probe"] = False
        c["kwargs"] = c.pop("api_kw")
    return cases


def to_call(c):
    out = {"s": c["s"], "kw": c["kwargs"], "settings": c["settings"], "api": "ddp", "probe": False}
    if c.get("pre"):
        out["pre"] = c["pre"]
    if c.get("fake_today"):
        out["fake_today"] = c["fake_today"]
    return out


def describe(c):
    return {"call": "DateDataParser(languages=['en'], settings=%r).get_date_data(%r)" % (c["settings"], c["s"]), "kind": c["kind"],
            "earlier_calls_of_the_process": neighbours.describe_pre(c)}


def run(ctx):
    if ctx.replay:
        cfg = MC_CFG % ("2024", "1, 12", "101")
    elif ctx.quick():
        cfg = MC_CFG % ("1, 1800, 2000, 2023, 2024, 9999", "0, 1, 2, 11, 12, 13, 24, 99, 100, 365, 1000, 4999, 5000", "101, 102, 1213, 3001, 512, 0")
    else:
        cfg = MC_CFG % (", ".join(map(str, [1, 2, 9998, 9999] + list(range(1800, 2201, 10)) + [2023, 2024])),
                        ", ".join(map(str, sorted(set(list(range(0, 60)) + [99, 100, 365, 366, 1000, 1200, 4999, 5000])))),
                        "101, 102, 1213, 3001, 512, 0, 1111, 2959, 100, 1")
    mc = ctx.tlc("P_C04", cfg, timeout=3300)
    mc.require_clean()
    for inv in mc.invariant_violated:
        ctx.violation({"tlc_counterexample": mc.counterexample()[-1:]}, "TLC refuted invariant %s of P_C04" % inv)
    cases = core.replay_cases(ctx) or make_cases(ctx)
    calls = [to_call(c) for c in cases]
    if not ctx.replay:
        # a share of the cases runs after a history of neighbouring calls with (mostly) equal settings: phrases that
        # carry their own zone, other relative phrases, failing strings
        sel = [calls[i] for i in range(len(calls)) if i % 3 and cases[i]["kind"] == "c04"]
        neighbours.attach(ctx.rng, sel, 0.15, weights={"zone": 6, "relative": 3})
        for c, k in zip(cases, calls):
            if k.get("pre"):
                c["pre"] = k["pre"]
    import json as _json

    def other_settings(i):      # batch members differ in RELATIVE_BASE (and the phrase) only, where possible
        st = dict(calls[i]["settings"] or {})
        st.pop("RELATIVE_BASE", None)
        return _json.dumps(st, sort_keys=True, default=str)
    # a third of the explicit-base cases run on parsers that were all built before any of them was used: "for every
    # reference datetime b" must hold for a parser object however many other parsers with other bases exist
    results = core.run_cases_prebuilt(ctx, calls, lambda i: cases[i]["kind"] == "c04" and i % 3 == 0 and not ctx.replay, size=5, key=other_settings)
    records = []
    for i, (c, r) in enumerate(zip(cases, results)):
        rec = {"kind": c["kind"], "tid": i, "kw": c["kw"], "dir": c["dir"], "pdf": c["pdf"], "tov": c["tov"], "counted": c["counted"],
               "terms": c["terms"], "rtap": c["rtap"], "b": c["b"], "out": r["out"], "period": r["period"], "exc": r["exc"]}
        if c["kind"] == "c04now":
            rec.update(c0=r["uclock0"], c1=r["uclock1"], zoff=c["zoff"], tooff=c["tooff"])
        records.append(rec)
    tuples, _ = core.validate_traces(ctx, "T_C04", "SPECIFICATION TSpec\nPOSTCONDITION Consumed\nCHECK_DEADLOCK FALSE\n", records, tags=("REJECT", "SKIP"))
    sp = sum(1 for t in tuples["SKIP"] if t[2] == "prop")
    for t in tuples["REJECT"]:
        _, tid, kind, verdict, expected = t[:5]
        c, r = cases[tid], results[tid]
        if kind == "abs":
            ctx.note_drift("Freshness", {"case": describe(c), "observed": r["out"], "period": r["period"]})
        else:
            ctx.violation(describe(c), "prop: %s" % verdict, expected=expected, observed={"out": r["out"], "period": r["period"], "exc": r["exc"]},
                          extra={"full_case": c})
    # the month-clamping arithmetic of this property is also what date_range / get_intersecting_periods are made of:
    # Periods.tla is bound here (no listed property speaks about those helpers; mismatches are reported as model drift)
    from .. import periodcheck
    periods = periodcheck.run(ctx) if not ctx.replay else {}
    cov = {
        "periods_helpers": periods,
        "states": mc.distinct, "transitions": mc.generated,
        "traces_validated_against_impl": len(cases) - sp,
        "evaluations": len(cases),
        "distinct_nontrivial": len({(c["s"], repr(sorted(c["settings"].items()))) for c, r in zip(cases, results) if r["out"]}),
        "rule": "case = (English phrase, reference datetime or implicit now, PREFER_DATES_FROM, zone); non-trivial = distinct call returning a datetime",
        "exhaustive": False,
        "by_kind": {k: sum(1 for c in cases if c["kind"] == k) for k in ("c04", "c04now")},
        "none_results": sum(1 for r in results if not r["out"] and not r["exc"]),
        "samples": [dict(describe(c), observed=r["out"], period=r["period"]) for c, r in list(zip(cases, results))[:: max(1, len(cases) // 6)]][:6],
    }
    return core.finish(ctx, LEVEL, cov, assumptions=[
        "counts: integers 0..5000 for every unit, decimals (den 2, 4, 10) for hour/minute/second only",
        "implicit-now form: zones without DST (offset independent of the instant); bracket oracle between the UTC clock read before and after the call"])
