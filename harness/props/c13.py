"""C13 - language selection is honoured; autodetection is reproducible.

E1: P_C13.tla - every assignment of (applicable, parses, result) to <= 4 requested and <= 2 default
    languages: the locale loop of Pipeline.tla returns the first successful language's result, reports a
    selected locale, and default languages never override.
E2/E3: strings in every language x sampled language lists (containing the string's language or not,
    shuffled, given order on/off) x DEFAULT_LANGUAGES; single-language outcomes, multi-language outcome,
    autodetection + re-parse, region vs locale; TLC (T_C13.tla) judges every record."""

from .. import core

LEVEL = "model_checking"
BASE = [2021, 6, 15, 12, 0, 0, 0]
MKEYS = ["january", "february", "march", "april", "may", "june", "july", "august", "september", "october", "november", "december"]
WKEYS = ["monday", "tuesday", "wednesday", "thursday", "friday", "saturday", "sunday"]


def export_words(_req=None):
    import importlib
    from dateparser.data import language_locale_dict, language_order
    out = {"order": list(language_order), "langs": {}}
    for lang in language_order:
        info = importlib.import_module("dateparser.data.date_translation_data." + lang).info
        rel = info.get("relative-type", {})
        out["langs"][lang] = {"months": [(info.get(k) or [""])[0] for k in MKEYS], "weekdays": [(info.get(k) or [""])[0] for k in WKEYS],
                              "rel": [(rel.get(k) or [""])[0] for k in ("1 day ago", "in 1 day", "0 day ago")],
                              "skip": [str(x) for x in (info.get("skip") or [])][:12], "pertain": [str(x) for x in (info.get("pertain") or [])][:6],
                              "locales": list(language_locale_dict.get(lang, []))}
    return out


def run(ctx):
    rng = ctx.rng
    mc = ctx.tlc("P_C13", "SPECIFICATION Spec\nINVARIANT ReportedLocaleSelected\nINVARIANT FirstSuccessfulWins\nINVARIANT DefaultsNeverOverride\nCHECK_DEADLOCK FALSE\n", timeout=900)
    mc.require_clean()
    for inv in mc.invariant_violated:
        ctx.violation({"tlc_counterexample": mc.counterexample()[-1:]}, "TLC refuted invariant %s of P_C13" % inv)
    W = core.run_cases(ctx, "harness.props.c13", "export_words", [{}], nproc=1)[0]
    order = W["order"]
    pos = {L: i for i, L in enumerate(order)}
    cases = core.replay_cases(ctx)
    if not cases:
        cases = []
        reps = 1 if ctx.quick() else 6
        for L0 in order:
            w = W["langs"][L0]
            strings = ["01/02/2015", "13.11.2015 10:30"]
            mi = rng.randrange(12)
            if w["months"][mi]:
                strings.append("%d %s %d" % (rng.randint(1, 28), w["months"][mi], rng.choice([2015, 1999, 2024])))
            wi = rng.randrange(7)
            if w["weekdays"][wi]:
                strings.append(w["weekdays"][wi])
            strings += [x for x in w["rel"] if x][:2 if ctx.quick() else 3]
            for s in strings:
                for _ in range(reps):
                    n_other = rng.randint(0, 3)
                    langs = rng.sample(order, n_other)
                    if rng.random() < 0.7 and L0 not in langs:
                        langs.append(L0)
                    if not langs:
                        langs = [L0]
                    rng.shuffle(langs)
                    given = rng.random() < 0.5
                    tried = list(langs) if given else sorted(langs, key=lambda x: pos[x])
                    defaults = rng.sample(order, rng.randint(1, 2))
                    region = None
                    if w["locales"] and rng.random() < 0.5:
                        loc = rng.choice(w["locales"])
                        if loc.startswith(L0 + "-"):
                            region = [L0, loc[len(L0) + 1:]]
                    via = "languages" if rng.random() < 0.6 else "locales"
                    cases.append({"s": s, "langs": langs, "given": given, "order": tried, "defaults": defaults, "region": region, "via": via,
                                  "settings": {"RELATIVE_BASE": BASE}, "lang0": L0})
        # every language paired with reference languages of each date order, both list orders: the
        # priority order decides which reading of an ambiguous numeric date wins
        for L0 in order:
            for ref in ("en", "fr", "ja", "tl"):      # MDY, DMY, YMD and a language without an order of its own
                if ref == L0:
                    continue
                for langs in ([L0, ref], [ref, L0]):
                    given = rng.random() < 0.5
                    via = rng.choice(["languages", "locales"])
                    names = list(langs)
                    if via == "locales":        # plain codes are locales too; sometimes a regional locale of the language
                        names = [rng.choice(W["langs"][x]["locales"]) if W["langs"][x]["locales"] and rng.random() < 0.5 else x for x in langs]
                    lang_of = dict(zip(names, langs))
                    tried = list(names) if given else sorted(names, key=lambda x: pos[lang_of[x]])
                    cases.append({"s": rng.choice(["01/02/2015", "03-04-2011", "05.06.2019 10:30", "12/31/2012", "31/12/2012", "2012/31/12", "12/31/2012 10:30"]), "langs": names, "given": given, "order": tried, "via": via,
                                  "defaults": [rng.choice(order)], "region": None, "settings": {"RELATIVE_BASE": BASE}, "lang0": L0})
        # the fallback itself: the selected languages do not know the word, two DEFAULT_LANGUAGES both do (a month name
        # that several languages share: 'mars', 'april', 'sept' ...), in both list orders, with and without use_given_order:
        # the first default language IN THE ORDER IN FORCE that parses the string decides (its locale is reported)
        byword = {}
        for L in order:
            for mi, wd_ in enumerate(W["langs"][L]["months"]):
                if wd_:
                    byword.setdefault(wd_.lower(), []).append((L, mi))
        shared = [(wd_, ls) for wd_, ls in sorted(byword.items()) if len({l for l, _ in ls}) >= 2]
        for wd_, ls in (shared if not ctx.quick() else rng.sample(shared, min(len(shared), 60))):
            knows = sorted({l for l, _ in ls})
            a, b = rng.sample(knows, 2)
            strangers = [x for x in order if x not in knows and wd_ not in [m.lower() for m in W["langs"][x]["months"] if m]]
            sel = rng.sample(strangers, rng.randint(1, 2))
            for dfl in ([a, b], [b, a]):
                for given in (True, False):
                    cases.append({"s": "%d %s %d" % (rng.randint(13, 28), wd_, rng.choice([2015, 1999])), "langs": list(sel), "given": given,
                                  "order": list(sel) if given else sorted(sel, key=lambda x: pos[x]), "defaults": list(dfl), "region": None, "via": "languages",
                                  "settings": {"RELATIVE_BASE": BASE}, "lang0": a})
    for c in cases:       # the order in which the fallback languages are to be tried
        c["deforder"] = list(c["defaults"]) if c["given"] else sorted(c["defaults"], key=lambda x: pos[x])
    results = core.run_cases(ctx, "harness.lib", "call_c13", cases, chunk=20)
    # ---- conventions of regional locales, with other locales of the same language loaded BEFORE in the same (fresh)
    # process: a regional locale first, then the bare language, then the locale under test
    conv, conv_res = [], []
    if not ctx.replay:
        LX = core.run_cases(ctx, "harness.export", "export_locales", [{}], nproc=1)[0]["langs"]
        word = {L: next((m for m in W["langs"][L]["months"] if m), "") for L in order}
        for L in order:
            locs = LX[L]["locales"]
            differing = [loc for loc, o in sorted(locs.items()) if o != LX[L]["date_order"]]
            if not differing or len(locs) < 2:
                continue
            for r2 in (differing if not ctx.quick() else rng.sample(differing, min(2, len(differing)))):
                r1 = rng.choice([x for x in sorted(locs) if x != r2])
                y, m, d = rng.choice([(2020, 1, 2), (2015, 3, 4), (1999, 11, 12)])
                o = locs[r2] or "MDY"
                fld = {"Y": [4, y], "M": [2, m], "D": [2, d]}
                f = [fld[ch] for ch in o]
                sep = rng.choice(["/", "-", "."])
                s_ = sep.join(("%04d" if ln == 4 else "%02d") % v for ln, v in f)
                pre = [{"s": "1 %s 2020" % word[L], "kw": {"locales": [r1]}, "settings": {"RELATIVE_BASE": BASE}},
                       {"s": "1 %s 2020" % word[L], "kw": {"languages": [L]}, "settings": {"RELATIVE_BASE": BASE}}]
                lang_, reg_ = r2.rsplit("-", 1)
                for kw in ({"locales": [r2]}, {"languages": [lang_], "region": reg_}):
                    for pre_ in (pre, [], pre[1:]):
                        conv.append({"s": s_, "kw": kw, "settings": {"RELATIVE_BASE": BASE}, "api": "ddp", "probe": False, "pre": pre_,
                                     "f": f, "sep": sep, "locorder": locs[r2], "loc": r2})
        conv_res = core.run_fresh(ctx, "harness.lib", "call_parse", conv)
    # ---- try_previous_locales=True: what one parser remembers belongs to that parser
    tpl, tpl_res = [], []
    if not ctx.replay:
        pool = [L for L in order if W["langs"][L]["months"][0]]
        for _ in range(150 if ctx.quick() else 3000):
            A, B = rng.sample(pool, 2)
            sa = ["1 %s 2020" % W["langs"][A]["months"][0], "01/02/2020", "5 %s" % W["langs"][A]["months"][2]]
            via = rng.choice(["languages", "locales"])
            tpl.append({"a": {"kw": {"languages": [A]}, "s": sa}, "b": {"kw": {via: [B]}, "s": rng.choice(["01/02/2020", "03-04-2011", "10.11.12", "1 %s 2020" % W["langs"][B]["months"][0]])},
                        "settings": {"RELATIVE_BASE": BASE}, "selected": [B]})
        tpl_res = core.run_cases(ctx, "harness.lib", "call_c13_tpl", tpl, chunk=10)
    # ---- the locale's conventions reach EVERY parser that reads a date order (the opt-in no-spaces parser included):
    # the result under a selected locale equals the result under the same locale with its order stated explicitly
    rel, rel_res = [], []
    if not ctx.replay:
        ALLP = ["timestamp", "relative-time", "custom-formats", "absolute-time", "no-spaces-time"]
        targets = []
        for L in order:
            targets.append(({"languages": [L]}, LX[L]["date_order"] or "MDY"))
            for loc, o in sorted(LX[L]["locales"].items()):
                targets.append(({"locales": [loc]}, o or "MDY"))
                if rng.random() < 0.3 and "-" in loc and len(loc.split("-")) == 2:
                    targets.append(({"languages": [L], "region": loc.split("-")[1]}, o or "MDY"))
        if ctx.quick():
            targets = rng.sample(targets, 90) + [({"locales": ["en-GB"]}, "DMY"), ({"languages": ["ja"]}, "YMD"), ({"locales": ["fr-CA"]}, "YMD")]
        for kw, o in targets:
            for s_ in rng.sample(["010220", "110320", "01022020", "20200102", "130220", "01/02/20", "11-03-20", "3.4.05", "010203", "311299"], 3):
                for extra in ({"DATE_ORDER": o}, None):
                    st = {"PARSERS": ALLP, "RELATIVE_BASE": BASE}
                    st.update(extra or {})
                    rel.append({"s": s_, "kw": kw, "settings": st, "api": "ddp", "probe": False, "order": o})
        rel_res = core.run_cases(ctx, "harness.lib", "call_parse", rel)
    records = []
    for j in range(0, len(rel), 2):
        records.append({"kind": "convrel", "tid": 3 * 10 ** 6 + j, "stated": [rel_res[j]["out"], rel_res[j]["period"], rel_res[j]["exc"]],
                        "out": [rel_res[j + 1]["out"], rel_res[j + 1]["period"], rel_res[j + 1]["exc"]]})
    for j, (c, r) in enumerate(zip(tpl, tpl_res)):
        records.append({"kind": "tpl", "tid": 2 * 10 ** 6 + j, "selected": c["selected"], "out": r["out"], "single": r["single"], "exc": r["exc"]})
    for j, (c, r) in enumerate(zip(conv, conv_res)):
        records.append({"kind": "conv", "tid": 10 ** 6 + j, "f": c["f"], "sep": c["sep"], "locorder": c["locorder"], "out": r["out"], "exc": r["exc"]})
    for i, (c, r) in enumerate(zip(cases, results)):
        records.append({"kind": "main", "tid": i, "order": c["order"], "defaults": c["defaults"], "singles": r["singles"], "multi": r["multi"], "multidef": r["multidef"], "defsingles": r.get("defsingles", []), "held": bool(r.get("held", True)),
                        "auto": r["auto"], "reparse": r["reparse"], "region": r["region"], "asLocale": r["asLocale"], "exc": r["exc"], "tries": r["tries"], "bound": bool(r["probe_bound"])})
    tuples, gen = core.validate_traces(ctx, "T_C13", "SPECIFICATION TSpec\nPOSTCONDITION Consumed\nCHECK_DEADLOCK FALSE\n", records)
    for t in tuples["REJECT"]:
        _, tid, kind, verdict, exp = t[:5]
        if tid >= 3 * 10 ** 6:
            c, r = rel[tid - 3 * 10 ** 6 + 1], rel_res[tid - 3 * 10 ** 6 + 1]
            ctx.violation({"call": "DateDataParser(%s, settings=%r).get_date_data(%r)" % (", ".join("%s=%r" % kv for kv in c["kw"].items()), c["settings"], c["s"]),
                           "date_order_of_that_locale": c["order"]}, verdict, expected=exp, observed={"out": r["out"], "period": r["period"], "exc": r["exc"]})
            continue
        if tid >= 2 * 10 ** 6:
            c, r = tpl[tid - 2 * 10 ** 6], tpl_res[tid - 2 * 10 ** 6]
            ctx.violation({"history": "pa = DateDataParser(languages=%r, try_previous_locales=True); pa.get_date_data(..) x%d; DateDataParser(%s, try_previous_locales=True).get_date_data(%r)" % (
                c["a"]["kw"]["languages"], len(c["a"]["s"]), ", ".join("%s=%r" % kv for kv in c["b"]["kw"].items()), c["b"]["s"])}, verdict, expected=exp, observed=r["out"])
            continue
        if tid >= 10 ** 6:
            c, r = conv[tid - 10 ** 6], conv_res[tid - 10 ** 6]
            ctx.violation({"fresh_process_history": [[p_["s"], p_["kw"]] for p_ in c["pre"]], "then": "DateDataParser(%s).get_date_data(%r)" % (
                ", ".join("%s=%r" % kv for kv in c["kw"].items()), c["s"]), "locale": c["loc"], "its_date_order": c["locorder"]}, verdict, expected=exp,
                observed={"out": r["out"], "locale": r["locale"], "exc": r["exc"]})
            continue
        c, r = cases[tid], results[tid]
        if kind == "abs":
            ctx.note_drift("Pipeline", {"string": c["s"], c.get("via", "languages"): c["langs"], "use_given_order": c["given"], "specified_order": c["order"],
                                        "locales_tried": r["tries"]})
            continue
        ctx.violation({"string": c["s"], c.get("via", "languages"): c["langs"], "use_given_order": c["given"], "order_tried": c["order"], "DEFAULT_LANGUAGES": c["defaults"],
                       "region": c["region"], "settings": c["settings"]}, verdict, expected=exp,
                      observed={k: r[k] for k in ("singles", "multi", "multidef", "auto", "reparse", "region", "asLocale", "exc")}, extra={"full_case": c})
    # the mechanism behind "only they are used": a locale is tried only if its vocabulary tokenizes the whole string.
    # Tokenize.tla / Translate.tla are bound to that code here (model laws, exhaustive small domain, real languages).
    from .. import tokcheck
    tok = tokcheck.run(ctx, W) if not ctx.replay else {}
    from .. import loadercheck
    ldr = loadercheck.run(ctx, LX, W) if not ctx.replay else {}
    cov = {
        "tokenize": tok, "regional_convention_cases_in_fresh_processes": len(conv), "locale_order_reaches_every_parser_pairs": len(rel) // 2, "try_previous_locales_pairs": len(tpl), "loader": ldr,
        "states": mc.distinct, "transitions": mc.generated, "traces_validated_against_impl": len(cases),
        "evaluations": sum(len(c["order"]) + 6 for c in cases),
        "distinct_nontrivial": len({(c["s"], tuple(c["langs"]), c["given"]) for c, r in zip(cases, results) if r["multi"]["res"] or r["auto"]["res"]}),
        "rule": "case = (string, language list in given order, use_given_order, DEFAULT_LANGUAGES, region); non-trivial = distinct case where the multi-language or the autodetected run returns a datetime",
        "exhaustive": False, "languages_as_source_of_strings": len({c["lang0"] for c in cases}),
        "autodetected_hits": sum(1 for r in results if r["auto"]["res"]), "region_cases": sum(1 for c in cases if c["region"]),
        "samples": [{"string": c["s"], "languages": c["langs"], "given": c["given"], "multi": r["multi"], "auto": r["auto"]["loc"]} for c, r in list(zip(cases, results))[:: max(1, len(cases) // 6)]][:6],
    }
    return core.finish(ctx, LEVEL, cov, assumptions=[
        "the purity assumption behind the composition law (a language's outcome does not depend on the other languages in the list) is what C03 checks",
        "the library's priority order is the exported language_order"])
