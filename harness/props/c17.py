"""C17 - search_dates is total and its hits are well-formed, in-text, in order.

E1: P_C17.tla - the chunking loop of translate_search (Search.tla) over every abstract token sequence up
    to a bound x locale classes: the lookahead never indexes beyond the sentence; the pinned loop is run
    too and must be refuted.
Exploration: texts <= 300 chars assembled from date strings of the language, filler prose, punctuation,
    spacing and line-break mutations, a dictionary word at the very end of a sentence; every one of the
    205 languages explicitly and autodetection, with and without RELATIVE_BASE / add_detected_language.
    TLC (T_C17.tla) judges every recorded call."""

from .. import core
from ..c02gen import FOREIGN, REAL, SEPS, WORDS_EN, gen_string

LEVEL = "exploration"
CFG = "SPECIFICATION Spec\nCONSTANTS\n  GuardLookahead = %s\n  MaxLen = %d\nINVARIANT IndexInRange\nCHECK_DEADLOCK FALSE\n"
CONNECT = ["\u0441", "\u043f\u043e", "\u0434\u043e", "\u043e\u0442", "\u0438", "\u0432", "to", "from", "until", "a", "de", "\u00e0", "al", "del", "y", "e", "i", "u", "o", "bis", "von",
           "-", "\u2013", "\u2014", "~", "/", "\u81f3", "\u304b\u3089", "\u307e\u3067", "\u0625\u0644\u0649", "\u0645\u0646", "\u0938\u0947", "&", "+"]
FILLER = ["the meeting was moved", "lorem ipsum dolor", "we arrived", "and then", "see you", "report", "deadline", "—", "...", "(draft)",
          "it was", "before", "after", "between", "until", "version 2.0", "room 101", "call 555-1234", "price 12.50", "№ 7", "ok"]


def run(ctx):
    rng = ctx.rng
    mc = ctx.tlc("P_C17", CFG % ("TRUE", 3 if ctx.quick() else 4), timeout=3000, name="P_C17_repaired")
    mc.require_clean()
    pinned = ctx.tlc("P_C17", CFG % ("FALSE", 2), timeout=600, name="P_C17_pinned")
    if mc.invariant_violated:
        ctx.violation({"tlc_counterexample": mc.counterexample()[-1:]}, "TLC refutes IndexInRange on the chunking loop")
    if not pinned.invariant_violated:
        raise core.Machinery("the pinned chunking loop is not refuted")
    # the splitting of unparsed chunks and the choice among candidate splits (SearchSplit.tla): its laws
    ss = ctx.tlc("P_SearchSplit", "SPECIFICATION Spec\nCONSTANTS\n  MaxN = %d\n  MaxPieces = %d\nINVARIANT Lossless\nINVARIANT PaddedGrouperRefuted\nINVARIANT CandidateCount\nINVARIANT GroupSizes\n"
                 "INVARIANT RelativeBaseLaw\nINVARIANT BestExists\nINVARIANT BestUnbeaten\nINVARIANT FullyParsedWins\nINVARIANT EmptyCandidateWins\nCHECK_DEADLOCK FALSE\n" % ((40, 2) if ctx.quick() else (200, 3)),
                 timeout=3000, name="P_SearchSplit")
    ss.require_clean()
    for inv in ss.invariant_violated:
        ctx.violation({"tlc_counterexample": ss.counterexample()[-1:]}, "TLC refuted law %s of SearchSplit.tla" % inv)
    al = ctx.tlc("P_Align", "SPECIFICATION Spec\nCONSTANTS\n  MaxLen = %d\n  Words = %d\nINVARIANT NeverFails\nINVARIANT EqualLength\nINVARIANT NothingLost\n"
                 "INVARIANT AgreeingPrefix\nCHECK_DEADLOCK FALSE\n" % ((4, 2) if ctx.quick() else (5, 3)), timeout=3000, name="P_Align")
    al.require_clean()
    for inv in al.invariant_violated:
        ctx.violation({"tlc_counterexample": al.counterexample()[-1:]}, "TLC refuted law %s of Align.tla" % inv)
    W = core.run_cases(ctx, "harness.props.c13", "export_words", [{}], nproc=1)[0]
    order = W["order"]
    cases = core.replay_cases(ctx)
    if not cases:
        cases = []

        def pieces(L):
            w = W["langs"][L]
            out = []
            ms = [m for m in w["months"] if m]
            wd = [x for x in w["weekdays"] if x]
            rel = [x for x in w["rel"] if x]
            if ms:
                out += ["%d %s %d" % (rng.randint(1, 28), rng.choice(ms), rng.choice([2015, 1999, 2024])), "%s %d" % (rng.choice(ms), rng.randint(1, 28)),
                        rng.choice(ms)]
            out += wd[:2] + rel
            out += ["2015-03-05", "10:30", "03/05/2015 10:30 PM", "12.11.2015."]
            return out

        def text_for(L):
            ps = pieces(L)
            parts = []
            for _ in range(rng.randint(1, 5)):
                r = rng.random()
                if r < 0.2:       # two date pieces joined by a connective word ("from 5 May to 7 May", "\u0441 12 \u044f\u043d\u0432\u0430\u0440\u044f \u043f\u043e 30 \u0430\u043f\u0440\u0435\u043b\u044f")
                    nums = [x for x in ps if x[:1].isdigit()] or ps
                    parts.append("%s %s %s" % (rng.choice(ps), rng.choice(CONNECT), rng.choice(nums)))
                    if rng.random() < 0.5:
                        parts[-1] = rng.choice(CONNECT) + " " + parts[-1]
                elif r < 0.55:
                    parts.append(rng.choice(ps))
                elif r < 0.85:
                    parts.append(rng.choice(FILLER))
                else:
                    parts.append(gen_string(rng, 30))
                parts.append(rng.choice([" ", " ", ", ", ". ", "\n", ";", " - ", "! ", "? ", "。", "  ", "\t", ":", " (", ") "]))
            if rng.random() < 0.5:       # a date word at the very end of the text / sentence
                parts.append(rng.choice(ps))
            else:
                parts[-1] = rng.choice(["", ".", "!", "\n"])
            return "".join(parts)[:300]

        INVISIBLE = ["\u200e", "\u200f", "\u202a", "\u202b", "\u202c", "\u202d", "\u202e", "\u2066", "\u2067", "\u2068", "\u2069", "\u200b", "\u200c", "\u200d",
                     "\u00ad", "\ufeff", "\u00a0", "\u2009", "\u202f", "\u2060", "\u034f", "\u061c"]

        def sprinkle(t):
            """invisible characters (directional marks, joiners, odd spaces) INSIDE the text, next to the spaces of date pieces"""
            out = []
            for ch in t:
                if ch == " " and rng.random() < 0.3:
                    out.append(rng.choice([rng.choice(INVISIBLE) + " ", " " + rng.choice(INVISIBLE), rng.choice(INVISIBLE)]))
                else:
                    out.append(ch)
            return "".join(out)[:300]
        _plain_text_for = text_for

        def text_for(L):      # noqa: F811
            t = _plain_text_for(L)
            return sprinkle(t) if rng.random() < 0.2 else t

        per_lang = 30 if ctx.quick() else 400
        for L in order:
            ps = pieces(L)
            for k in range(per_lang):
                t = text_for(L) if k >= len(ps) else ps[k]          # each bare piece once: a text that IS a single date word
                st = None if rng.random() < 0.6 else {"RELATIVE_BASE": [2021, 6, 15, 12, 0, 0, 0]}
                cases.append({"text": t, "languages": [L], "settings": st, "withlang": rng.random() < 0.5})
        import unicodedata

        def script(w):
            for ch in w:
                if ch.isalpha():
                    return unicodedata.name(ch, "?").split(" ")[0]
            return ""
        for L in order:       # every connective of the language's script between / before date pieces that start with a number
            ps = pieces(L)
            sc = script(next((m for m in W["langs"][L]["months"] if m), ""))
            nums = [x for x in ps if x[:1].isdigit()]
            for cn in CONNECT + [x for x in W["langs"][L].get("skip", []) + W["langs"][L].get("pertain", []) if x]:
                if script(cn) not in ("", sc):
                    continue
                for head in (rng.choice(ps) + " ", "", rng.choice(FILLER) + " "):
                    cases.append({"text": "%s%s %s %s %s" % (head, cn, rng.choice(nums), rng.choice(CONNECT), rng.choice(nums)), "languages": [L],
                                  "settings": None, "withlang": False})
        # the same text in another letter case / with other spacing, searched right after the original in the same
        # process: what is reported belongs to the text of THIS call
        def recase(t):
            return rng.choice([t.upper(), t.lower(), t.title(), t.swapcase(), t.capitalize(), " " + t, t.replace(" ", "  ")])
        base_cases = [c for c in cases if any(ch.isalpha() for ch in c["text"])]
        for c in rng.sample(base_cases, min(len(base_cases), 600 if ctx.quick() else 8000)):
            v = recase(c["text"])
            if v != c["text"]:
                cases.append(dict(c, text=v, pre=[c["text"]]))
                cases.append(dict(c, pre=[v]))
        # enumerations: three to eight date pieces in a row, separated by one of the marks at which the library cuts a
        # chunk that does not parse as a whole (Latin and Arabic comma, dashes, full stop), for every language
        MARKS = [",", "\u060c", "\u2014\u2014", "\u2014", "\u2013", "."]
        for L in (order if not ctx.quick() else rng.sample(order, 70) + ["ar", "fa", "en", "ru", "zh"]):
            w = W["langs"][L]
            ms = [m for m in w["months"] if m]
            wd = [x for x in w["weekdays"] if x]
            if not ms:
                continue
            for mark in (MARKS * 3 if not ctx.quick() else MARKS[1:5] + [rng.choice(MARKS), "\u060c"]):
                n = rng.randint(3, 8)
                items = []
                for k in range(n):
                    r = rng.random()
                    dm = "%d %s" % (rng.randint(1, 28), rng.choice(ms))
                    items.append(rng.choice(wd) if (r < 0.35 and wd) else (dm if r < 0.75 else ("%s %s" % (rng.choice(wd), dm) if wd else dm + " 2020")))
                body = (mark + rng.choice([" ", " ", ""])).join(items)
                t = rng.choice(["", rng.choice(FILLER) + ": ", rng.choice(FILLER) + " "]) + body + rng.choice(["", ".", " " + rng.choice(FILLER), mark])
                cases.append({"text": t[:300], "languages": rng.choice([[L], [L], None]), "settings": rng.choice([None, {"RELATIVE_BASE": [2020, 1, 1, 0, 0, 0, 0]}]),
                              "withlang": rng.random() < 0.5, "enum": True})
        # every skip / pertain word of every language (as listed, and without the spaces some entries carry) as the LAST
        # and as the FIRST token of a line and of the text, next to a date piece and alone
        for L in order:
            w_ = W["langs"][L]
            ps = pieces(L)
            words_ = [x for x in (w_.get("skip", []) + w_.get("pertain", [])) if x.strip() and any(ch.isalpha() for ch in x)]
            if ctx.quick() and len(words_) > 4:
                words_ = [x for x in words_ if x != x.strip()] + rng.sample(words_, 3)
            for x in words_:
                for v in {x, x.strip()}:
                    dp = rng.choice(ps)
                    for t in ("%s %s" % (dp, v), "%s %s\n%s" % (dp, v, rng.choice(FILLER)), v, "%s %s" % (v, dp), "%s\n%s %s" % (rng.choice(FILLER), v, dp), "%s %s." % (dp, v)):
                        cases.append({"text": t, "languages": rng.choice([[L], [L], None]), "settings": rng.choice([None, {"RELATIVE_BASE": [2020, 1, 1, 0, 0, 0, 0]}]),
                                      "withlang": rng.random() < 0.3})
        # date pieces followed by a mark and then only non-ASCII whitespace (ideographic, no-break, em space): what is left
        # of a chunk after trimming must not be reported when it is blank
        for L in (order if not ctx.quick() else rng.sample(order, 40) + ["ja", "zh", "th", "en", "ru"]):
            ps = pieces(L)
            for _ in range(2):
                cases.append({"text": "%s%s%s" % (rng.choice(ps + ["\u5f8c\u00bd", "\u00bd"]), rng.choice(["-", " -", " - ", ",", ".", " (", ":", "\u2014"]),
                                                rng.choice(["\u3000", "\xa0", "\u2003", "\u3000\u3000", "\u2009 ", " \u3000"])),
                              "languages": [L], "settings": None, "withlang": False})
        for t in ("\u5f8c\u00bd-\u3000", "\u5f8c\u00bd-\xa0", "\u5f8c\u00bd -\u2003"):
            cases.append({"text": t, "languages": ["ja"], "settings": None, "withlang": False})
        for _ in range(1500 if ctx.quick() else 20000):      # autodetection and multi-language lists
            L = rng.choice(order)
            langs = None if rng.random() < 0.6 else rng.sample(order, rng.randint(2, 3))
            cases.append({"text": text_for(L), "languages": langs, "settings": None, "withlang": rng.random() < 0.7})
        for _ in range(300 if ctx.quick() else 5000):       # arbitrary strings
            cases.append({"text": gen_string(rng, 300), "languages": rng.choice([None, ["en"], [rng.choice(order)]]), "settings": None, "withlang": False})
    for i, c in enumerate(cases):       # the chunking loop is probed for the single-language calls of every third case
        if c.get("languages") and len(c["languages"]) == 1 and ((i % 3 == 0 and len(c["text"]) <= 120) or c.get("enum")):
            c["chunks"] = True
    results = core.run_cases(ctx, "harness.lib", "call_search", cases, chunk=100)
    # ---- refinement of the chunking loop (SearchChunks.tla): TLC computes the chunks, rendered and compared here
    import re as _re
    crecs, cidx = [], []
    for i, (c, r) in enumerate(zip(cases, results)):
        for pc in r.get("chunks") or []:
            if any(len(sn["t"]) != len(sn["orig"]) for sn in pc["sents"]):
                continue
            crecs.append({"tid": len(crecs), "jointOK": pc["jointOK"], "sents": [{"t": sn["t"]} for sn in pc["sents"]]})
            cidx.append((i, pc))
    chunk_drift = 0
    if crecs:
        ct, _g = core.validate_traces(ctx, "T_Chunks", "SPECIFICATION TSpec\nPOSTCONDITION Consumed\nCHECK_DEADLOCK FALSE\n", crecs, tags=("CHUNKS",))
        for t in ct["CHUNKS"]:
            tid, per_sentence = t[1], t[2]
            i, pc = cidx[tid]
            exp = []
            for sn, ranges in zip(pc["sents"], per_sentence):
                for a, b in ranges:
                    toks = [x for x in sn["orig"][a - 1:b] if x]
                    exp.append("".join(toks) if pc["nospace"] else _re.sub(r"\s{2,}", " ", " ".join(toks)))
            if exp != pc["original"]:
                chunk_drift += 1
                if chunk_drift <= 5:
                    ctx.note_drift("SearchChunks", {"text": cases[i]["text"], "languages": cases[i]["languages"], "model_chunks": exp, "code_chunks": pc["original"]})
    # ---- refinement of the splitting of unparsed chunks (SearchSplit.tla)
    srecs, sidx = [], []
    for i, (c, r) in enumerate(zip(cases, results)):
        for sp_ in r.get("splits") or []:
            srecs.append(dict(sp_, tid=len(srecs)))
            sidx.append(i)
    split_drift = 0
    if srecs:
        st_, _g = core.validate_traces(ctx, "T_Splits", "SPECIFICATION TSpec\nPOSTCONDITION Consumed\nCHECK_DEADLOCK FALSE\n", srecs)
        for t in st_["REJECT"]:
            split_drift += 1
            if split_drift <= 5:
                ctx.note_drift("SearchSplit", {"text": cases[sidx[t[1]]]["text"], "languages": cases[sidx[t[1]]]["languages"], "clause": t[3], "model": t[4],
                                               "observed": {k: v for k, v in srecs[t[1]].items() if k != "tid"}})
    # ---- refinement of the word alignment (Align.tla): the calls made while searching, and every pair of word lists
    # of a small domain put through the real method
    arecs, aidx = [], []
    for i, (c, r) in enumerate(zip(cases, results)):
        for a_ in r.get("aligns") or []:
            arecs.append(dict(a_, tid=len(arecs)))
            aidx.append(i)
    n_real_aligns = len(arecs)
    if not ctx.replay:
        parts = 8
        for chunk_ in core.run_cases(ctx, "harness.lib", "align_small_domain", [{"maxlen": 3 if ctx.quick() else 4, "words": 3, "part": k, "parts": parts} for k in range(parts)], nproc=parts):
            for a_ in chunk_:
                arecs.append(dict(a_, tid=len(arecs)))
                aidx.append(-1)
    align_drift = 0
    if arecs:
        at_, _g = core.validate_traces(ctx, "T_Align", "SPECIFICATION TSpec\nPOSTCONDITION Consumed\nCHECK_DEADLOCK FALSE\n", arecs)
        for t in at_["REJECT"]:
            align_drift += 1
            if align_drift <= 5:
                ctx.note_drift("Align", {"text": cases[aidx[t[1]]]["text"] if aidx[t[1]] >= 0 else "(small domain)", "clause": t[3], "model": t[4],
                                         "observed": {k: v for k, v in arecs[t[1]].items() if k != "tid"}})
    records = []
    for i, (c, r) in enumerate(zip(cases, results)):
        records.append({"tid": i, "exc": r["exc"], "isnone": r["isnone"], "islist": r["islist"], "withlang": bool(c["withlang"]),
                        "requested": c["languages"] or [], "detect": r.get("detect", []), "hits": [{k: h[k] for k in ("tuple", "blank", "first", "seq", "lang")} for h in r["hits"]]})
    tuples, gen = core.validate_traces(ctx, "T_C17", "SPECIFICATION TSpec\nPOSTCONDITION Consumed\nCHECK_DEADLOCK FALSE\n", records)
    seen = {}
    for t in tuples["REJECT"]:
        _, tid, kind, verdict, exc = t[:5]
        c, r = cases[tid], results[tid]
        if kind == "abs":
            ctx.note_drift("Detect", {"text": c["text"], "languages": c["languages"], "candidates": r.get("detect"), "model_choice": exc})
            continue
        key = (verdict, r["exc"], tuple(c["languages"] or []) if verdict == "raised" else ())
        seen[key] = seen.get(key, 0) + 1
        if seen[key] > 2:
            continue
        ctx.violation({"call": "search_dates(%r, languages=%r, settings=%r, add_detected_language=%r)" % (c["text"], c["languages"], c["settings"], c["withlang"])},
                      verdict, expected="None or a non-empty list of (substring, datetime) pairs, substrings in the text, in text order",
                      observed={"exc": r["exc"], "msg": r.get("msg"), "hits": [[h.get("sub"), h.get("dt"), h["first"], h["seq"]] for h in r["hits"]]}, extra={"full_case": c})
    ctx.notes.append({"reject_classes": {"|".join(map(str, k)): v for k, v in seen.items()}})
    cov = {
        "chunking_calls_validated": len(crecs), "chunking_drift": chunk_drift,
        "split_events_validated": {"split_by": sum(1 for x in srecs if x["kind"] == "splitby"), "choose_best_split": sum(1 for x in srecs if x["kind"] == "best"), "set_relative_base": sum(1 for x in srecs if x["kind"] == "relbase"),
                                   "with_more_than_three_pieces": sum(1 for x in srecs if x["kind"] == "splitby" and x["n"] > 3)}, "split_drift": split_drift,
        "alignment_calls_validated": {"while_searching": n_real_aligns, "with_lists_of_different_length": sum(1 for a_ in arecs[:n_real_aligns] if len(a_["o"]) != len(a_["s"])),
                                      "small_domain_pairs": len(arecs) - n_real_aligns}, "alignment_drift": align_drift,
        "language_choices_validated": sum(len(r.get("detect", [])) for r in results),
        "evaluations": len(cases), "distinct_nontrivial": len({(c["text"], repr(c["languages"])) for c, r in zip(cases, results) if r["hits"]}),
        "rule": "case = (text <= 300 chars, languages or autodetection, RELATIVE_BASE, add_detected_language); non-trivial = distinct call returning hits",
        "exhaustive": False, "states": mc.distinct, "transitions": mc.generated, "traces_validated_against_impl": len(cases),
        "languages_explicit": len({tuple(c["languages"]) for c in cases if c["languages"] and len(c["languages"]) == 1}),
        "autodetected": sum(1 for c in cases if not c["languages"]), "total_hits": sum(len(r["hits"]) for r in results),
        "pinned_loop_refuted": pinned.invariant_violated,
        "samples": [{"text": c["text"], "languages": c["languages"], "hits": [[h.get("sub"), h.get("dt")] for h in r["hits"]]} for c, r in list(zip(cases, results))[:: max(1, len(cases) // 6)]][:6],
    }
    return core.finish(ctx, LEVEL, cov, assumptions=[
        "'occurs in the text up to whitespace' = the substring with all whitespace removed occurs (case-insensitively) in the text with all whitespace removed; 'in text order' = the hits can be found one after the other",
        "texts are assembled from each language's own month / weekday / relative words, numeric dates, filler prose and mutated punctuation; the quantifier over all texts is explored, not exhausted"])
