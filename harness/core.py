"""Shared plumbing of the /verif checks: run context, snapshot of the working tree, TLC driver,
worker pool executing the real library, evidence / finding / verdict handling."""

import atexit
import hashlib
import json
import os
import random
import re
import shutil
import subprocess
import sys
import tempfile
import time
import traceback

from . import tlaval

VERIF = os.path.dirname(os.path.dirname(os.path.abspath(__file__)))
REPO = os.environ.get("VERIF_REPO", "/repo")
SPEC = os.path.join(VERIF, "spec")
PY = sys.executable or "/venv/bin/python"
NCPU = max(1, min(16, os.cpu_count() or 1))
TLC_CP = "/opt/veriftools/tla/tla2tools.jar:/opt/veriftools/tla/CommunityModules-deps.jar"

LEVELS = (
    "exploration",
    "fault_enumeration",
    "model_checking",
    "proof",
    "translation_validation",
    "other",
)


import threading as _threading
_LOCK = _threading.Lock()


class Machinery(Exception):
    """Failure of the verification machinery itself (exit 2, never a VIOLATION)."""


class Ctx:
    def __init__(self, prop, tier="quick", seed=None, replay=None):
        self.prop = prop
        self.tier = tier
        self.seed = int(seed if seed is not None else os.environ.get("VERIF_SEED", "20261004"))
        self.rng = random.Random(self.seed)
        self.replay = replay
        self.t0 = time.time()
        base = "/dev/shm" if os.path.isdir("/dev/shm") and os.access("/dev/shm", os.W_OK) else None
        self.scratch = tempfile.mkdtemp(prefix="verif_%s_" % prop, dir=base)
        atexit.register(self.cleanup)
        self.snap = None
        self.violations = []  # list of dicts (written as replay files)
        self.known_hit = {}  # finding id -> count
        self.drift = []
        self.notes = []
        self.coverage = {}
        self.assumptions = []
        self.tlc_runs = []
        self.budget_s = None

    # ------------------------------------------------------------------ time
    def elapsed(self):
        return time.time() - self.t0

    def quick(self):
        return self.tier == "quick"

    # -------------------------------------------------------------- snapshot
    def snapshot(self):
        """Copy the working tree's packages into scratch; nothing ever writes into REPO."""
        with _LOCK:
            return self._snapshot()

    def _snapshot(self):
        if self.snap:
            return self.snap
        snap = os.path.join(self.scratch, "snap")
        os.makedirs(snap)
        ign = shutil.ignore_patterns("__pycache__", "*.pyc")
        for d in ("dateparser", "dateparser_data", "dateparser_scripts"):
            src = os.path.join(REPO, d)
            if os.path.isdir(src):
                shutil.copytree(src, os.path.join(snap, d), ignore=ign)
        self.snap = snap
        return snap

    def pyenv(self, extra=None, hashseed="0"):
        env = dict(os.environ)
        env["PYTHONPATH"] = self.snapshot() + os.pathsep + VERIF
        env["PYTHONHASHSEED"] = hashseed
        env["PYTHONDONTWRITEBYTECODE"] = "1"
        env.pop("BUILD_TZ_CACHE", None)
        if extra:
            env.update(extra)
        return env

    def cleanup(self):
        if os.environ.get("VERIF_KEEP_SCRATCH"):
            sys.stderr.write("scratch kept: %s\n" % self.scratch)
            return
        shutil.rmtree(self.scratch, ignore_errors=True)

    def path(self, *p):
        full = os.path.join(self.scratch, *p)
        os.makedirs(os.path.dirname(full), exist_ok=True)
        return full

    # ------------------------------------------------------------------ TLC
    def tlc(self, module, cfg_text, constants_module=None, env=None, workers=None, timeout=900,
            extra_args=(), name=None, deadlock=False, coverage=False, simulate=None, dump=None,
            depth_first=False, heap="12g"):
        """Run TLC on spec/<module>.tla with the given cfg text inside a scratch copy of spec/.

        constants_module: optional (name, text) of a generated module placed next to the specs.
        Returns TlcResult."""
        name = name or module
        with _LOCK:
            self._nrun = getattr(self, "_nrun", 0) + 1
            rundir = self.path("tlc", name + "_%d" % self._nrun)
        shutil.copytree(SPEC, rundir, dirs_exist_ok=True)
        if constants_module:
            for mname, text in (constants_module if isinstance(constants_module, list) else [constants_module]):
                with open(os.path.join(rundir, mname + ".tla"), "w") as f:
                    f.write(text)
        with open(os.path.join(rundir, name + ".cfg"), "w") as f:
            f.write(cfg_text)
        meta = os.path.join(rundir, "meta")
        jtmp = os.path.join(rundir, "jtmp")
        os.makedirs(jtmp, exist_ok=True)
        cmd = ["java", "-XX:+UseParallelGC", "-XX:ParallelGCThreads=4", "-Xss64m", "-Xmx" + heap, "-Djava.io.tmpdir=" + jtmp]
        if depth_first:
            cmd.append("-Dtlc2.tool.queue.IStateQueue=StateDeque")
        cmd += ["-cp", TLC_CP, "tlc2.TLC", "-workers", str(workers or NCPU), "-metadir", meta,
                "-noGenerateSpecTE", "-config", name + ".cfg"]
        if coverage and not simulate:
            cmd += ["-coverage", "1"]
        if not deadlock:
            cmd += ["-deadlock"]
        if simulate:
            cmd += ["-simulate", simulate]
        if dump:
            cmd += ["-dump", dump]
        cmd += list(extra_args) + [module + ".tla"]
        e = dict(os.environ)
        if env:
            e.update({k: str(v) for k, v in env.items()})
        t0 = time.time()
        try:
            p = subprocess.run(cmd, cwd=rundir, env=e, stdout=subprocess.PIPE, stderr=subprocess.STDOUT,
                               timeout=timeout, text=True, errors="replace")
            out, rc = p.stdout, p.returncode
        except subprocess.TimeoutExpired as ex:
            out = (ex.stdout or b"")
            out = out.decode("utf-8", "replace") if isinstance(out, bytes) else out
            subprocess.run(["pkill", "-f", "metadir %s" % meta], check=False)
            rc = -9
        res = TlcResult(name, out, rc, time.time() - t0, rundir)
        self.tlc_runs.append(res)
        shutil.rmtree(meta, ignore_errors=True)
        return res

    # -------------------------------------------------------------- verdicts
    def violation(self, case, why, expected=None, observed=None, extra=None):
        rec = {"property": self.prop, "why": why, "case": case, "expected": expected,
               "observed": observed, "seed": self.seed, "tier": self.tier}
        if extra:
            rec.update(extra)
        self.violations.append(rec)

    def known(self, fid, what=None):
        self.known_hit[fid] = self.known_hit.get(fid, 0) + 1

    def note_drift(self, module, detail):
        if len(self.drift) < 200:
            self.drift.append({"module": module, "detail": detail})
        else:
            self.drift_overflow = getattr(self, "drift_overflow", 0) + 1


class TlcResult:
    def __init__(self, name, out, rc, wall, rundir):
        self.name, self.out, self.rc, self.wall, self.rundir = name, out, rc, wall, rundir
        m = re.search(r"(\d+) states generated, (\d+) distinct states found", out)
        self.generated = int(m.group(1)) if m else 0
        self.distinct = int(m.group(2)) if m else 0
        m = re.search(r"The depth of the complete state graph search is (\d+)", out)
        self.depth = int(m.group(1)) if m else 0
        self.invariant_violated = re.findall(r"Error: Invariant (\S+) is violated", out)
        self.property_violated = re.findall(r"Error: (?:Action|Temporal) property (\S+) (?:is|was) violated", out) \
            or (["<temporal>"] if "Temporal properties were violated" in out else [])
        self.ok = ("Model checking completed. No error has been found." in out) or \
                  ("Finished in" in out and "Error:" not in out)
        self.error = None
        if "Error:" in out and not self.invariant_violated and not self.property_violated:
            i = out.index("Error:")
            self.error = out[i:i + 1500]
        self.actions = self._coverage(out)

    @staticmethod
    def _coverage(out):
        acts = {}
        for m in re.finditer(r"^<(\w+) line \d+, col \d+ to line \d+, col \d+ of module (\w+)>: (\d+):(\d+)", out, re.M):
            key = m.group(1)
            acts[key] = acts.get(key, 0) + int(m.group(4))
        return acts

    def tuples(self, tag):
        return list(tlaval.find_tuples(self.out, tag))

    def require_clean(self):
        if self.rc == -9:
            raise Machinery("TLC timed out in %s" % self.name)
        if self.error:
            raise Machinery("TLC error in %s: %s" % (self.name, self.error))

    def counterexample(self):
        """States of the printed error trace, parsed."""
        states = []
        for m in re.finditer(r"^State (\d+): <([^>]*)>\n((?:(?:/\\ |  ).*\n|\S.* = .*\n)+)", self.out, re.M):
            try:
                states.append({"n": int(m.group(1)), "action": m.group(2).split(" line")[0],
                               "state": tlaval.parse_state(m.group(3))})
            except Exception:
                states.append({"n": int(m.group(1)), "action": m.group(2), "raw": m.group(3)})
        return states


# ---------------------------------------------------------------------- worker pool
_WORKER_BOOT = r"""
import sys, json, os
sys.path.insert(0, %(snap)r)
sys.path.insert(1, %(verif)r)
_cov = None
if os.environ.get('VERIF_COVERAGE_DIR'):
    # diagnostic only (tools/coverage.sh): which lines of the library the checks' executions reach
    import coverage, atexit
    _cov = coverage.Coverage(data_file=os.path.join(os.environ['VERIF_COVERAGE_DIR'], 'cov'), data_suffix=True, branch=True,
                             include=[os.path.join(%(snap)r, 'dateparser', '*')], omit=[os.path.join(%(snap)r, 'dateparser', 'data', '*')])
    _cov.start()
    def _cov_stop():
        _cov.stop(); _cov.save()
    atexit.register(_cov_stop)
import importlib
mod = importlib.import_module(%(mod)r)
fn = getattr(mod, %(fn)r)
init = getattr(mod, 'worker_init', None)
if init: init()
out = sys.stdout
for line in sys.stdin:
    line = line.strip()
    if not line:
        continue
    if line == 'QUIT':
        break
    req = json.loads(line)
    try:
        res = fn(req)
    except BaseException as e:   # the worker function is expected to catch library exceptions itself
        import traceback
        res = {'__worker_error__': ''.join(traceback.format_exception(type(e), e, e.__traceback__))[-2000:]}
    out.write(json.dumps(res, ensure_ascii=True, separators=(',', ':')) + '\n')
    out.flush()
"""


def run_cases(ctx, module, fn, cases, nproc=None, chunk=None, env=None, deadline=None, hashseed="0", contiguous=False):
    """Execute `module.fn(case)` for every case in worker subprocesses that import the library from the
    snapshot.  Returns list of results aligned with cases (None where the deadline cut the run short)."""
    nproc = min(nproc or NCPU, max(1, len(cases)))
    boot = _WORKER_BOOT % {"snap": ctx.snapshot(), "verif": VERIF, "mod": module, "fn": fn}
    e = ctx.pyenv(env, hashseed=hashseed)
    results = [None] * len(cases)
    if contiguous:      # neighbouring cases go to the same worker (they share settings, hence the library's caches)
        per = -(-len(cases) // nproc)
        shards = [list(range(i * per, min(len(cases), (i + 1) * per))) for i in range(nproc)]
    else:
        shards = [list(range(i, len(cases), nproc)) for i in range(nproc)]
    procs = []
    import threading

    def drive(idx_list):
        p = subprocess.Popen([PY, "-c", boot], stdin=subprocess.PIPE, stdout=subprocess.PIPE,
                             stderr=subprocess.DEVNULL, env=e, text=True, bufsize=1 << 16)
        procs.append(p)

        def feed():
            # a separate feeder: writing and reading from one thread can deadlock once both pipes are full
            try:
                B = chunk or 200
                for s0 in range(0, len(idx_list), B):
                    p.stdin.write("".join(json.dumps(cases[i], ensure_ascii=True) + "\n" for i in idx_list[s0:s0 + B]))
                    p.stdin.flush()
                p.stdin.write("QUIT\n")
                p.stdin.flush()
            except (BrokenPipeError, ValueError, OSError):
                pass
            finally:
                try:
                    p.stdin.close()
                except Exception:
                    pass

        ft = threading.Thread(target=feed, daemon=True)
        ft.start()
        try:
            for i in idx_list:
                line = p.stdout.readline()
                if not line:
                    raise Machinery("worker died (case %r)" % (cases[i],))
                results[i] = json.loads(line)
        finally:
            ft.join(timeout=30)
            try:
                p.wait(timeout=60)
            except Exception:
                p.kill()

    errs = []

    def safe(idx_list):
        try:
            drive(idx_list)
        except BaseException as ex:  # noqa
            errs.append(ex)

    ths = [threading.Thread(target=safe, args=(sh,)) for sh in shards if sh]
    for t in ths:
        t.start()
    for t in ths:
        t.join()
    for p in procs:
        if p.poll() is None:
            p.kill()
    if errs:
        raise errs[0] if isinstance(errs[0], Machinery) else Machinery(repr(errs[0]))
    for i, r in enumerate(results):
        if isinstance(r, dict) and "__worker_error__" in r:
            raise Machinery("worker function failed on %r: %s" % (cases[i], r["__worker_error__"]))
    return results


# ---------------------------------------------------------------------- trace validation batches
def run_fresh(ctx, module, fn, cases, par=None, env=None, hashseed="0"):
    """like run_cases, but EVERY case runs in an interpreter of its own: for cases whose point is the order in which a
    fresh process touches things (first locale loaded, first settings seen)"""
    import concurrent.futures as cf
    ctx.snapshot()
    with cf.ThreadPoolExecutor(max_workers=par or NCPU) as ex:
        return list(ex.map(lambda c: run_cases(ctx, module, fn, [c], nproc=1, env=env, hashseed=hashseed)[0], cases))


def run_cases_prebuilt(ctx, calls, select, size=5, key=None):
    """run call_parse cases; those chosen by `select(i)` are executed in batches whose DateDataParser objects are all
    constructed before any of them is used (harness.lib.call_parse_batch); results come back in case order"""
    idx = [i for i in range(len(calls)) if select(i)]
    if key:
        idx.sort(key=key)
    chosen = set(idx)
    batches = [idx[k:k + size] for k in range(0, len(idx), size)]
    rest = [i for i in range(len(calls)) if i not in chosen]
    out = [None] * len(calls)
    if batches:
        rb = run_cases(ctx, "harness.lib", "call_parse_batch", [{"cases": [calls[i] for i in b]} for b in batches], chunk=20)
        for b, rs in zip(batches, rb):
            for i, r in zip(b, rs):
                out[i] = r
    if rest:
        rr = run_cases(ctx, "harness.lib", "call_parse", [calls[i] for i in rest])
        for i, r in zip(rest, rr):
            out[i] = r
    return out


def validate_traces(ctx, module, cfg_text, records, shards=None, env=None, consts=None, name=None,
                    timeout=900, tags=("REJECT",)):
    """Write `records` as NDJSON shards and let TLC validate each shard with spec `module`
    (which reads IOEnv.TRACE_FILE).  Returns (tuples_by_tag, states_generated)."""
    if not records:
        return {t: [] for t in tags}, 0
    shards = shards or min(NCPU, max(1, len(records) // 1500))
    files = []
    for k in range(shards):
        fn = ctx.path("traces", "%s_%d_%d.ndjson" % (name or module, getattr(ctx, "_nrun", 0), k))
        with open(fn, "w") as f:
            for r in records[k::shards]:
                f.write(json.dumps(r, ensure_ascii=True, separators=(",", ":")) + "\n")
        files.append(fn)
    import concurrent.futures as cf

    def one(fn):
        e = {"TRACE_FILE": fn}
        if env:
            e.update(env)
        return ctx.tlc(module, cfg_text, constants_module=consts, env=e, workers=1, timeout=timeout,
                       name=name or module, coverage=False, heap="3g")

    out = {t: [] for t in tags}
    gen = 0
    with cf.ThreadPoolExecutor(max_workers=shards) as ex:
        for res, fn_ in zip(ex.map(one, files), files):
            if getattr(res, "error", None):
                # name the record TLC was working on: the last "l = N" of the printed behaviour is the number of records
                # consumed, the next line of the shard is the one that could not be evaluated
                ls = re.findall(r"^l = (\d+)", res.out, flags=re.M)
                if ls:
                    try:
                        with open(fn_) as f_:
                            rec = f_.readlines()[int(ls[-1])]
                        res.error = "%s\n  while evaluating record %d of %s: %s" % (res.error[:400], int(ls[-1]) + 1, os.path.basename(fn_), rec[:3000])
                    except Exception:  # noqa
                        pass
            res.require_clean()
            if res.invariant_violated or res.property_violated:
                raise Machinery("trace spec %s: invariant violated (verdicts must be total): %s" % (module, res.out[-1500:]))
            m = re.search(r'"CONSUMED",\s*(\d+)', res.out)
            for t in tags:
                out[t].extend(res.tuples(t))
            gen += res.generated
    return out, gen


def replay_cases(ctx):
    """Cases stored in a replay file written by an earlier VIOLATION (None when not replaying)."""
    if not ctx.replay:
        return None
    with open(ctx.replay) as f:
        rep = json.load(f)
    if "full_case" in rep:
        return [rep["full_case"]]
    if "full_cases" in rep:
        return rep["full_cases"]
    raise Machinery("replay file %s holds no executable case" % ctx.replay)


# ---------------------------------------------------------------------- known findings
def load_findings(prop):
    p = os.path.join(VERIF, "known_findings.json")
    if not os.path.exists(p):
        return [], []
    with open(p) as f:
        data = json.load(f)
    return ([x for x in data.get("findings", []) if x["property"] == prop],
            [x for x in data.get("fixed", []) if x["property"] == prop])


# ---------------------------------------------------------------------- finish
def finish(ctx, level, coverage, assumptions=None, findings_desc=None):
    """Write the evidence file, print KNOWN-FINDING / VIOLATION lines, return the exit code."""
    os.makedirs(os.path.join(VERIF, "evidence"), exist_ok=True)
    cov = dict(coverage)
    cov.setdefault("tlc_runs", [
        {"name": r.name, "generated": r.generated, "distinct": r.distinct, "wall_s": round(r.wall, 2),
         "actions": r.actions} for r in ctx.tlc_runs if r.generated])
    cov["known_findings_hit"] = dict(ctx.known_hit)
    cov["drift"] = ctx.drift[:20]
    cov["drift_count"] = len(ctx.drift) + getattr(ctx, "drift_overflow", 0)
    if ctx.notes:
        cov["notes"] = ctx.notes
    ev = {
        "property_id": ctx.prop,
        "tier": ctx.tier,
        "seed": ctx.seed,
        "level": level,
        "coverage": cov,
        "assumptions": list(assumptions or []) + ctx.assumptions,
        "wall_s": round(ctx.elapsed(), 2),
        "violations": len(ctx.violations),
    }
    if not ctx.replay:
        # evidence describes /repo; a run against a scratch copy (VERIF_REPO, used for the seeded changes) writes its
        # record next to the scratch output instead of over the committed file
        evdir = os.path.join(VERIF, "evidence") if os.path.realpath(REPO) == "/repo" else "/dev/shm/verif_scratch_evidence"
        os.makedirs(evdir, exist_ok=True)
        with open(os.path.join(evdir, ctx.prop + ".json"), "w") as f:
            json.dump(ev, f, indent=1, ensure_ascii=True, default=str)
            f.write("\n")
    findings_desc = findings_desc or {}
    for fid, n in sorted(ctx.known_hit.items()):
        print("KNOWN-FINDING: property=%s %s (%d case(s)) %s" % (ctx.prop, fid, n, findings_desc.get(fid, "")))
    for d in ctx.drift[:5]:
        print("MODEL-DRIFT module=%s %s" % (d["module"], json.dumps(d["detail"], ensure_ascii=True, default=str)[:300]))
    if ctx.violations:
        rdir = os.path.join(VERIF, "replays")
        os.makedirs(rdir, exist_ok=True)
        seen = set()
        for v in ctx.violations[:25]:
            blob = json.dumps(v, sort_keys=True, ensure_ascii=True, default=str)
            h = hashlib.sha1(blob.encode()).hexdigest()[:12]
            if h in seen:
                continue
            seen.add(h)
            path = os.path.join(rdir, "%s-%s.json" % (ctx.prop, h))
            with open(path, "w") as f:
                json.dump(v, f, indent=1, ensure_ascii=True, default=str)
            print("VIOLATION property=%s replay=%s" % (ctx.prop, path))
            print("  why: %s" % v["why"])
            print("  case: %s" % json.dumps(v["case"], ensure_ascii=True, default=str)[:400])
            print("  expected: %s observed: %s" % (json.dumps(v.get("expected"), default=str)[:200],
                                                    json.dumps(v.get("observed"), default=str)[:200]))
        if len(ctx.violations) > 25:
            print("  ... %d further violating cases not written" % (len(ctx.violations) - 25))
        return 1
    print("OK property=%s tier=%s wall=%.1fs %s" % (ctx.prop, ctx.tier, ctx.elapsed(),
                                                 " ".join("%s=%s" % (k, cov[k]) for k in ("states", "transitions", "evaluations", "traces_validated_against_impl", "distinct_nontrivial") if k in cov)))
    return 0


def main(run, prop, level):
    import argparse
    ap = argparse.ArgumentParser()
    ap.add_argument("--tier", default=os.environ.get("VERIF_TIER", "quick"), choices=["quick", "thorough"])
    ap.add_argument("--replay")
    ap.add_argument("--seed", type=int)
    args = ap.parse_args(sys.argv[2:])
    ctx = Ctx(prop, args.tier, args.seed, args.replay)
    try:
        rc = run(ctx)
    except Machinery as e:
        print("MACHINERY-FAILURE property=%s %s" % (prop, e))
        traceback.print_exc()
        rc = 2
    except Exception:
        print("MACHINERY-FAILURE property=%s unexpected exception" % prop)
        traceback.print_exc()
        rc = 2
    finally:
        ctx.cleanup()
    sys.exit(rc)
