"""History of a process: calls that the library accepts (or refuses) and that lie NEXT TO the families the properties
quantify over.  A judged call must return what it returns in a fresh process whatever was parsed before it; the
histories below are what an ordinary program would have parsed earlier: other clock spellings, strings that carry
their own zone, relative phrases, other languages, strings that fail half way.  They are never judged themselves.

history(rng, case, ...) -> list of {"s", "kw", "settings"} for case["pre"]; the settings of a history call are,
at random, the judged call's own settings (equal settings share one Settings object inside the library), none, or
the judged call's settings with one key changed."""

POOL = {
    # clock spellings of the absolute parser's directive list (parser.py time_directives), incl. the lenient ones
    "clock": ["13:30 PM", "December 23, 2010, 16:50 pm", "22:15:10 pm", "10:00:00.123456 PM", "0:05 am", "10 PM",
              "10:15", "7:03:09", "23:59:59.5", "12 am", "5 Jan 2021 17:45 PM", "2021-01-05 00:30 AM"],
    # strings that carry their own zone / offset
    "zone": ["2 hours ago EST", "yesterday 10:00 +0530", "now UTC", "10 Feb 2020 10:00 PST", "in 1 day -0300",
             "2020-02-10T10:00:00Z", "Mon, 10 Feb 2020 10:00:00 +0000", "10:00 CET", "1 minute ago GMT+2",
             "2015-03-05 10:00 UTC+05:45", "5 March 2015 10:00 AKST"],
    # relative phrases
    "relative": ["yesterday", "in 2 weeks", "3 months ago", "tomorrow 5pm", "1 year, 2 months ago", "today", "now",
                 "2 days ago 10:00", "in 1.5 hours", "last week", "next month"],
    # incomplete / ambiguous absolute strings
    "partial": ["Feb 2015", "2015", "Monday", "March", "31", "5 March", "Friday 13", "12/11", "2015-03", "10 2015",
                "1200", "201115", "20151130", "11-10-1200"],
    # strings that fail (some only after part of the work is done)
    "fail": ["no date here", "32/13/2015", "2015-02-30", "1391-12-30T10:20:30", "99 99 99", "Feb 30", "25:61", "",
             "31 June 2015", "12/31/2012 noon-ish", "0000-00-00", "2015-13-01T00:00:00Z", "99999999999999999999"],
    # other languages and scripts
    "foreign": [("5 mars 2015", "fr"), ("13.02.2015", "de"), ("2015年3月5日", "ja"), ("вчера", "ru"), ("hace 2 horas", "es"),
                ("٥ مارس ٢٠١٥", "ar"), ("12/31/2012", "fr"), ("7 fevrier 2015", "fr"), ("13 unora 2019", "cs"),
                ("il y a 3 jours", "fr"), ("1 ano 2 meses", "pt"), ("3 Esfand 1391", "fa")],
}
KINDS = sorted(POOL)


def history(rng, case, n=2, weights=None, langs_of_case=True):
    """n history calls for `case` (a dict with kw / settings as the judged call gets them)."""
    out = []
    kinds = KINDS if not weights else [k for k in KINDS for _ in range(weights.get(k, 1))]
    for _ in range(n):
        k = rng.choice(kinds)
        item = rng.choice(POOL[k])
        lang = "en"
        if isinstance(item, tuple):
            item, lang = item
        r = rng.random()
        if r < 0.45 and langs_of_case and k != "foreign":
            kw = {key: v for key, v in (case.get("kw") or {}).items() if key in ("languages", "locales", "region")}
        elif r < 0.8:
            kw = {"languages": [lang]}
        else:
            kw = {}
        st = case.get("settings")
        r = rng.random()
        tw = equal_instant_twin(st)
        if tw is not None and r < 0.5:
            ps = tw                               # equal under ==, another reference day / clock for the library
        elif r < 0.45:
            ps = dict(st) if st else None             # equal settings: the same Settings object inside the library
        elif r < 0.7:
            ps = None
        else:
            ps = dict(st or {})
            key, val = rng.choice([("TIMEZONE", "America/New_York"), ("TIMEZONE", "UTC"), ("DATE_ORDER", "YMD"),
                                   ("DATE_ORDER", "DMY"), ("PREFER_DATES_FROM", "past"), ("PREFER_DATES_FROM", "future"),
                                   ("RETURN_AS_TIMEZONE_AWARE", True), ("TO_TIMEZONE", "Asia/Tokyo"),
                                   ("PREFER_DAY_OF_MONTH", "last"), ("NORMALIZE", False), ("STRICT_PARSING", True),
                                   ("RETURN_TIME_AS_PERIOD", True), ("PREFER_LOCALE_DATE_ORDER", False)])
            ps[key] = val
        out.append({"s": item, "kw": kw, "settings": ps})
    return out


def attach(rng, cases, share, n=2, weights=None, when=None):
    """Gives a share of the cases a history; returns how many got one."""
    k = 0
    for c in cases:
        if c.get("pre") or c.get("poison") or (when and not when(c)):
            continue
        if rng.random() < share:
            c["pre"] = history(rng, c, n=rng.randint(1, n), weights=weights)
            k += 1
    return k


def describe_pre(c):
    return [[p["s"], p.get("kw"), p.get("settings")] for p in c.get("pre") or []]


# --------------------------------------------------------------------------- bystander settings
DEFAULT_PARSERS = ["timestamp", "relative-time", "custom-formats", "absolute-time", "no-spaces-time"]


def bystanders(rng, present=("day", "month", "year"), share=0.3):
    """Settings that must not change the outcome of a call whose string states the parts `present`: a requirement
    that the string meets (REQUIRE_PARTS within `present`), and defaults spelled out explicitly."""
    out = {}
    if rng.random() < share and present:
        k = rng.randint(1, len(present))
        out["REQUIRE_PARTS"] = sorted(rng.sample(list(present), k))
    if rng.random() < share / 3:
        key, val = rng.choice([("STRICT_PARSING", False), ("PARSERS", list(DEFAULT_PARSERS)), ("SKIP_TOKENS", ["t"]),
                               ("NORMALIZE", True), ("RETURN_AS_TIMEZONE_AWARE", False), ("DEFAULT_LANGUAGES", []),
                               ("PREFER_LOCALE_DATE_ORDER", True), ("TO_TIMEZONE", None) if False else ("CACHE_SIZE_LIMIT", 1000)])
        out[key] = val
    return out


# --------------------------------------------------------------------------- equal, but not the same
def equal_instant_twin(settings):
    """Settings that are equal to `settings` under == but mean something else to the library: a timezone-aware
    RELATIVE_BASE written as the SAME INSTANT in another zone (aware datetimes compare and hash by instant; their calendar
    fields - the reference day, weekday, clock - differ).  None when the settings hold no aware reference."""
    import datetime as _d
    rb = (settings or {}).get("RELATIVE_BASE")
    if not isinstance(rb, dict) or rb.get("tz") is None:
        return None
    off = 0 if rb["tz"] == "UTC" else rb["tz"]
    if not isinstance(off, int):
        return None
    new = off - 18000 if off >= 0 else off + 25200          # far enough to land on another calendar day near midnight
    try:
        d = _d.datetime(*rb["dt"][:7]) + _d.timedelta(seconds=new - off)
    except (OverflowError, ValueError):
        return None
    tw = dict(settings)
    tw["RELATIVE_BASE"] = {"dt": [d.year, d.month, d.day, d.hour, d.minute, d.second, d.microsecond], "tz": new}
    return tw
