"""Worker side of the loader refinement (spec/LoaderOps.tla, T_Loader.tla): a run-time probe around
`LocaleDataLoader._load_data` records, for every call a process makes, the arguments and the locales yielded; the
language whose DATA is behind each yielded object is recovered from a fingerprint of the data itself."""

import re

_SPLIT = re.compile(r"-(?=[A-Z0-9]+$)")
_EVENTS = []
_INST = {"done": False, "unbound": []}
_FP = {}
MK = ["january", "february", "march", "april", "may", "june", "july", "august", "september", "october", "november", "december",
      "monday", "tuesday", "wednesday", "thursday", "friday", "saturday", "sunday"]


def _split(name):
    if name is None:
        return ["<None>", ""]
    p = _SPLIT.split(name)
    return [p[0], p[1] if len(p) > 1 else ""]


def _fingerprints():
    if not _FP:
        from harness.c05lib import pristine_info
        from dateparser.data import language_order
        for L in language_order:
            info = pristine_info(L)
            _FP[L] = [tuple(info.get(k) or []) for k in MK]
    return _FP


def data_languages(locale):
    """languages whose shipped month / weekday lists are prefixes of this object's lists (overlays only append)"""
    fp = _fingerprints()
    mine = [tuple(locale.info.get(k) or []) for k in MK]
    return [L for L, f in fp.items() if all(m[:len(b)] == b for m, b in zip(mine, f))] or ["?"]


def install():
    if _INST["done"]:
        return
    _INST["done"] = True
    try:
        from dateparser.languages.loader import LocaleDataLoader
        orig = LocaleDataLoader._load_data
    except Exception:
        _INST["unbound"].append("LocaleDataLoader._load_data")
        return

    def _load_data(self, languages=None, locales=None, region=None, use_given_order=False, allow_conflicting_locales=False):
        ev = {"given": bool(use_given_order), "allow": bool(allow_conflicting_locales), "out": [], "err": ""}
        if locales:
            ev.update(kind="locales", names=[_split(x) for x in locales], ls=[], r="")
        else:
            from dateparser.data import language_order
            ev.update(kind="langs", ls=list(languages) if languages is not None else list(language_order), names=[], r=region or "")
        _EVENTS.append(ev)
        try:
            for shortname, loc in orig(self, languages, locales, region, use_given_order, allow_conflicting_locales):
                ev["out"].append([_split(shortname), data_languages(loc)])
                yield shortname, loc
        except ValueError:
            ev["err"] = "ValueError"
            raise
        except Exception as e:  # noqa
            ev["err"] = type(e).__name__
            raise

    LocaleDataLoader._load_data = _load_data


def call_sequence(req):
    """req: {calls: [{kw: {languages|locales, region, use_given_order}, s}]} executed in order in THIS process (one trace)"""
    install()
    del _EVENTS[:]
    from dateparser.date import DateDataParser
    outs = []
    for c in req["calls"]:
        try:
            dd = DateDataParser(**c["kw"]).get_date_data(c["s"])
            outs.append([dd["locale"] or "", dd["date_obj"] is not None])
        except Exception as e:  # noqa
            outs.append(["exc:" + type(e).__name__, False])
    ev = [e for e in _EVENTS if len(e["ls"]) <= 6]          # (autodetection loads all 205 languages: not replayed)
    return {"ev": ev, "outs": outs, "unbound": list(_INST["unbound"]), "dropped": len(_EVENTS) - len(ev)}
