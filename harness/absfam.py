"""Shared pieces of the checks bound to spec/AbsParser.tla (C01, C07, C08, C09, C10):
turning worker results into trace records, and reading TLC's verdicts back."""

from . import core

STD_SKIP = {"toks": [], "sg": {"order": "MDY", "pdf": "", "pdom": "", "pmoy": "", "base": [], "strict": False,
                               "require": [], "rtap": False, "tzoff": 0}}


def abs_records(tid, res):
    """`abs` records (refinement-on-trace) for the probe events of one API call."""
    out = []
    for ev in res.get("probe", []):
        if ev.get("ev") != "absparse":
            continue
        toks = ev.get("toks")
        sg = ev.get("sg") or {}
        skip = toks is None or not sg or not sg.get("base") or bool(ev.get("tzvar")) \
            or not isinstance(ev.get("out"), list) and ev.get("out") not in ("fail", "overflow")
        o = ev.get("out")
        if o == "fail" or o == "overflow":
            o = [o]
        elif not isinstance(o, list):
            o = ["other"]
        rec = {"kind": "abs", "tid": tid, "toks": toks or [], "skip": bool(skip),
               "sg": {"order": sg.get("order", "MDY"), "pdf": sg.get("pdf", ""), "pdom": sg.get("pdom", ""),
                      "pmoy": sg.get("pmoy", ""), "base": sg.get("base", []), "strict": bool(sg.get("strict")),
                      "require": sg.get("require", []), "rtap": bool(sg.get("rtap")),
                      "tzoff": int(sg.get("tzoff", 0))},
               "out": o, "period": ev.get("period", ""), "ds": ev.get("ds", "")}
        out.append(rec)
    return out


def nsp_records(tid, res):
    """`nsp` records (refinement-on-trace of the no-spaces parser) for the probe events of one API call."""
    out = []
    for ev in res.get("probe", []):
        if ev.get("ev") != "nospaces":
            continue
        out.append({"kind": "nsp", "tid": tid, "toks": ev.get("toks", []), "order": ev.get("order", "MDY"), "strict": bool(ev.get("strict")),
                    "require": ev.get("require", []), "eligible": bool(ev.get("eligible")), "skip": bool(ev.get("skip")),
                    "out": ev.get("out"), "period": ev.get("period", ""), "ds": ev.get("ds", "")})
    return out


def api_out(res):
    """Projected API outcome: 7-list, [] for None."""
    return res["out"]


def collect(ctx, tuples, cases, results, module, describe, finding=None):
    """Turn REJECT tuples into violations (prop) / drift (abs).  `finding(case, res, expected)` may
    return a known-finding id."""
    nviol = 0
    listed = {f["id"] for f in core.load_findings(ctx.prop)[0]}
    for t in tuples.get("KNOWN", []):
        _, tid, fid, expected = t[:4]
        if fid in listed:
            ctx.known(fid)
        else:       # the signature matches but the finding is not (or no longer) listed: a violation
            case, res = cases[tid], results[tid]
            ctx.violation(describe(case), "matches the signature of finding %s, which known_findings.json does not list" % fid,
                          expected=expected, observed={"out": res["out"], "exc": res.get("exc")},
                          extra={"full_case": {k: v for k, v in case.items() if not k.startswith("_")}})
    for t in tuples.get("REJECT", []):
        _, tid, kind, verdict, expected = t[:5]
        case, res = cases[tid], results[tid]
        if kind == "abs":
            ctx.note_drift(module if verdict != "nospaces" else "NoSpaces", {"case": describe(case), "model": expected,
                                    "observed": [[e.get("ds"), e.get("out"), e.get("period")] for e in res.get("probe", [])][:6]})
            continue
        fid = finding(case, res, expected) if finding else None
        if fid:
            ctx.known(fid)
            continue
        nviol += 1
        ctx.violation(describe(case), "%s: %s" % (kind, verdict), expected=expected,
                      observed={"out": res["out"], "period": res.get("period"), "exc": res.get("exc"),
                                "off": res.get("off"), "locale": res.get("locale")},
                      extra={"full_case": {k: v for k, v in case.items() if not k.startswith("_")}})
    return nviol


TRACE_CFG = """SPECIFICATION TSpec
POSTCONDITION Consumed
CHECK_DEADLOCK FALSE
"""
