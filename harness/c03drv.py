"""Driver run in a FRESH interpreter per history (C03): executes a sequence of pool calls through the
public API of the snapshot and, after each call, records the concrete outcome, its abstract class and
the projection of the shared state onto the variables of spec/SharedState.tla."""

import datetime
import json
import sys

SETTINGS = {"d": None, "k1": {"CACHE_SIZE_LIMIT": 1}, "k2": {"CACHE_SIZE_LIMIT": 1000, "DATE_ORDER": "DMY"},
            "k3": {"CACHE_SIZE_LIMIT": 2}, "k4": {"RELATIVE_BASE": datetime.datetime(2020, 1, 10, 12, 0)},
            "k5": {"RELATIVE_BASE": datetime.datetime(2000, 5, 5, 8, 30)}, "k6": {"DATE_ORDER": "MDY"}, "k7": {"NORMALIZE": True}}
STR = {"N": {"en": "01/02/2015", "fr": "01/02/2015", "tl": "01/02/2015"},
       "R": {"en": "yesterday", "fr": "hier", "tl": "kahapon"},
       "F": {"en": "32/13/2015", "fr": "32/13/2015", "tl": "32/13/2015"}}
TEXT = {"en": "on 12 January 2010 and yesterday", "fr": "le 12 janvier 2010 et hier", "tl": "12 Enero 2010, kahapon"}


def _dec(st):
    if st is None:
        return None
    out = {}
    for k, v in st.items():
        out[k] = datetime.datetime(*v) if k == "RELATIVE_BASE" and isinstance(v, list) else (list(v) if isinstance(v, list) else v)
    return out


def sdict(k):
    s = SETTINGS[k]
    return dict(s) if s is not None else None


def norm_dt(d):
    if d is None:
        return "None"
    now = datetime.datetime.now()
    dd = d.replace(tzinfo=None)
    if abs((now - datetime.timedelta(days=1)) - dd) < datetime.timedelta(hours=30):
        return "rel-now"
    return dd.isoformat()


def abstract(kind, s, conc):
    if conc.startswith("exc:"):
        return "KeyError" if conc == "exc:KeyError" else conc
    if kind in ("parse", "get"):
        if s == "N":
            return {"2015-01-02T00:00:00": "MD", "2015-02-01T00:00:00": "DM"}.get(conc, "other:" + conc)
        if s == "R":
            return {"rel-now": "rel-now", "2020-01-09T12:00:00": "rel-B1", "2000-05-04T08:30:00": "rel-B2"}.get(
                conc, "rel-leaked-base" if conc.startswith("2010-01-1") else "other:" + conc)
        return "None" if conc == "None" else "other:" + conc
    if kind == "new":
        return "created"
    return "hits" if conc.startswith("[(") else "nohits"


def project():
    from dateparser.conf import Settings
    from dateparser.languages.dictionary import Dictionary
    reg = getattr(Settings, "__registry_dict", {})
    name_of = {}
    order, base = {}, {}
    for key, obj in reg.items():
        ms = obj.__dict__.get("_mod_settings")
        pk = None
        if key == "default":
            pk = "d"
        else:
            for n, sd in SETTINGS.items():
                if sd is not None and ms == sd:
                    pk = n
        if pk:
            name_of[key] = pk
            order[pk] = str(obj.DATE_ORDER)
            rb = obj.RELATIVE_BASE
            base[pk] = "none" if not rb else ("B1" if rb == SETTINGS["k4"]["RELATIVE_BASE"] else "B2" if rb == SETTINGS["k5"]["RELATIVE_BASE"] else "B")
    caches = {}
    for cname in ("_sorted_relative_strings_cache", "_split_relative_regex_cache", "_match_relative_regex_cache",
                  "_sorted_words_cache", "_split_regex_cache"):
        c = getattr(Dictionary, cname, None)
        if c is None:
            caches[cname] = None
            continue
        caches[cname] = [[name_of.get(k, "?" + str(k)[:6]), sorted(v.keys())] for k, v in c.items()]
    return {"order": order, "base": base, "caches": caches, "reg": sorted(name_of.values())}


MONTHS = ["january", "february", "march", "april", "may", "june", "july", "august", "september", "october", "november", "december"]
DAYS = ["monday", "tuesday", "wednesday", "thursday", "friday", "saturday", "sunday"]


def locale_words():
    """words that only SOME regional locales of a language know: (language, locale, key, word, sibling locales without it)"""
    import importlib
    from dateparser.data import language_locale_dict, language_order
    out = []
    for L in language_order:
        info = importlib.import_module("dateparser.data.date_translation_data." + L).info
        ls = info.get("locale_specific") or {}
        for R, d in ls.items():
            for k, v in d.items():
                items = [(k, v)] if isinstance(v, list) else [(k2, v2) for k2, v2 in v.items() if isinstance(v2, list)] if isinstance(v, dict) else []
                for kk, words in items:
                    base = info.get(kk) or (info.get(k) or {}).get(kk, []) if isinstance(info.get(k), dict) else info.get(kk) or []
                    for w in words:
                        if not isinstance(w, str) or w in base:
                            continue
                        sib = [R2 for R2 in language_locale_dict.get(L, []) if R2 != R and w not in (((ls.get(R2) or {}).get(k) or []) if isinstance(v, list)
                                                                                                   else ((ls.get(R2) or {}).get(k) or {}).get(kk, []))]
                        base0 = (info.get(kk) or [""])[0] if isinstance(v, list) else ""
                        out.append({"lang": L, "loc": R, "key": kk, "word": w, "siblings": sib[:6], "base": str(base0), "rel": not isinstance(v, list)})
    return out


def _detect_by_text(text, confidence_threshold=None):
    """a language-detection callback whose answer depends on the text"""
    low = text.lower()
    if "janvier" in low or "mars" in low or "hier" in low:
        return ["fr"]
    if "januar" in low and "january" not in low:
        return ["de"]
    return ["en"]


def _detect_const(text, confidence_threshold=None):
    return ["en"]


DETECT = {"by_text": _detect_by_text, "const": _detect_const}
SHARED = {}          # caller-owned list objects that live across calls and are edited in place between them


def main():
    if len(sys.argv) > 1 and sys.argv[1] == "locale-words":
        json.dump(locale_words(), sys.stdout)
        return
    req = json.load(sys.stdin)
    import dateparser
    from dateparser.date import DateDataParser
    # dateparser.search is imported only when a history calls it: importing it loads EVERY locale into the process-wide
    # loader cache, which would hide everything that depends on the order in which locales are first loaded

    def search_dates(*a, **k):
        from dateparser.search import search_dates as f
        return f(*a, **k)
    insts = {}
    out = []
    for c in req["calls"]:
        kind = c[0]
        args_before = None
        try:
            if kind == "parse":
                _, k, L, s = c
                st = sdict(k)
                langs = [L]
                args_before = (json.dumps(st, sort_keys=True, default=str), list(langs))
                r = dateparser.parse(STR[s][L], languages=langs, settings=st)
                conc = norm_dt(r)
                untouched = args_before == (json.dumps(st, sort_keys=True, default=str), list(langs))
            elif kind == "new":
                _, i, k, L = c
                st = sdict(k)
                langs = [L]
                args_before = (json.dumps(st, sort_keys=True, default=str), list(langs))
                insts[i] = (DateDataParser(languages=langs, settings=st), L)
                conc = "created"
                untouched = args_before == (json.dumps(st, sort_keys=True, default=str), list(langs))
            elif kind == "get":
                _, i, s = c
                p, L = insts[i]
                dd = p.get_date_data(STR[s][L])
                conc = norm_dt(dd["date_obj"])
                untouched = True
            elif kind == "search":
                _, k, L = c
                st = sdict(k)
                langs = [L]
                args_before = (json.dumps(st, sort_keys=True, default=str), list(langs))
                r = search_dates(TEXT[L], languages=langs, settings=st)
                conc = "None" if r is None else "[" + ", ".join("(%r, %s)" % (a, norm_dt(b)) for a, b in r) + "]"
                untouched = args_before == (json.dumps(st, sort_keys=True, default=str), list(langs))
            elif kind == "xnew":          # ["xnew", inst, {settings, languages}]
                _, i, a = c
                st = _dec(a.get("settings"))
                args_before = json.dumps(st, sort_keys=True, default=str)
                insts[i] = (DateDataParser(languages=a.get("languages"), locales=a.get("locales"), region=a.get("region"), settings=st), None)
                conc = "created"
                untouched = args_before == json.dumps(st, sort_keys=True, default=str)
            elif kind == "xget":          # ["xget", inst, string]
                _, i, s_ = c
                dd = insts[i][0].get_date_data(s_)
                conc = "%s|%s|%s" % (norm_dt(dd["date_obj"]), dd["period"], dd["locale"])
                if dd["date_obj"] is not None and dd["date_obj"].tzinfo is not None:
                    conc += "|off=%s" % dd["date_obj"].utcoffset()
                untouched = True
            elif kind == "xparse":        # ["xparse", {s, settings, languages}]
                _, a = c
                st = _dec(a.get("settings"))
                if a.get("settings_ref"):         # the SAME dict object as in earlier calls (edited in place by "xeditd")
                    st = SHARED.setdefault(a["settings_ref"], st)
                langs = list(a["languages"]) if a.get("languages") else None
                args_before = (json.dumps(st, sort_keys=True, default=str), list(langs or []))
                locs = list(a["locales"]) if a.get("locales") else None
                if a.get("locales_ref"):          # the SAME list object as in earlier calls (edited in place by "xedit")
                    locs = SHARED.setdefault(a["locales_ref"], list(a.get("locales") or []))
                if a.get("languages_ref"):
                    langs = SHARED.setdefault(a["languages_ref"], list(a.get("languages") or []))
                r = dateparser.parse(a["s"], languages=langs, locales=locs, region=a.get("region"), settings=st,
                                     detect_languages_function=DETECT.get(a.get("detect")))
                untouched_l = a.get("locales_ref") is not None or locs == (list(a["locales"]) if a.get("locales") else None)
                conc = norm_dt(r) + ("|off=%s" % r.utcoffset() if r is not None and r.tzinfo is not None else "")
                untouched = untouched_l and args_before == (json.dumps(st, sort_keys=True, default=str), list(langs or []))
            elif kind == "xedit":         # ["xedit", name, new content]: the caller edits its own list in place
                _, name, content = c
                SHARED.setdefault(name, [])[:] = list(content)
                conc = "edited"
                untouched = True
            elif kind == "xeditd":        # ["xeditd", name, new settings]: the caller edits its own settings dict in place
                _, name, content = c
                d_ = SHARED.setdefault(name, {})
                d_.clear()
                d_.update(_dec(content))
                conc = "edited"
                untouched = True
            elif kind == "xsearch":
                _, a = c
                st = _dec(a.get("settings"))
                if a.get("adl"):        # with the detected language reported
                    r = search_dates(a["s"], languages=a.get("languages"), settings=st, add_detected_language=True)
                    conc = "None" if r is None else "[" + ", ".join("(%r, %s, %s)" % (x, norm_dt(y), z) for x, y, z in r) + "]"
                else:
                    r = search_dates(a["s"], languages=a.get("languages"), settings=st)
                    conc = "None" if r is None else "[" + ", ".join("(%r, %s)" % (x, norm_dt(y)) for x, y in r) + "]"
                untouched = True
            else:
                raise ValueError(kind)
        except BaseException as e:  # the outcome (value or exception) is what C03 speaks about
            conc = "exc:" + type(e).__name__
            untouched = True
        s = c[3] if kind == "parse" else (c[2] if kind == "get" else "")
        rec = {"call": c, "conc": conc, "abs": abstract(kind, s, conc) if not kind.startswith("x") else "x", "args_untouched": untouched}
        if req.get("observe", True) and not kind.startswith("x"):
            rec["state"] = project()
        out.append(rec)
    json.dump(out, sys.stdout)


if __name__ == "__main__":
    main()
