"""Driver run in a FRESH interpreter per history (C03): executes a sequence of pool calls through the
public API of the snapshot and, after each call, records the concrete outcome, its abstract class and
the projection of the shared state onto the variables of spec/SharedState.tla."""

import datetime
import json
import sys

SETTINGS = {"d": None, "k1": {"CACHE_SIZE_LIMIT": 1}, "k2": {"CACHE_SIZE_LIMIT": 1000, "DATE_ORDER": "DMY"},
            "k3": {"CACHE_SIZE_LIMIT": 2}}
STR = {"N": {"en": "01/02/2015", "fr": "01/02/2015", "tl": "01/02/2015"},
       "R": {"en": "yesterday", "fr": "hier", "tl": "kahapon"},
       "F": {"en": "32/13/2015", "fr": "32/13/2015", "tl": "32/13/2015"}}
TEXT = {"en": "on 12 January 2010 and yesterday", "fr": "le 12 janvier 2010 et hier", "tl": "12 Enero 2010, kahapon"}


def sdict(k):
    s = SETTINGS[k]
    return dict(s) if s is not None else None


def norm_dt(d):
    if d is None:
        return "None"
    now = datetime.datetime.now()
    dd = d.replace(tzinfo=None)
    if abs((now - datetime.timedelta(days=1)) - dd) < datetime.timedelta(hours=30):
        return "rel-now"
    return dd.isoformat()


def abstract(kind, s, conc):
    if conc.startswith("exc:"):
        return "KeyError" if conc == "exc:KeyError" else conc
    if kind in ("parse", "get"):
        if s == "N":
            return {"2015-01-02T00:00:00": "MD", "2015-02-01T00:00:00": "DM"}.get(conc, "other:" + conc)
        if s == "R":
            return "rel-now" if conc == "rel-now" else ("rel-leaked-base" if conc.startswith("2010-01-1") else "other:" + conc)
        return "None" if conc == "None" else "other:" + conc
    if kind == "new":
        return "created"
    return "hits" if conc.startswith("[(") else "nohits"


def project():
    from dateparser.conf import Settings
    from dateparser.languages.dictionary import Dictionary
    reg = getattr(Settings, "__registry_dict", {})
    name_of = {}
    order, base = {}, {}
    for key, obj in reg.items():
        ms = obj.__dict__.get("_mod_settings")
        pk = None
        if key == "default":
            pk = "d"
        else:
            for n, sd in SETTINGS.items():
                if sd is not None and ms == sd:
                    pk = n
        if pk:
            name_of[key] = pk
            order[pk] = str(obj.DATE_ORDER)
            base[pk] = "none" if not obj.RELATIVE_BASE else "B"
    caches = {}
    for cname in ("_sorted_relative_strings_cache", "_split_relative_regex_cache", "_match_relative_regex_cache",
                  "_sorted_words_cache", "_split_regex_cache"):
        c = getattr(Dictionary, cname, None)
        if c is None:
            caches[cname] = None
            continue
        caches[cname] = [[name_of.get(k, "?" + str(k)[:6]), sorted(v.keys())] for k, v in c.items()]
    return {"order": order, "base": base, "caches": caches, "reg": sorted(name_of.values())}


def main():
    req = json.load(sys.stdin)
    import dateparser
    from dateparser.date import DateDataParser
    from dateparser.search import search_dates
    insts = {}
    out = []
    for c in req["calls"]:
        kind = c[0]
        args_before = None
        try:
            if kind == "parse":
                _, k, L, s = c
                st = sdict(k)
                langs = [L]
                args_before = (json.dumps(st, sort_keys=True), list(langs))
                r = dateparser.parse(STR[s][L], languages=langs, settings=st)
                conc = norm_dt(r)
                untouched = args_before == (json.dumps(st, sort_keys=True), list(langs))
            elif kind == "new":
                _, i, k, L = c
                st = sdict(k)
                langs = [L]
                args_before = (json.dumps(st, sort_keys=True), list(langs))
                insts[i] = (DateDataParser(languages=langs, settings=st), L)
                conc = "created"
                untouched = args_before == (json.dumps(st, sort_keys=True), list(langs))
            elif kind == "get":
                _, i, s = c
                p, L = insts[i]
                dd = p.get_date_data(STR[s][L])
                conc = norm_dt(dd["date_obj"])
                untouched = True
            elif kind == "search":
                _, k, L = c
                st = sdict(k)
                langs = [L]
                args_before = (json.dumps(st, sort_keys=True), list(langs))
                r = search_dates(TEXT[L], languages=langs, settings=st)
                conc = "None" if r is None else "[" + ", ".join("(%r, %s)" % (a, norm_dt(b)) for a, b in r) + "]"
                untouched = args_before == (json.dumps(st, sort_keys=True), list(langs))
            else:
                raise ValueError(kind)
        except BaseException as e:  # the outcome (value or exception) is what C03 speaks about
            conc = "exc:" + type(e).__name__
            untouched = True
        s = c[3] if kind == "parse" else (c[2] if kind == "get" else "")
        rec = {"call": c, "conc": conc, "abs": abstract(kind, s, conc), "args_untouched": untouched}
        if req.get("observe", True):
            rec["state"] = project()
        out.append(rec)
    json.dump(out, sys.stdout)


if __name__ == "__main__":
    main()
