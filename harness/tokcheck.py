"""Tokenization / applicability / translation: spec/Tokenize.tla + spec/Translate.tla bound to the code.

E1  P_Tokenize.tla: laws of the split (lossless with formatting kept, capture filter, first match kept whole, digits
    apart) on every text over a small alphabet x every vocabulary from a pool x word spacing.
E2  the same domain replayed into the real `Dictionary` class built from synthetic locales, every result validated
    by T_Tokenize.tla (exhaustive conformance on the small domain).
E3  real languages: public-API calls (DateDataParser.get_date_data with and without date_formats, NORMALIZE on/off)
    on strings made of every language's own words; run-time probes record every Dictionary.split, is_applicable and
    translate; T_Tokenize.tla recomputes each from the projected inputs.
A mismatch is reported as MODEL-DRIFT (it does not decide a property by itself); the hosting check (C13, whose
statement rests on applicability) lists the coverage in its evidence."""

import itertools

from . import core

ALPHA = ["x", "y", "X", "1", " ", ".", ",", "_"]
POOL = ["x", "xy", "y.", "x y", "1x", "y"]
P_CFG = """SPECIFICATION Spec
CONSTANTS
  MaxLen = %d
  PoolSize = %d
INVARIANT Lossless
INVARIANT KeepRefines
INVARIANT FirstMatchIsAToken
INVARIANT DigitsApart
CHECK_DEADLOCK FALSE
"""
T_CFG = "SPECIFICATION TSpec\nPOSTCONDITION Consumed\nCHECK_DEADLOCK FALSE\n"
NOISE = [" ", "  ", ", ", ". ", " - ", "/", ":", " (", ") ", "\t", "_", "+", "..", " ,", " "]
DIGITS = ["0123456789", "٠١٢٣٤٥٦٧٨٩", "०१२३४५६७८९",
          "０１２３４５６７８９"]


def _strings(rng, w, n):
    ms = [m for m in w["months"] if m]
    wd = [x for x in w["weekdays"] if x]
    rel = [x for x in w["rel"] if x]
    sk = [x for x in w.get("skip", []) + w.get("pertain", []) if x]
    out = []
    words = ms + wd + rel + sk
    for _ in range(n):
        parts = []
        for _ in range(rng.randint(1, 5)):
            r = rng.random()
            if r < 0.45 and words:
                x = rng.choice(words)
                x = x.upper() if rng.random() < 0.15 else (x.title() if rng.random() < 0.15 else x)
                parts.append(x)
            elif r < 0.75:
                num = str(rng.choice([1, 5, 12, 28, 2015, 1999, 30, 7]))
                if rng.random() < 0.15:
                    num = num.translate(str.maketrans("0123456789", rng.choice(DIGITS)))
                parts.append(num)
            elif r < 0.85:
                parts.append(rng.choice(["10:30", "2015-03-05", "05.03.2015", "3/4/15", "10h30", "am", "pm", "UTC", "t", "z"]))
            else:
                parts.append(rng.choice(["foo", "xyz", "été", "привет", "今", "q"]))
            parts.append(rng.choice(NOISE) if rng.random() < 0.35 else " ")
        s = "".join(parts[:-1]) if rng.random() < 0.8 else "".join(parts)
        out.append(s[:70])
    return out


def run(ctx, W):
    quick = ctx.quick()
    rng = ctx.rng
    # ---- E1
    mc = ctx.tlc("P_Tokenize", P_CFG % ((3, 5) if quick else (4, 6)), timeout=3000, name="P_Tokenize")
    mc.require_clean()
    for inv in mc.invariant_violated:
        ctx.violation({"tlc_counterexample": mc.counterexample()[-1:]}, "TLC refuted law %s of Tokenize.tla" % inv)
    # ---- E2: the small domain through the real Dictionary class
    maxlen, pool = (3, POOL[:5]) if quick else (4, POOL)
    texts = ["".join(t) for n in range(0, maxlen + 1) for t in itertools.product(ALPHA, repeat=n)]
    if not quick:
        texts = texts[:4681]
    reqs = []
    for bits in range(1 << len(pool)):
        words = [w for i, w in enumerate(pool) if bits >> i & 1]
        for ns in (False, True):
            reqs.append({"words": words, "nospace": ns, "texts": texts})
    syn = core.run_cases(ctx, "harness.toklib", "call_synthetic", reqs, chunk=2)
    recs, origin = [], []
    for rq, rr in zip(reqs, syn):
        for rec in rr:
            if rec.get("kind") == "error":
                ctx.note_drift("Tokenize", {"synthetic_words": rq["words"], "nospace": rq["nospace"], "exception": rec.get("exc")})
                continue
            rec["tid"] = len(recs)
            origin.append(("syn", rec.pop("text", ""), rec.pop("words", []), rec["nospace"], rec["keep"]))
            recs.append(rec)
    n_syn = len(recs)
    # ---- E3: real languages
    order = W["order"]
    cases = []
    per = 6 if quick else 60
    for L in order:
        w = W["langs"][L]
        for s in _strings(rng, w, per):
            norm = rng.random() < 0.6
            st = {"NORMALIZE": norm, "RELATIVE_BASE": [2021, 6, 15, 12, 0, 0, 0]}
            if rng.random() < 0.15:
                st["SKIP_TOKENS"] = rng.choice([["t"], [], ["foo", "t"], ["q", "xyz"]])
            via, name = "languages", L
            if w["locales"] and rng.random() < 0.25:
                via, name = "locales", rng.choice(w["locales"])
            c = {"s": s, "via": via, "name": name, "settings": st}
            if rng.random() < 0.3:
                c["formats"] = [rng.choice(["%d %B %Y", "%A, %d %B %Y", "%B %d", "%Y-%m-%d"])]
            cases.append(c)
    res = core.run_cases(ctx, "harness.toklib", "call_tok", cases, chunk=20)
    unbound = sorted({u for r in res for u in r["unbound"]})
    skipped = sum(r["skipped"] for r in res)
    for c, r in zip(cases, res):
        for rec in r["records"]:
            rec["tid"] = len(recs)
            origin.append(("real", c))
            recs.append(rec)
    tuples, gen = core.validate_traces(ctx, "T_Tokenize", T_CFG, recs, shards=16)
    nrej = 0
    for t in tuples["REJECT"]:
        nrej += 1
        if nrej > 12:
            continue
        tid = t[1]
        o = origin[tid]
        r = recs[tid]
        if o[0] == "syn":
            ctx.note_drift("Tokenize", {"synthetic_text": o[1], "words": o[2], "nospace": o[3], "keep": o[4], "what": t[3],
                                        "code": ["".join(map(chr, x)) for x in r.get("out", [])],
                                        "model": ["".join(map(chr, x)) for x in t[4]] if isinstance(t[4], (list, tuple)) else t[4]})
        else:
            c = o[1]
            m = t[4]
            if r["kind"] == "split":
                code, model = ["".join(map(chr, x)) for x in r["out"]], ["".join(map(chr, x)) for x in m]
            elif r["kind"] == "translate":
                code, model = "".join(map(chr, r["out"])), "".join(map(chr, m))
            else:
                code, model = r["out"], m
            ctx.note_drift("Tokenize" if r["kind"] != "translate" else "Translate",
                           {"call": "DateDataParser(%s=[%r], settings=%r).get_date_data(%r, date_formats=%r)" % (c["via"], c["name"], c["settings"], c["s"], c.get("formats")),
                            "event": r["kind"], "keep_formatting": r.get("keep"), "code": code, "model": model})
    kinds = {k: sum(1 for r in recs[n_syn:] if r["kind"] == k) for k in ("split", "applicable", "translate")}
    if unbound:
        ctx.notes.append({"tokenize_probe_unbound": unbound})
    return {"model_states": mc.distinct, "synthetic_records": n_syn, "synthetic_domain": "texts over %d characters up to length %d x %d vocabularies x word spacing x keep_formatting" % (len(ALPHA), maxlen, 1 << len(pool)),
            "real_calls": len(cases), "real_events": kinds, "events_outside_projection": skipped, "rejected": nrej, "probe_unbound": unbound,
            "languages": len(order), "parsed_calls": sum(1 for r in res if r["parsed"])}
