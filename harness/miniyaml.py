"""A reader for the YAML subset used by dateparser's supplementary language data (no YAML library
exists in this sandbox): block mappings and sequences, one-entry mappings as sequence items, flow
sequences, single/double quoted and plain scalars, integers, comments.  Exposed with the interface the
repository's generator uses: `RoundTripLoader(stream).get_data()`.  Its faithfulness is established by
the C16 check itself: the generator run on top of it must reproduce the shipped modules byte for byte."""

import re
from collections import OrderedDict

_INT = re.compile(r"^[-+]?[0-9]+$")


class YamlError(ValueError):
    pass


def _strip_comment(line):
    out = []
    q = None
    i = 0
    while i < len(line):
        ch = line[i]
        if q:
            out.append(ch)
            if q == '"' and ch == "\\" and i + 1 < len(line):
                out.append(line[i + 1])
                i += 1
            elif ch == q:
                if q == "'" and i + 1 < len(line) and line[i + 1] == "'":
                    out.append("'")
                    i += 1
                else:
                    q = None
        elif ch in "'\"" and (i == 0 or line[i - 1] in " [,:-"):
            q = ch
            out.append(ch)
        elif ch == "#" and (i == 0 or line[i - 1] in " \t"):
            break
        else:
            out.append(ch)
        i += 1
    return "".join(out).rstrip()


def _unquote_double(s):
    out = []
    i = 0
    esc = {"n": "\n", "t": "\t", "\\": "\\", '"': '"', "/": "/", "0": "\0", "r": "\r", " ": " "}
    while i < len(s):
        ch = s[i]
        if ch == "\\" and i + 1 < len(s):
            nx = s[i + 1]
            if nx in esc:
                out.append(esc[nx])
                i += 2
                continue
            if nx == "x":
                out.append(chr(int(s[i + 2:i + 4], 16)))
                i += 4
                continue
            if nx == "u":
                out.append(chr(int(s[i + 2:i + 6], 16)))
                i += 6
                continue
            if nx == "U":
                out.append(chr(int(s[i + 2:i + 10], 16)))
                i += 10
                continue
            raise YamlError("bad escape in %r" % s)
        out.append(ch)
        i += 1
    return "".join(out)


def _scalar(tok):
    tok = tok.strip()
    if tok == "" or tok in ("~", "null"):
        return None
    if tok[0] == '"':
        if tok[-1] != '"' or len(tok) < 2:
            raise YamlError("unterminated double quote: %r" % tok)
        return _unquote_double(tok[1:-1])
    if tok[0] == "'":
        if tok[-1] != "'" or len(tok) < 2:
            raise YamlError("unterminated single quote: %r" % tok)
        return tok[1:-1].replace("''", "'")
    if tok[0] == "[":
        return _flow_seq(tok)
    if _INT.match(tok):
        return int(tok)
    if tok in ("true", "True"):
        return True
    if tok in ("false", "False"):
        return False
    return tok


def _flow_seq(tok):
    if tok[-1] != "]":
        raise YamlError("unterminated flow sequence: %r" % tok)
    inner = tok[1:-1]
    items = []
    cur = []
    q = None
    i = 0
    while i < len(inner):
        ch = inner[i]
        if q:
            cur.append(ch)
            if q == '"' and ch == "\\" and i + 1 < len(inner):
                cur.append(inner[i + 1])
                i += 1
            elif ch == q:
                if q == "'" and i + 1 < len(inner) and inner[i + 1] == "'":
                    cur.append("'")
                    i += 1
                else:
                    q = None
        elif ch in "'\"" and "".join(cur).strip() == "":
            q = ch
            cur.append(ch)
        elif ch == ",":
            items.append("".join(cur))
            cur = []
        else:
            cur.append(ch)
        i += 1
    if "".join(cur).strip() != "" or items:
        items.append("".join(cur))
    return [_scalar(x) for x in items if x.strip() != ""]


def _split_key(text):
    """split 'key: value' at the first ': ' (or a trailing ':') outside quotes -> (key, value | None) or None"""
    t = text
    if t and t[0] in "'\"":
        q = t[0]
        i = 1
        while i < len(t):
            if q == '"' and t[i] == "\\":
                i += 2
                continue
            if t[i] == q:
                if q == "'" and i + 1 < len(t) and t[i + 1] == "'":
                    i += 2
                    continue
                break
            i += 1
        rest = t[i + 1:].lstrip()
        if rest.startswith(":") and (len(rest) == 1 or rest[1] in " \t"):
            return _scalar(t[:i + 1]), rest[1:].strip() or None
        return None
    for m in re.finditer(r":(?=\s|$)", t):
        key = t[:m.start()].rstrip()
        if key == "":
            continue
        return _scalar_key(key), t[m.end():].strip() or None
    return None


def _scalar_key(k):
    v = _scalar(k)
    return v


class _Parser:
    def __init__(self, text):
        self.lines = []
        for raw in text.splitlines():
            line = _strip_comment(raw.rstrip("\n"))
            if line.strip() == "" or line.strip() == "---":
                continue
            indent = len(line) - len(line.lstrip(" "))
            if "\t" in line[:indent + 1]:
                raise YamlError("tab indentation")
            self.lines.append((indent, line.strip()))
        self.i = 0

    def parse(self):
        if not self.lines:
            return None
        node = self.block(self.lines[0][0])
        if self.i != len(self.lines):
            raise YamlError("trailing content at %r" % (self.lines[self.i],))
        return node

    def block(self, indent):
        ind, text = self.lines[self.i]
        if text.startswith("- ") or text == "-":
            return self.seq(ind)
        return self.map(ind)

    def seq(self, indent):
        out = []
        while self.i < len(self.lines):
            ind, text = self.lines[self.i]
            if ind != indent or not (text.startswith("- ") or text == "-"):
                if ind > indent:
                    raise YamlError("bad indentation in sequence at %r" % text)
                break
            body = text[1:].strip()
            self.i += 1
            if body == "":
                out.append(self.nested(indent))
                continue
            kv = _split_key(body) if not body.startswith("[") else None
            if kv is not None:
                key, val = kv
                m = OrderedDict()
                if val is None:
                    m[key] = self.nested(indent + 2)
                else:
                    m[key] = _scalar(val)
                # further entries of the same mapping, indented under the dash
                while self.i < len(self.lines) and self.lines[self.i][0] == indent + 2 and not self.lines[self.i][1].startswith("- "):
                    k2 = _split_key(self.lines[self.i][1])
                    if k2 is None:
                        raise YamlError("expected mapping entry at %r" % self.lines[self.i][1])
                    self.i += 1
                    if k2[0] in m:
                        raise YamlError("duplicate key %r in mapping" % (k2[0],))
                    m[k2[0]] = self.nested(indent + 2) if k2[1] is None else _scalar(k2[1])
                out.append(m)
            else:
                out.append(_scalar(body))
        return out

    def nested(self, parent_indent):
        if self.i >= len(self.lines):
            return None
        ind, text = self.lines[self.i]
        if ind > parent_indent or (ind == parent_indent and (text.startswith("- ") or text == "-")):
            return self.block(ind)
        return None

    def map(self, indent):
        out = OrderedDict()
        while self.i < len(self.lines):
            ind, text = self.lines[self.i]
            if ind != indent:
                if ind > indent:
                    raise YamlError("bad indentation in mapping at %r" % text)
                break
            if text.startswith("- "):
                break
            kv = _split_key(text)
            if kv is None:
                raise YamlError("expected 'key: value' at %r" % text)
            key, val = kv
            self.i += 1
            if key in out:
                # ruamel's RoundTripLoader (allow_duplicate_keys False) raises DuplicateKeyError
                raise YamlError("duplicate key %r in mapping" % (key,))
            if val is None:
                out[key] = self.nested(indent)
            else:
                out[key] = _scalar(val)
        return out


def load(text):
    return _Parser(text).parse()


class RoundTripLoader:
    def __init__(self, stream):
        self._text = stream.read() if hasattr(stream, "read") else str(stream)

    def get_data(self):
        return load(self._text)
