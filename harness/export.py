"""Exports of data from the tree under test (runs inside a worker: imports from the snapshot)."""

import importlib


def export_locales(_req=None):
    """language -> {date_order, no_word_spacing, locales: {locale: date_order_after_overlay}}"""
    from dateparser.data import language_locale_dict, language_order
    out = {"language_order": list(language_order), "langs": {}}
    for lang in language_order:
        info = importlib.import_module("dateparser.data.date_translation_data." + lang).info
        ent = {"date_order": info.get("date_order", ""),
               "no_word_spacing": info.get("no_word_spacing", "False"),
               "splitter": info.get("sentence_splitter_group", 1),
               "locales": {}}
        spec = info.get("locale_specific", {})
        for loc in language_locale_dict.get(lang, []):
            ent["locales"][loc] = spec.get(loc, {}).get("date_order", ent["date_order"])
        # regional overlays: which locales add words of their own, and whether one of those words is listed in the
        # base language under ANOTHER key (fr-MA 'mar' = March, fr 'mar' = Tuesday)
        base_forms = {}
        for k, v in info.items():
            if isinstance(v, list):
                for w in v:
                    if isinstance(w, str):
                        base_forms.setdefault(w.lower(), set()).add(k)
        ent["overlays"] = {}
        for loc, ov in spec.items():
            words = [(k, w) for k, v in ov.items() if isinstance(v, list) for w in v if isinstance(w, str)]
            if words:
                ent["overlays"][loc] = {"collides": any(base_forms.get(w.lower(), {k}) - {k} for k, w in words), "n": len(words)}
        out["langs"][lang] = ent
    return out


def export_defaults(_req=None):
    from dateparser_data.settings import settings
    from dateparser.parser import date_order_chart, _time_parser
    d = {k: (v if not isinstance(v, (list, tuple)) else list(v)) for k, v in settings.items()}
    return {"settings": d, "date_order_chart": dict(date_order_chart),
            "time_directives": list(_time_parser.time_directives)}


def export_vocab(req):
    """Ordered vocabulary of one language: info dict as shipped (JSON-able)."""
    lang = req["lang"]
    info = importlib.import_module("dateparser.data.date_translation_data." + lang).info
    return info


def export_tz(_req=None):
    """The loaded tz table: [(name, pattern, flags, offset_seconds)] + search regex texts."""
    from dateparser import timezone_parser as T
    rows = []
    for name, info in T._tz_offsets:
        rows.append([name, info["regex"].pattern, int(info["regex"].flags),
                     int(info["offset"].total_seconds())])
    return {"rows": rows, "search": T._search_regex.pattern, "search_ic": T._search_regex_ignorecase.pattern}
