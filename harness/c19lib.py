"""Worker side of C19: fault enumeration on a PRIVATE copy of the package (made from the per-run
snapshot), runtime probes around `open` and `pickle` inside dateparser.timezone_parser."""

import builtins
import os
import pickle
import shutil
import subprocess
import sys
import tempfile

_S = {}


class _Kill(BaseException):
    """simulated death of the importing process at a write point"""


def worker_init():
    snap = sys.path[0]
    priv = tempfile.mkdtemp(prefix="pkg_", dir=os.path.dirname(snap))
    shutil.copytree(os.path.join(snap, "dateparser"), os.path.join(priv, "dateparser"))
    sys.path.insert(0, priv)
    cache = os.path.join(priv, "dateparser", "data", "dateparser_tz_cache.pkl")
    _S["priv"] = priv
    _S["cache"] = cache
    _S["shipped"] = open(cache, "rb").read() if os.path.exists(cache) else b""
    import dateparser.timezone_parser as T
    _S["T"] = T
    _S["loader"] = getattr(T, "_load_offsets", None)
    parts = []
    _S["ref"] = project_table(list(T.build_tz_offsets(parts)))
    _S["events"] = []
    install_probes(T)


def project_table(rows):
    return [(n, i["regex"].pattern, int(i["regex"].flags), int(i["offset"].total_seconds())) for n, i in rows]


def install_probes(T):
    ev = _S["events"]

    class W:
        def __init__(self, f, p):
            self.f, self.p = f, p

        def write(self, b):
            k = _S.get("kill_after")
            if k is not None and _S["writes"] >= k:
                ev.append({"ev": "crash", "p": self.p})
                raise _Kill()
            hook = _S.get("pause_hook")
            if hook and _S["writes"] == _S.get("pause_after"):
                _S["pause_hook"] = None
                hook()
            n = self.f.write(b)
            _S["writes"] += 1
            ev.append({"ev": "write", "p": self.p, "n": len(b)})
            return n

        def __enter__(self):
            return self

        def __exit__(self, *a):
            self.f.close()
            if a[0] is None:
                ev.append({"ev": "close", "p": self.p})
            return False

        def __getattr__(self, name):
            return getattr(self.f, name)

    def t_open(path, mode="r", *a, **k):
        p = _S.get("proc", "i1")
        if "r" in mode and "b" in mode and os.path.basename(str(path)).endswith(".pkl"):
            try:
                f = builtins.open(path, mode, *a, **k)
            except FileNotFoundError:
                ev.append({"ev": "open_r", "p": p, "ok": False})
                raise
            ev.append({"ev": "open_r", "p": p, "ok": True})
            return f
        if "w" in mode and "b" in mode:
            f = builtins.open(path, mode, *a, **k)
            _S["writes"] = 0
            ev.append({"ev": "open_w", "p": p, "path": os.path.basename(str(path))})
            return W(f, p)
        return builtins.open(path, mode, *a, **k)

    class P:
        UnpicklingError = pickle.UnpicklingError
        PickleError = pickle.PickleError
        HIGHEST_PROTOCOL = pickle.HIGHEST_PROTOCOL

        @staticmethod
        def load(f, *a, **k):
            p = _S.get("proc", "i1")
            try:
                r = pickle.load(f, *a, **k)
            except BaseException as e:
                ev.append({"ev": "load", "p": p, "cls": type(e).__name__})
                _S["pending_rebuild"] = True
                raise
            ev.append({"ev": "load", "p": p, "cls": ""})
            return r

        @staticmethod
        def dump(obj, f, *a, **k):
            return pickle.dump(obj, f, *a, **k)

        def __getattr__(self, name):
            return getattr(pickle, name)

    T.open = t_open
    T.pickle = P()


def set_file(state):
    c = _S["cache"]
    for extra in os.listdir(os.path.dirname(c)):
        if extra.startswith("dateparser_tz_cache.pkl") and extra != "dateparser_tz_cache.pkl":
            os.remove(os.path.join(os.path.dirname(c), extra))
    if state["kind"] == "missing":
        if os.path.exists(c):
            os.remove(c)
        return "missing"
    if state["kind"] == "prefix":
        k = state["k"]
        data = _S["shipped"][:k]
        open(c, "wb").write(data)
        return "empty" if k == 0 else ("complete" if k >= len(_S["shipped"]) else "trunc")
    if state["kind"] == "garbage":
        open(c, "wb").write(bytes.fromhex(state["hex"]))
        return "garbage"
    raise ValueError(state)


def file_state():
    c = _S["cache"]
    if not os.path.exists(c):
        return "missing"
    data = open(c, "rb").read()
    if not data:
        return "empty"
    try:
        obj = pickle.loads(data)
        h, rows, r1, r2 = obj
        if project_table(rows) == _S["ref"]:
            return "complete"
        return "other-table"
    except Exception:
        return "damaged"


def table_state():
    T = _S["T"]
    try:
        return "same" if project_table(T._tz_offsets) == _S["ref"] else "differs"
    except Exception as e:
        return "unreadable:" + type(e).__name__


def run_loader(proc="i1"):
    """one run of the real loader in this process; returns outcome class ('' = returned)"""
    T = _S["T"]
    _S["proc"] = proc
    n0 = len(_S["events"])
    try:
        _S["loader"](T.CACHE_PATH, None)
        out = ""
    except _Kill:
        out = "killed"
    except BaseException as e:
        out = type(e).__name__
    # the rebuild step is silent in the code (no open / pickle call): it is logged when the writer opens
    evs = _S["events"][n0:]
    fixed = []
    for e in evs:
        if e["ev"] == "open_w" and fixed and fixed[-1]["ev"] == "load" and fixed[-1]["cls"] == "":
            # the content unpickled but was not the expected 4-tuple: the unpacking assignment raised
            fixed[-1]["cls"] = "ValueError"
        if e["ev"] == "open_w" and not (fixed and fixed[-1]["ev"] == "rebuild"):
            fixed.append({"ev": "rebuild", "p": e["p"]})
        fixed.append(e)
    _S["events"][n0:] = fixed
    return out


def case(req):
    """req: {kind: prefix|missing|garbage|kill|race|subprocess, ...}"""
    if _S.get("loader") is None:
        return {"unbound": True}
    del _S["events"][:]
    _S["kill_after"] = None
    _S["pause_hook"] = None
    kind = req["kind"]
    res = {"kind": kind}
    if kind in ("prefix", "missing", "garbage"):
        init = set_file(req)
        res["init"] = init
        res["first"] = run_loader("i1")
        res["table"] = table_state()
        res["post"] = file_state()
        res["events"] = list(_S["events"])
        del _S["events"][:]
        res["second"] = run_loader("i1")       # a second load must find a complete file
        res["events2"] = list(_S["events"])
        res["post2"] = file_state()
        return res
    if kind == "kill":
        init = set_file({"kind": "missing"})
        res["init"] = init
        _S["kill_after"] = req["after_writes"]
        res["crasher"] = run_loader("c1")
        _S["kill_after"] = None
        res["mid"] = file_state()
        res["first"] = run_loader("i1")
        res["table"] = table_state()
        res["post"] = file_state()
        res["events"] = list(_S["events"])
        return res
    if kind == "race":
        # importer i1 starts from a damaged/missing file; while it is inside its write (after
        # `pause_after` write calls) a second importer (a real subprocess importing the package copy)
        # runs to completion; then i1 resumes.
        init = set_file(req["start"])
        res["init"] = init
        env = dict(os.environ)
        env["PYTHONPATH"] = _S["priv"]
        box = {}

        def hook():
            p = subprocess.run([sys.executable, "-c",
                                "import dateparser, sys; from dateparser.timezone_parser import _tz_offsets; print(len(_tz_offsets))"],
                               env=env, stdout=subprocess.PIPE, stderr=subprocess.PIPE, text=True, timeout=120)
            box["rc"] = p.returncode
            box["err"] = p.stderr.strip().splitlines()[-1][:200] if p.stderr.strip() else ""
            box["mid"] = file_state()

        _S["pause_after"] = req["pause_after"]
        _S["pause_hook"] = hook
        res["first"] = run_loader("i1")
        res["second_rc"] = box.get("rc", "not-run")
        res["second_err"] = box.get("err", "")
        res["post"] = file_state()
        res["events"] = list(_S["events"])
        res["third"] = run_loader("i1")          # a later, non-overlapping import repairs whatever the race left
        res["table"] = table_state()
        res["post3"] = file_state()
        return res
    if kind == "subprocess":
        init = set_file(req["start"])
        res["init"] = init
        env = dict(os.environ)
        env["PYTHONPATH"] = _S["priv"]
        env.update(req.get("env") or {})      # e.g. BUILD_TZ_CACHE (the documented way to regenerate the cache), PYTHONOPTIMIZE
        p = subprocess.run([sys.executable, "-c", "import dateparser; print(len(dateparser.timezone_parser._tz_offsets))"],
                           env=env, stdout=subprocess.PIPE, stderr=subprocess.PIPE, text=True, timeout=120)
        res["rc"] = p.returncode
        res["err"] = p.stderr.strip().splitlines()[-1][:200] if p.stderr.strip() else ""
        res["n"] = p.stdout.strip()
        res["post"] = file_state()
        return res
    raise ValueError(kind)
