"""Worker side of C05 / C06: exhaustive walk over one language's vocabulary (and its locales')."""

import datetime

MKEYS = ["january", "february", "march", "april", "may", "june", "july", "august", "september", "october", "november", "december"]
WKEYS = ["monday", "tuesday", "wednesday", "thursday", "friday", "saturday", "sunday"]


_PRISTINE = {}


def pristine_info(lang):
    """the language's shipped data, read from its file again under a private module name: the vocabulary the properties
    quantify over is DATA, and must not be taken from objects that the process under test has had in its hands"""
    if lang not in _PRISTINE:
        import importlib.util
        import os
        import dateparser.data.date_translation_data as pkg
        fn = os.path.join(os.path.dirname(pkg.__file__), lang + ".py")
        spec = importlib.util.spec_from_file_location("_verif_pristine_" + lang.replace("-", "_"), fn)
        mod = importlib.util.module_from_spec(spec)
        spec.loader.exec_module(mod)
        _PRISTINE[lang] = mod.info
    return _PRISTINE[lang]


def _combine(primary, supplementary):
    """Locale data = language data overlaid with the locale's own entries (lists are appended, dicts merged, scalars
    replaced) - the model's reading of utils.combine_dicts, on pristine data"""
    out = {}
    for k, v in primary.items():
        if k in supplementary:
            if isinstance(v, list):
                out[k] = list(v) + list(supplementary[k])
            elif isinstance(v, dict):
                out[k] = _combine(v, supplementary[k])
            else:
                out[k] = supplementary[k]
        else:
            out[k] = v
    for k, v in supplementary.items():
        if k not in primary:
            out[k] = v
    return out


def model_info(lang, shortname):
    base = pristine_info(lang)
    info = _combine(base, (base.get("locale_specific") or {}).get(shortname, {}))
    info.pop("locale_specific", None)
    return info


def _assignments(info, normalize):
    """form -> sequence of keys written into the dictionary for that form, in construction order
    (languages/dictionary.py:75-108; :333-352 for the normalised dictionary)"""
    # the token lists of dictionary.py:7-43 are part of the MODEL (Vocabulary.tla's construction order), not read from
    # the tree: a tree that adds a parser token shadowing a listed name must not thereby shrink the property's domain
    ALWAYS_KEEP_TOKENS = ["+", ":", ".", " ", "-", "/"]
    PARSER_KNOWN_TOKENS = ["am", "pm", "UTC", "GMT", "Z"]
    KNOWN_WORD_TOKENS = WKEYS + MKEYS + ["decade", "year", "month", "week", "day", "hour", "minute", "second", "ago", "in", "am", "pm"]
    from dateparser.utils import normalize_unicode
    writes = []          # (form, key)
    for w in info.get("skip", []):
        writes.append((w.lower(), ""))
    for w in info.get("pertain", []):
        writes.append((w.lower(), ""))
    for k in KNOWN_WORD_TOKENS:
        for w in info.get(k, []) if k in info else []:
            writes.append((w.lower(), k))
    for t in ALWAYS_KEEP_TOKENS:
        writes.append((t, t))
    for t in PARSER_KNOWN_TOKENS:
        writes.append((t.lower(), t))
    for k, ws in info.get("relative-type", {}).items():
        for w in ws:
            writes.append((w.lower(), k))
    plain = {}
    order = []
    for f, k in writes:
        if f not in plain:
            order.append(f)
        plain.setdefault(f, []).append(k)
    if not normalize:
        return plain
    final = {f: ks[-1] for f, ks in plain.items()}
    norm = {}
    conflicts = []
    for f in order:
        n = normalize_unicode(f)
        if f != n and n in final:
            conflicts.append(f)
        else:
            norm.setdefault(n, []).append(final[f])
    sp = info.get("skip", []) + info.get("pertain", [])
    for f in conflicts:
        if f in sp:
            norm.setdefault(normalize_unicode(f), []).append(final[f])
    # every listing counts as a meaning, also the ones the conflict rule dropped
    meanings = {}
    for f, ks in plain.items():
        meanings.setdefault(normalize_unicode(f), []).extend(ks)
    return norm, meanings


def walk_language(req):
    """req: {lang, days, years, refs, quick} -> list of records for every month / weekday name of the
    language and of each of its locales, NORMALIZE on and off"""
    from dateparser.data import language_locale_dict
    from dateparser.date import DateDataParser
    from dateparser.languages.loader import LocaleDataLoader
    from dateparser.utils import normalize_unicode
    lang = req["lang"]
    loader = LocaleDataLoader()
    targets = [("languages", lang)] + [("locales", loc) for loc in language_locale_dict.get(lang, [])]
    if req.get("targets") is not None:
        targets = [t for t in targets if t[1] in req["targets"]]
    if req.get("order"):          # the order in which this (fresh) process loads the targets
        byname = {t[1]: t for t in targets}
        targets = [byname[n] for n in req["order"] if n in byname]
    out = []
    lang_words = None
    if req.get("targets") is not None and req.get("quick"):
        li = model_info(lang, lang)
        lang_words = {(k, w) for k in MKEYS + WKEYS for w in li.get(k, [])}
    for kind, name in targets:
        try:
            loc = loader.get_locale(name)
        except Exception as e:
            out.append({"target": name, "error": type(e).__name__})
            continue
        info = model_info(lang, name)
        words = [(k, i + 1, "month", w) for i, k in enumerate(MKEYS) for w in info.get(k, [])] + \
                [(k, i, "weekday", w) for i, k in enumerate(WKEYS) for w in info.get(k, [])]
        wset = {(k, w) for k, _, _, w in words}
        if kind == "languages":
            lang_words = wset
        elif wset == lang_words and req.get("quick"):
            # quick tier: a locale that adds no names of its own is covered by a sample only
            words = words[:: max(1, len(words) // 6)]
        for normalize in (True, False):
            st0 = {"NORMALIZE": normalize}
            # DOMAIN ("listed with a single meaning"): the name AS LISTED (lower-cased) stands under exactly one key of the
            # vocabulary.  Two different listed names that only NORMALIZE folds together (az 'ça' Tuesday / 'ca' Thursday)
            # are each single-meaning; which of them the normalised dictionary keeps is the behaviour under test.
            plain_meanings = _assignments(info, False)
            if normalize:
                dic, _ = _assignments(info, True)
            else:
                dic = plain_meanings
            meanings = plain_meanings
            try:
                real = loc._get_dictionary(_settings(st0))._dictionary
            except Exception:
                real = None
            parsers = {}
            for key, val, wk, w in words:
                form = w.lower()
                if normalize:
                    form = normalize_unicode(form)
                assign = meanings.get(w.lower(), [])
                dv = "<unobserved>"
                if real is not None:
                    v = real.get(form, "<absent>")
                    dv = "" if v is None else v
                resolved = dic.get(form, [])
                rec = {"target": name, "tk": kind, "word": w, "key": key, "val": val, "kind": wk, "norm": normalize,
                       "assign": assign, "writes": resolved, "dictval": dv, "runs": []}
                if wk == "month":
                    probes = [(d, y) for d in req["days"] for y in req["years"]]
                    if kind == "locales" and len(probes) > 8:
                        probes = probes[:: max(1, len(probes) // 8)]
                else:
                    probes = req["refs"] if kind == "languages" else req["refs"][:: max(1, len(req["refs"]) // 4)]
                for pr in probes:
                    if wk == "month":
                        d, y = pr
                        s = "%d %s %d" % (d, w, y)
                        base = [2021, 6, 15, req.get("base_hour", 12), 0, 0, 0]
                    else:
                        s = w
                        base = pr
                    st = dict(st0)
                    st["RELATIVE_BASE"] = datetime.datetime(*base)
                    pk = (normalize, tuple(base))
                    try:
                        p = parsers.get(pk)
                        if p is None:
                            if req.get("search_first") and kind == "languages":
                                # the same settings reach the language through search_dates first (which works on a
                                # normalised copy of the text): what it leaves behind must not serve the parser
                                try:
                                    from dateparser.search import search_dates
                                    search_dates("abc %s. def" % s, languages=[name], settings=dict(st))
                                except Exception:  # noqa
                                    pass
                            p = parsers[pk] = DateDataParser(**{kind: [name]}, settings=st)
                        if pr is probes[0] or pr is probes[-1]:
                            # the string's look-alikes (the name without its accents, in another letter case) parsed on
                            # the same parser right before it: what they leave behind must not serve the listed name
                            plain_w = normalize_unicode(w)
                            for alike in ([plain_w] if plain_w != w else []) + ([w.upper()] if pr is probes[-1] and w.upper() != w else []):
                                try:
                                    p.get_date_data(s.replace(w, alike))
                                except Exception:  # noqa
                                    pass
                        dd = p.get_date_data(s)
                        d_ = dd["date_obj"]
                        o = [] if d_ is None else [d_.year, d_.month, d_.day, d_.hour, d_.minute, d_.second, d_.microsecond]
                        ex = ""
                    except Exception as e:  # noqa
                        o, ex = [], type(e).__name__
                    rec["runs"].append({"s": s, "d": pr[0] if wk == "month" else 0, "y": pr[1] if wk == "month" else 0,
                                        "base": base, "out": o, "exc": ex})
                out.append(rec)
    return out


def _settings(d):
    from dateparser.conf import settings
    return settings.replace(mod_settings=d, **d)


# --------------------------------------------------------------------------- C06
import re as _re

_NUMGROUP = _re.compile(r"\(\\d\+(\[\.,\]\?\\d\*)?\)")


def _instantiate(pattern, numtxt):
    """literal instance of a relative-type-regex pattern of the shape 'text + one number group', or None"""
    m = _NUMGROUP.findall(pattern)
    if len(_NUMGROUP.findall(pattern)) != 1:
        return None
    decimal_ok = bool(_NUMGROUP.search(pattern).group(1))
    if not decimal_ok and not numtxt.isdigit():
        return None
    s = _NUMGROUP.sub("\0", pattern)
    s = s.replace("\\s*", "").replace("\\s+", " ").replace("\\.", ".").replace("\\-", "-").replace("\\ ", " ")
    s = _re.sub(r"(\w)\?", "", s)            # an optional trailing letter: instantiate without it
    if _re.search(r"[\[\]\(\)\|\*\+\?\{\}\^\$\\]", s):
        return None
    return s.replace("\0", numtxt)


_CANON = _re.compile(r"^(in )?(\\1|\d+) (decade|year|month|week|day|hour|minute|second)( ago)?$")


def _canon(key, numtxt):
    """abstract phrase of a canonical English key such as '\\1 day ago' / 'in 1 week'"""
    m = _CANON.match(key)
    if not m:
        return None
    n = m.group(2)
    if n == "\\1":
        n = numtxt
    if "." in n or "," in n:
        a, b = _re.split(r"[.,]", n)
        den = 10 ** len(b) if b else 1
        num = int(a) * den + (int(b) if b else 0)
    else:
        num, den = int(n), 1
    dir_ = "in" if m.group(1) else ("ago" if m.group(4) else "none")
    return {"terms": [{"u": m.group(3), "num": num, "den": den}], "dir": dir_, "text": key.replace("\\1", numtxt)}


def walk_relative(req):
    """req: {lang, counts, bases} -> records for every fixed relative phrase and every instantiable counted
    pattern of the language and of its locales"""
    from dateparser.data import language_locale_dict
    from dateparser.date import DateDataParser
    from dateparser.languages.loader import LocaleDataLoader
    from dateparser.utils import normalize_unicode
    lang = req["lang"]
    loader = LocaleDataLoader()
    targets = [("languages", lang)] + [("locales", loc) for loc in language_locale_dict.get(lang, [])]
    if req.get("targets") is not None:
        targets = [t for t in targets if t[1] in req["targets"]]
    out = []
    en_cache = {}
    lang_sig = None

    def run(kind, name, s, base, normalize=None):
        st = {"RELATIVE_BASE": datetime.datetime(*base), "TIMEZONE": "UTC"}
        if normalize is not None:
            st["NORMALIZE"] = normalize
        try:
            dd = DateDataParser(**{kind: [name]}, settings=st).get_date_data(s)
            d_ = dd["date_obj"]
            return ([] if d_ is None else [d_.year, d_.month, d_.day, d_.hour, d_.minute, d_.second, d_.microsecond]), dd["period"] or "", ""
        except Exception as e:  # noqa
            return [], "", type(e).__name__

    for kind, name in targets:
        try:
            loader.get_locale(name)
            info = model_info(lang, name)
        except Exception as e:
            out.append({"target": name, "error": type(e).__name__})
            continue
        fixed = [(k, w) for k, ws in info.get("relative-type", {}).items() for w in ws]
        pats = [(k, p) for k, ps in info.get("relative-type-regex", {}).items() for p in ps]
        sig = (tuple(fixed), tuple(pats))
        if kind == "languages":
            lang_sig = sig
        elif sig == lang_sig and req.get("quick"):
            fixed, pats = fixed[::5], pats[::7]
        meanings = _assignments(info, False)          # the phrase as listed (see walk_language on the domain)
        items = []
        for k, w in fixed:
            c = _canon(k, "")
            if c is None:
                continue
            assign = meanings.get(w.lower(), [])
            items.append((k, w, w, c, assign, "fixed"))
        allpats = [p for _, p in pats]
        for k, p in pats:
            for numtxt in req["counts"]:
                s = _instantiate(p, numtxt)
                c = _canon(k, numtxt)
                if s is None or c is None:
                    continue
                # a pattern has one meaning if no OTHER key lists the same pattern text
                assign = [kk for kk, pp in pats if pp == p]
                items.append((k, p, s, c, assign, "pattern"))
        for k, w, s, c, assign, ik in items:
            rec = {"target": name, "tk": kind, "key": k, "word": w, "phrase": s, "canon": c, "assign": assign, "ik": ik, "runs": []}
            for base in req["bases"]:
                o, per, ex = run(kind, name, s, base)
                ek = (c["text"], tuple(base))
                if ek not in en_cache:
                    en_cache[ek] = run("languages", "en", c["text"], base)
                eo, eper, eex = en_cache[ek]
                rec["runs"].append({"base": base, "out": o, "period": per, "exc": ex, "en_out": eo, "en_period": eper, "en_exc": eex})
                if req.get("twice") and base == req["bases"][0]:
                    # the same phrase again, right away, with NORMALIZE off (the phrase is written as listed), then on again:
                    # nothing remembered from one call may serve the next one, whose settings differ
                    for nz in (False, True):
                        o2, per2, ex2 = run(kind, name, s, base, normalize=nz)
                        rec["runs"].append({"base": base, "out": o2, "period": per2, "exc": ex2, "en_out": eo, "en_period": eper, "en_exc": eex, "nz": nz})
            out.append(rec)
    return out
