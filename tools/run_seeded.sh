#!/bin/sh
# Runs every stored seeded change against its property's quick check (in a scratch copy of /repo's packages,
# never in /repo itself) and prints whether the check raises a VIOLATION.   usage: tools/run_seeded.sh [ids...]
cd "$(dirname "$0")/.."
ids=${*:-$(ls seeded)}
for id in $ids; do
  prop=$(python3 -c "import json;print(json.load(open('seeded/$id/meta.json'))['property'])")
  d=$(mktemp -d /dev/shm/seed_XXXXXX)
  cp -r /repo/dateparser /repo/dateparser_data /repo/dateparser_scripts "$d"/
  if (cd "$d" && patch -p1 -s < "$OLDPWD/seeded/$id/patch.diff"); then
    n=$(VERIF_REPO=$d ./check $prop 2>&1 | grep -c '^VIOLATION')
    echo "$id $prop violations=$n $( [ "$n" -gt 0 ] && echo CAUGHT || echo MISSED )"
  else
    echo "$id $prop PATCH-DOES-NOT-APPLY"
  fi
  rm -rf "$d"
done
