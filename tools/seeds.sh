#!/bin/sh
# usage: tools/seeds.sh "C01 C04" "1 2 3" [tier]   -- runs each check under each seed, prints one line each
cd "$(dirname "$0")/.."
for c in $1; do for s in $2; do
  out=$(VERIF_SEED=$s ./check $c --tier ${3:-quick} 2>&1); rc=$?
  echo "$c seed=$s rc=$rc $(echo "$out" | grep -c '^VIOLATION') violations; $(echo "$out" | tail -1 | cut -c1-150)"
done; done
