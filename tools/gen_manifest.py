#!/usr/bin/env python3
"""Regenerates /verif/MANIFEST.json from the table below (kept in one place so that the manifest is
always valid and in step with the checks that exist)."""
import json
import os

VERIF = os.path.dirname(os.path.dirname(os.path.abspath(__file__)))
ALL = ["C%02d" % i for i in range(1, 21)]

# id -> (category, technique, level text, level note, design ref)
CHECKS = {
    "C07": ("model_checking",
            "TLA+ machine of the absolute parser (AbsParser.tla) model-checked against the oracle Reading(order, fields) with TLC; real API calls and probe events validated by TLC trace specs (T_C07.tla)",
            "TLC enumerates every valid date of a year grid x 6 orders x padding x time suffix and checks machine = oracle in every state; stratified + seeded real calls (every order x separator, every language and locale as source of the order) are judged by TLC against the same oracle, and every logged run of the real absolute parser must be a behaviour of the machine (refinement-on-trace). Bounded-exhaustive on the model, sampled on strings.",
            "Trusted: TLC/SANY, CPython datetime, the token projection of harness/lib.py (uses the tree's own tokenizer, itself bound to CharTokens.tla in this check). Domain excludes year-last '-' dates whose year spells a UTC offset.",
            "DESIGN.md 4 C07"),
}
CHECKS.update({
    "C01": ("model_checking",
            "TLA+ machine of the absolute parser model-checked with TLC against the oracle Trunc(d, t, precision) over 14 renderings; real calls (English selected and autodetected, epoch numbers with suffixes, signs and zones) and probe events validated by TLC trace spec T_C01.tla",
            "TLC enumerates every date of a year grid x boundary clock times x microsecond shapes x 14 renderings with all 27 PREFER_* combinations folded into the state and checks machine = Trunc in every state; the same renderings as real strings (every written fraction length 1..6, zero-padded small years, month ends, leap days) and epoch numbers (boundaries 10^9, 2^31, 10^10-1, ms/us suffixes, negative numbers, 10 zones) are judged by TLC against the oracle, and every logged run of the real absolute parser must be a behaviour of the machine.",
            "Trusted: TLC, CPython datetime, pytz for the zone offset at an instant, harness token projection. TIMEZONE='local' is not varied.",
            "DESIGN.md 4 C01"),
    "C08": ("model_checking",
            "TLA+ machines of the absolute parser and of parse_with_formats (Formats.tla) model-checked with TLC against the oracle Complete(parts, preferences, reference); real calls validated by TLC trace spec T_C08.tla",
            "TLC checks machine = Complete for every (y, m) of the constants (thorough: all years 1..9999, i.e. exhaustive for the last-day rule) x 9 preference pairs x reference days incl. 29-31 and Feb 29, for month-year, year-only and full-date inputs, through both parsers; real month-year / year-only / full-date strings in three spellings are judged by TLC against the same oracle (custom-format 'current' preferences against the bracketed system clock); probe events are refinement-checked.",
            "Trusted: TLC, CPython datetime, harness projection; the system clock is read before and after each custom-format call and cases spanning midnight are skipped.",
            "DESIGN.md 4 C08"),
    "C09": ("model_checking",
            "TLA+ machine of _correct_for_time_frame/_correct_for_month/_correct_for_day model-checked with TLC against the oracle of O_C09.tla (nearest occurrence on the demanded side, named parts kept); known-finding signature proved exact on the model; real calls validated by T_C09.tla",
            "TLC checks on every generated state (boundary or all days of the base years x 4 times x 7 weekdays, 12 months, day-month pairs, clock grid, two-digit years x 3 preferences) that the faithful machine satisfies the property or shows exactly the known-finding value (SignatureExact) and that the repaired design satisfies it everywhere; real calls for all five forms (several spellings, 8 zones for the time-only form) are judged by TLC; a failure is a KNOWN-FINDING only if the observed value equals the month-overridden demanded value.",
            "Trusted: TLC, CPython datetime, harness projection. Non-UTC zones for the time-only form: the direction clause alarms only if wrong under both readings of the naive reference. Two-digit-year forms exclude Feb 29.",
            "DESIGN.md 4 C09"),
    "C10": ("model_checking",
            "relational invariants (strict/REQUIRE_PARTS outcomes vs non-strict outcome, two reference times) model-checked with TLC on the TLA+ machine; the same relations checked by TLC (T_C10.tla) on five real runs of every input",
            "TLC enumerates all presence subsets of {day, month, year, weekday, time} x field shapes x 8 REQUIRE_PARTS subsets x 3 orders x reference-time pairs and checks StrictFilters, ClockFree, RequireFilters, RequireClockFree and (for unambiguous spellings) that a strict result needs all parts; every real input (generated partial dates in English and in the other languages' own names, ambiguous numeric forms, custom-format and timestamp inputs) is run five times and TLC checks the relations between the real outcomes; probe events are refinement-checked.",
            "Trusted: TLC, harness projection. Domain: PREFER_DATES_FROM default. 'States all parts' is demanded of the absolute parser on unambiguous spellings only; custom-format/timestamp parsers: relational clauses only.",
            "DESIGN.md 4 C10"),
})
CHECKS.update({
    "C04": ("model_checking",
            "TLA+ machine of the relative parser with dateutil.relativedelta semantics (Freshness.tla) model-checked with TLC against the oracle Rel(b, kw, dir) (single-clamp month arithmetic, then the sub-month part); real English phrases validated by TLC trace spec T_C04.tla, implicit-now form by a bracket oracle",
            "TLC enumerates bases (month ends, leap days, 1st/15th, three clock times) x 8 units x counts (0..5000 grid) x directions x preferences, 2- and 3-unit sums, decimals for sub-day units, time overrides, and checks machine = oracle, truthful period and None outside 0001..9999 in every state; real phrases (several spellings per unit, fixed words, clock-time overrides, bare forms under each preference) with RELATIVE_BASE are judged by TLC against the oracle and the machine; the implicit-now form is run for TIMEZONE/TO_TIMEZONE pairs and bracketed by the clock.",
            "Trusted: TLC, CPython datetime, the UTC clock read around each implicit-now call; zones without DST only for the implicit-now form. Bare phrases whose value is out of range are outside the domain (they fall through to the absolute parser).",
            "DESIGN.md 4 C04"),
})
CHECKS.update({
    "C19": ("fault_enumeration",
            "fault enumeration on a private copy of the package (prefix lengths of the shipped cache, missing file, unreadable bytes, kill points inside the writer, a second importer during the first one's write, real subprocess imports); every recorded loader execution validated by TLC against the TLA+ specification TzCache.tla (T_C19.tla); TzCache model-checked with the catch set measured on the real loader",
            "Quick enumerates about 1.9k prefix lengths (all of the first/last 256 bytes, every 128th, 300 random), thorough every 4th byte plus 5000 random; each is followed by a second load that must find a complete cache (judged by content). Kill points after each write call of the rewrite, two-importer overlaps at each write point followed by a third import, and real `import dateparser` subprocesses are added. TLC validates each recorded step sequence (open_r, load(cls), rebuild, open_w, write, close, crash) as a behaviour of TzCache with the invariants ImportSucceeds / SameTable / RepairedAfterImport evaluated in every state, and model-checks TzCache (1 crasher, 2 overlapping importers, 1 late importer, all interleavings, liveness under weak fairness) with the measured catch set.",
            "Trusted: TLC, pickle, the probes around open/pickle in timezone_parser (installed at run time), content-based judgement of completeness. A simulated kill raises out of write(); kernel-level partial writes are represented by the prefix enumeration. Overlapping in-place writers may leave a mixed file, which the next import repairs (documented observation, outside the stated quantifier).",
            "DESIGN.md 4 C19"),
})
CHECKS.update({
    "C03": ("model_checking",
            "TLA+ specification of the process-wide shared state (SharedState.tla: settings registry with in-place re-initialisation, DATE_ORDER save/overwrite/restore, RELATIVE_BASE written by search, class-level caches with FIFO eviction, live parser instances) model-checked with TLC over all call histories up to a bound; TLC-generated behaviours and directed histories replayed in fresh interpreters; every recorded history validated by TLC (T_C03.tla)",
            "TLC explores every history of up to 4 (thorough 5) calls over the pool (4 settings keys with cache limits 1/2/1000, 3 locales with DMY / MDY / no own order, 2 live instances, parse / new / get / search, numeric / relative / unparsable strings) and checks HistoryFree, NoCacheKeyError, DefaultsUnaffected; the pinned design is run too and must be refuted. Behaviours generated by TLC's simulator plus directed histories are replayed, each in a fresh interpreter; each call's outcome is compared with the same call's outcome in a fresh process under several hash seeds, and TLC validates every recorded history step by step (outcome class, cache order, DATE_ORDER/RELATIVE_BASE fields) against the actions of SharedState.",
            "Trusted: TLC, the state projection of harness/c03drv.py (reads Settings' registry and the Dictionary class caches by name). The pool is small by design (small-scope hypothesis); strings outside the three classes and settings outside the pool are covered only through the other checks.",
            "DESIGN.md 4 C03"),
})
CHECKS.update({
    "C20": ("model_checking",
            "TLA+ specification of two threads stepping through the shared-state accesses of a call (SharedState2.tla) model-checked with TLC under the single-preemption constraint and for all interleavings; systematic single-preemption schedule exploration of the real code with sys.settrace; every explored schedule validated by TLC (T_C20.tla)",
            "TLC checks Linearizable and MutualExclusion for all pairs of call kinds (numeric date with en / fr / tl under the default or a non-default settings object, relative word, search) under OnePreempt and under all interleavings; the unlocked design is run too and must be refuted. On the real code, for both orders of 14 pool pairs (same configuration, settings differing in irrelevant keys, differing language / date order, SKIP_TOKENS, NORMALIZE, cache limits with cold caches, search vs relative, live DateDataParser instances, calendar parsers), A is suspended at an executed library line, B is run to completion and A resumed: quick explores the lines of the functions touching shared state plus a seeded sample (about 4.4k schedules), thorough every line; results are compared with the sequential ones and TLC checks the lock discipline recorded at every preemption point.",
            "Trusted: TLC, CPython's sys.settrace line events as preemption points (finer preemption inside one line is not explored), RLock._is_owned for the lock observation. Single preemption only, two threads.",
            "DESIGN.md 4 C20"),
})
CHECKS.update({
    "C11": ("exploration",
            "exhaustive walk over the loaded timezone table (exported from the tree) through the public API; first-match semantics of pop_tz_offset_from_string specified in TLA+ (Timezone.tla, PopTz) and decided by TLC (T_C11.tla) on the exported match relation and on every real call",
            "Every supported UTC offset x 8 spellings x both signs, every abbreviation in upper and lower case, three date-time bodies and five positions (end of string, attached to the last digit, in parentheses, before a parenthesised abbreviation in the JavaScript shape, before the year in the date(1) shape), English selected and autodetected: about 7.8k calls in quick. TLC checks for every spelling that the first matching row of the ordered table carries the entry's own offset (no shadowing) and for every call: aware result, exact offset, wall clock as written, pickle/copy/deepcopy round trip; strings without a zone must stay naive.",
            "Trusted: TLC, the regex engine as exporter of the match relation, the loaded table as its own oracle for offsets (C16 ties it to the sources). LMT (listed with four offsets) is outside the domain.",
            "DESIGN.md 4 C11"),
})
CHECKS.update({
    "C12": ("model_checking",
            "TLA+ pipelines of the four parsers' localize / convert / strip steps (Timezone.tla) model-checked with TLC against the oracle (same instant, wall clock of the target zone, awareness per setting); real calls over pairs of IANA zones and library offsets validated by TLC (T_C12.tla) with pytz as the source of zone offsets",
            "TLC checks machine = oracle over an offset grid (whole, half-hour, 45-minute, date-line zones) x boundary wall clocks x own-zone yes/no x TO_TIMEZONE yes/no x 3 awareness settings x 4 parsers. Real calls: every zone of pytz.common_timezones appears at least once as TIMEZONE and as TO_TIMEZONE, further pairs are seeded (quick 20k, thorough 190k calls), library offsets and abbreviations on either side, strings with their own offset, local datetimes 1950..2037 incl. times next to DST transitions, gaps and folds excluded; TLC judges instant, wall clock and awareness of every call and checks that the modelled pipeline reproduces the observed value.",
            "Trusted: TLC, pytz (reference for zone offsets, per the statement), CPython datetime. Library abbreviations that are also IANA names are not used as settings values; TIMEZONE='local' is not varied.",
            "DESIGN.md 4 C12"),
})
CHECKS.update({
    "C15": ("model_checking",
            "TLA+ machine of the calendar parsers (CalParsers.tla: the absolute parser's token loop with the non-Gregorian acceptance and hand-off rules) validated by TLC against every real call; reference conversions from convertdate.persian / hijridate",
            "Quick: every month start / end (incl. leap-year Esfand 30) and a seeded day of 25 Jalali years and of all Hijri years 1343..1500, numeric spellings in three orders, every listed Persian month name, weekday names, spelled-out days, Persian digits, with and without a clock time (about 7.5k calls); thorough: every Jalali date of 1200..1500 on a 5-year grid plus boundary days of every year, every Hijri date. TLC judges each result against the reference conversion of the written date and checks that the machine reads the written (y, m, d) from the latinised tokens and reproduces the observed value.",
            "Trusted: TLC, convertdate.persian and hijridate as reference conversions (per the statement), the token projection using the parser's own tables. Numeric spellings follow the module default order MDY.",
            "DESIGN.md 4 C15"),
})
CHECKS.update({
    "C13": ("model_checking",
            "TLA+ specification of the locale loop (Pipeline.tla: requested locales with applicability test in priority or given order, then DEFAULT_LANGUAGES without the test) model-checked with TLC over all abstractions of up to 4+2 languages; real single-language, multi-language, default-language, autodetected and region/locale runs related by TLC (T_C13.tla)",
            "TLC checks on every assignment of (applicable, parses, result) to up to four requested and two default languages that the loop reports a selected locale, returns the first successful language's result and that defaults never override. On the real code, strings in every language (month names, weekday names, relative phrases, ambiguous numeric dates) are parsed with sampled language lists (with / without the string's language, shuffled, given order on / off), every language is paired with en / fr / ja in both list orders on ambiguous numeric dates, DEFAULT_LANGUAGES lists are added, autodetected results are re-parsed with the reported locale and languages+region is compared with the locale code; TLC derives the expected multi-language result from the recorded single-language results.",
            "Trusted: TLC, the exported language_order as the library's priority order; the independence of a language's outcome from the other languages in the list is C03's subject.",
            "DESIGN.md 4 C13"),
})
CHECKS.update({
    "C02": ("exploration",
            "model-guided exploration: strings built along the token alphabets of the TLA+ specification, mutated real date strings, soups and arbitrary Unicode x valid settings pool with boundary values x language/locale/region choices x date_formats, plus invalid settings x arbitrary strings; every recorded call judged by TLC (T_C02.tla); the exception flow of the pipeline (stages, may-raise and catch sets, Pipeline.tla / P_C02.tla) model-checked with TLC",
            "TLC checks on the exception-flow model that only documented classes can escape and that an invalid setting is rejected before any stage looks at the string (the pinned handlers are run too and must be refuted). Quick executes about 20k generated calls (thorough 1M) through dateparser.parse and DateDataParser.get_date_data with 40 (120) settings dicts covering every documented key and reference times at both ends of the datetime range, naive and aware, plus directed boundary inputs; TLC checks for valid arguments that no exception escapes, the period is one of the five and nothing recognised means date_obj and locale both None, and for each of 30 invalid settings that SettingValidationError / TypeError is raised whatever the string is.",
            "The quantifier over all strings is explored, not exhausted. Timezone names are drawn from the resolvable ones; languages, locales and formats are valid in the valid cases.",
            "DESIGN.md 4 C02"),
})
CHECKS.update({
    "C05": ("exploration",
            "exhaustive walk over the vocabulary exported from the tree (every month / weekday name of every language and regional locale, NORMALIZE on and off) through the public API; domain (single meaning) and expected value decided by TLC on the ordered-override model of the dictionary (Vocabulary.tla / T_C05.tla), whose predicted dictionary value is also compared with the real dictionary's",
            "All 205 languages and 299 locales, about 15k (locale, name) pairs: 'D <name> YYYY' probes and weekday-alone probes at reference days 8..24, both NORMALIZE values (quick: 3 days, 1 year, 3 reference days, locales without names of their own sampled; thorough: 28 days, 2 years, 17 reference days). TLC decides for each probe whether the name has a single meaning under the dictionary-construction model, what date is demanded, and whether the model's last-write-wins value equals the dictionary the code built. The 36 failing (language, word) pairs of the unchanged tree are listed individually as known findings.",
            "Trusted: TLC, the projection of the vocabulary (lower-casing, NFKD, the conflict rule of NormalizedDictionary are computed in Python with the tree's own helpers). The data files are their own oracle for which key a word is listed under (C16 ties them to the sources).",
            "DESIGN.md 4 C05"),
    "C06": ("exploration",
            "exhaustive walk over every fixed relative phrase and every instantiable counted pattern of every language and locale; each result compared by TLC (T_C06.tla) with the real result of the canonical English expression and with the value the relative-parser specification (Freshness.tla, bound by C04) assigns to the canonical key",
            "All languages and locales: about 3.4k fixed phrases and the counted patterns of the shape 'text + one number group' instantiated with counts {1, 2, 11} (thorough {0,1,2,3,11,45,120,1.5,2,5}) at a month-end reference time (thorough 3 reference times incl. Feb 29): about 43k probes in quick. TLC decides the domain (phrase listed under one key) and both comparisons. The 27 failing (language, phrase) pairs of the unchanged tree are listed individually as known findings.",
            "Trusted: TLC, the pattern instantiation (optional letters dropped, \\s* as nothing), the canonical-key parser of the harness. Patterns with further regex syntax are outside the domain.",
            "DESIGN.md 4 C06"),
    "C14": ("model_checking",
            "TLA+ machine of parse_with_formats (Formats.tla) model-checked with TLC against the oracle of O_C14.tla over all subsets of stated parts; a family of 41 formats rendered with English names and with every language's single-meaning names, judged by TLC (T_C14.tla) with a bracketed clock",
            "TLC checks machine = oracle for every subset of {year, month, day, time} x dates x 9 preference pairs x clock dates (733k states). Real calls: 41 formats (numeric, named, 12h/24h, %f, two-digit years, partial and year-less formats) x seeded datetimes 1900..2100 with English names, and %B / %A formats with the first single-meaning name of every language; the raw-match precedence clause is part of the oracle (a foreign word that is also an English name is read as English). Failures on words that are C05 findings are listed as C14 findings.",
            "Trusted: TLC, CPython strptime as the raw reading, the system clock bracketed around each call. Localized names are checked with full-name directives only: the library translates every localized name to the full English name, so %b / %a formats with localized names are served by the heuristic fallback (documented observation).",
            "DESIGN.md 4 C14"),
})
CHECKS.update({
    "C18": ("model_checking",
            "TLA+ transcription of sanitize_date / sanitize_spaces on character-class strings (Sanitize.tla) model-checked with TLC over every class string up to length 6 (thorough 7); real strings x whitespace rewritings x every Unicode decimal-digit block compared by TLC (T_C18.tla), which also checks that the real sanitiser commutes with the class abstraction",
            "TLC checks on every class string that each rewriting of the fixed family (pad, double, tab, newline, NBSP, mixed runs, trailing colon) of a clean string sanitises back to it and that the sanitiser commutes with the digit-script substitution; the pinned period rule is run too and must be refuted. On the real code, English forms (incl. decimals and period-separated clock times) and a dated string in every language are parsed in 10 whitespace rewritings and with their digits replaced by each Unicode Nd block (quick: a seeded subset plus Arabic-Indic, Persian, Tibetan, full-width); TLC checks result equality and the refinement of the sanitiser.",
            "Trusted: TLC, the class abstraction of harness/lib.py, unicodedata for the digit blocks. The statement's corpus is represented by generated strings per language.",
            "DESIGN.md 4 C18"),
})
CHECKS.update({
    "C17": ("exploration",
            "model-guided exploration of search_dates over texts assembled from every language's own vocabulary, numeric dates, filler prose and mutated punctuation; every recorded call judged by TLC (T_C17.tla); the chunking loop of translate_search with its lookahead (Search.tla / P_C17.tla) model-checked with TLC for index safety",
            "TLC explores every abstract token sequence up to length 3 (thorough 4) x locale classes and checks that the lookahead never indexes beyond the sentence (the pinned loop is run too and must be refuted). Quick runs about 8k real calls: each of the 205 languages explicitly with 30 texts (every bare date word of the language as a text of its own, then assembled texts up to 300 characters with a date word at the very end of a sentence in half of them), 1.5k autodetected / multi-language texts and 300 arbitrary strings, with and without RELATIVE_BASE and add_detected_language; TLC checks: no exception, None or a non-empty list of (substring, datetime) pairs, substrings non-blank, found in the text up to whitespace, in text order, one reported language among the requested ones.",
            "The quantifier over all texts is explored, not exhausted. Positions are computed by the projection (whitespace-insensitive, case-insensitive search).",
            "DESIGN.md 4 C17"),
})
CHECKS.update({
    "C16": ("translation_validation",
            "three-way translation validation: the repository's own generator (run on a YAML-subset reader) vs the shipped bytes; the TLA+ transcription of the generator and of the timezone-table builder (DataBuild.tla) evaluated by TLC on the exported sources vs the shipped structures (T_C16.tla); canonical-rendering check tying structure equality to byte equality",
            "All 205 language modules: generator output = shipped bytes; TLC's Generate(CLDR, supplementary, base) = shipped structure (ordered dictionaries, list concatenation, recursive merge, scalar override, appended keys, the name default, the {0} placeholder rewrite); every module is 'info = ' + the generator's JSON rendering of its own content. Timezone table: TLC rebuilds all 773 rows in build order (group, pattern, timezone, replacement) from the source structure and compares names, pattern texts and offsets row by row with the table unpickled from the shipped cache before the package is imported; pattern flags and both search regexes are compared too. Index: language_order, language_locale_dict and language_map list exactly the modules and exactly the locales each module defines.",
            "Trusted: TLC, the regex engine for pattern texts after %-substitution / re.sub, json for rendering. The YAML-subset reader is validated by the byte-for-byte reproduction itself.",
            "DESIGN.md 4 C16"),
})
NOT_YET = {}
# dimensions added to the generators after the rounds of independently written breaking changes (DESIGN.md 0.5)
ADDED = {
    "C01": "Also: every tz-database name as TIMEZONE for epoch numbers; wall times in DST gaps / folds under TIMEZONE; complete dates on the reference date / on today's date under every PREFER_DATES_FROM. Round 6: process histories of neighbouring calls (other clock spellings, zone-bearing strings, relative phrases, failing strings, other languages). Round 7: coincidences between the fields of one string (fraction = year / month-day / clock ...).",
    "C02": "Also: near-miss invalid values; every settings key x value of every type class and 2-3-entry dicts judged by Validate.tla (P_Validate laws); live-parser / look-alike-settings mini-histories; strings shaped for each parser's entry regex with look-alike signs, colons, digits and case-folding look-alike letters; refinement of the parser loop (Pipeline.tla) on every probed call. Round 6: strings rendered from generated formats (so that they match, %z / %Z included), every kind of TIMEZONE / TO_TIMEZONE value the library resolves; the other arguments (languages, locales, region, booleans, date string, formats) with values of every type class, judged by Validate.tla ArgsVerdict. Round 7: zone near-miss words in the string generator.",
    "C03": "Also: settings-neighbour, locale-sibling (any load order), locale-switch, region=, caller-held-object (detection callback, list edited in place) histories. Round 7: language lists with a repeated code, every distinct call under several interpreter hash seeds. Round 9: settings dicts the caller keeps, edits in place and passes again, followed by fresh equal dicts from another caller.",
    "C04": "Also: range ends; several units with a clock time; seconds and fractions in clock times; a third of the cases on parsers all built before use; implicit now with the library's clock moved to clamping days. Round 6: process histories with equal settings (one RELATIVE_BASE object per value and process). Round 7: decimal counts inside multi-unit phrases; Periods.tla (get_intersecting_periods / date_range) bound here as a refinement.",
    "C05": "Also: vocabulary taken from pristine data with a model-side overlay; regional locales loaded first in fresh processes; search_dates reaching a language first under the same settings; domain = the name as listed (normalisation collisions are findings). Round 6: the listed name's look-alikes (accents removed, other case) on the same parser right before the name.",
    "C06": "Also: wide counts (year-like, day-like, leading zero); the same phrase again under the other NORMALIZE value. Round 6: decimal counts with short and long fractions in both tiers.",
    "C07": "Also: failing calls interleaved; pre-built parsers incl. settings with equal effective values and different explicit keys; weekday words next to numeric dates. Round 6: every written form of the time suffix (ISO T, fraction, Z, numeric offsets); year-last dates whose year spells a UTC offset are judged (known finding). Round 7: the parser used through a pickled / copied copy (fresh interpreters). Round 8: the character scanner in front of the token machine (CharTokens.tla: the loop of parser.py's tokenizer and the token lists of _parser.__init__, 32 k states quick / 2.6 M thorough) is no longer trusted: ~5.5 k strings (exhaustive short strings, class pairs, date fragments, the strings that really reach the scanner in 200+ languages) go through the real scanner and constructor and TLC (T_CharTokens) compares every list; the trusted token projection now rests on a specified scanner.",
    "C08": "Also: decoy formats around the format under test; explicit / locale / region date orders for named-month dates; timezone-aware references near midnight; custom-format cases with the library's clock on days 28-31. Round 6: bystander settings (a REQUIRE_PARTS the string meets, defaults spelled out). Round 7: settings as Settings objects (one and two replace steps) or a dict emptied after construction.",
    "C09": "Also: zones with daylight saving around their transitions (time of day preserved); no RELATIVE_BASE with the live clock bracketed in workers far from UTC. Round 6: clock times that carry their own zone under every TIMEZONE. Round 7: timezone-aware references (calendar-field forms, and clock times under the reference's own DST zone: repaired by 990bda8); a parser for the same instant in another zone built next to each of them. Round 9: day + month WITH a clock time (form daymonthtime: oracle, E1 model, replay with times earlier / equal / later than the reference's on its own day).",
    "C10": "Also: every preference next to strictness; timezone-aware references of two offsets with results observed as instants. Round 6: fully stated four-digit-year dates in every order of writing x reading x preference; strings with two date tokens under every order (known finding). Round 8: STRICT_PARSING switched on next to every REQUIRE_PARTS subset in ONE call (two more runs per input, two reference times): still only filters, still clock-free, still states every part (T_C10 clauses, outSR = outS in P_C10).",
    "C11": "Also: month-name bodies; the numeric spelling after the bare abbreviation in the same process; clock-time-only bodies with a zone under every preference. Round 6: English selected but not first among the languages; bodies in other space-separated languages with autodetection.",
    "C12": "Also: every (zone, own tzname also listed by the library) pair; a sample re-run in workers whose zone is far from UTC; timezone-aware reference times for relative phrases. Round 6: settings given as a Settings object / as a dict emptied after construction; relative phrases that move the reference across DST changes. Round 7: histories whose reference is the same instant written in another zone.",
    "C13": "Also: selections as locales=; order-specific numeric strings and tl as pairing reference; conventions of regional locales after same-language history in fresh processes; try_previous_locales pairs; Tokenize.tla / Translate.tla (split, applicability, translation: model laws, exhaustive small domain through the real Dictionary class, probes in 205 languages) and LoaderOps.tla / Loader.tla (pairing, order, cache; pinned pairing refuted; probe replay) are bound here. Round 6: the selected locale's date order reaches every parser (relation to the explicitly stated order, all five parsers). Round 7: the fallback order judged against each default language alone; the other use_given_order value first with the same settings and lists; caller-held lists compared afterwards.",
    "C14": "Also: ~600 generated formats of distinct directives (English) and generated formats for localized names; every listed name variant of every language; decoy formats; RELATIVE_BASE given (and irrelevant); the library's clock on month ends / leap days. Round 6: formats that begin / end with literal whitespace.",
    "C15": "Also: fractions of a second; the library's clock moved to the 30th / 31st of calendar months, month ends, leap days.",
    "C16": "Also: the generator run for real on a private copy (written files = shipped files). Round 6: the YAML-subset reader rejects duplicate keys as ruamel does.",
    "C17": "Also: connective words between date pieces; invisible characters inside texts; the same text re-cased right after the original; substrings must occur in their own letter case; refinement of the language choice (Detect.tla) and of the chunking loop (SearchChunks.tla). Round 6: enumerations joined by each of the library's cut marks in every language; refinement of split_by / choose_best_split / set_relative_base (SearchSplit.tla) and of the word alignment (Align.tla: laws model-checked, observed calls and an exhaustive small domain through the real method validated). Round 7: skip / pertain words at line ends; blank leftovers of non-ASCII whitespace (repaired by aaa6c4d).",
    "C18": "Also: letter-ending strings and the sanitiser's special forms; number shapes of every parser; rewritings combined with date_formats. Round 6: whitespace by the hundreds of characters. Round 8: two rewritings one after the other (trailing colon, then padding), strings that already end in a colon, the language-specific forms of sanitize_date under language detection; Sanitize.tla models both trim rules and the Croatian dotted-date rule (class U) with their pinned patterns as refutable constants (ComposedInvariant, PadInvariant over ALL strings, CroatInvariant); three repairs of /repo came out of it.",
    "C19": "Also: well-formed pickles of the wrong shape; imports under BUILD_TZ_CACHE and PYTHONOPTIMIZE. Round 6: imports with warnings turned into errors.",
    "C20": "Also: get_date_tuple in the call pool; the same exploration inside a forked child. Round 6: search_dates with the detected language reported; every preemption point outside the library's lock, explored first.",
}

def main():
    checks = []
    for pid in ALL:
        if pid not in CHECKS:
            continue
        cat, tech, text, note, ref = CHECKS[pid]
        checks.append({
            "property_id": pid,
            "quick_cmd": "./check %s --tier quick" % pid,
            "thorough_cmd": "./check %s --tier thorough" % pid,
            "evidence_file": "evidence/%s.json" % pid,
            "replay_cmd_template": "./check %s --replay {path}" % pid,
            "engine": "tlc+replay",
            "level_claimed": {"category": cat, "text": text + (" " + ADDED[pid] if pid in ADDED else ""), "design_ref": ref + " and 0.5"},
            "level_note": note,
            "technique": tech,
        })
    na = [{"property_id": pid, "reason": NOT_YET.get(pid, "check under construction in this session: the TLA+ module for it is not yet bound to the code; no claim is made until its check runs clean on the unchanged tree")}
          for pid in ALL if pid not in CHECKS]
    man = {
        "version": 1,
        "setup_cmd": "./setup.sh",
        "hooks": {
            "guard": "DATEPARSER_VERIF",
            "enable": "no source hooks: the checks observe the library at run time (monkey-patched probes installed by the harness inside worker processes that import a per-run snapshot of /repo's working tree)",
            "baseline_off_cmd": "cd /repo && /venv/bin/python -m pytest -ra -q -p no:cacheprovider --timeout=900 --continue-on-collection-errors",
            "source_commits": [],
            "add_only": True,
        },
        "engines": [
            {"name": "tlc", "path": "spec/", "serves_properties": sorted(CHECKS), "kind_free_text": "explicit TLA+ specification checked with TLC 1.8 (E1 design-level model checking; E3 batch trace validation of recorded executions)"},
            {"name": "replay", "path": "harness/", "serves_properties": sorted(CHECKS), "kind_free_text": "spec->code replay: model-chosen cases executed through the public API of a snapshot of /repo in worker processes, outcomes projected to the spec's abstract values"},
        ],
        "checks": checks,
        "not_applicable": na,
        "notes": "All checks: ./check <id> [--tier quick|thorough] [--replay PATH]; VERIF_SEED / VERIF_TIER honoured; VERIF_REPO overrides /repo (used to run the checks against scratch worktrees holding seeded changes).",
    }
    if not na:
        del man["not_applicable"]
    with open(os.path.join(VERIF, "MANIFEST.json"), "w") as f:
        json.dump(man, f, indent=1)
        f.write("\n")

if __name__ == "__main__":
    main()
