#!/usr/bin/env python3
"""Regenerates /verif/MANIFEST.json from the table below (kept in one place so that the manifest is
always valid and in step with the checks that exist)."""
import json
import os

VERIF = os.path.dirname(os.path.dirname(os.path.abspath(__file__)))
ALL = ["C%02d" % i for i in range(1, 21)]

# id -> (category, technique, level text, level note, design ref)
CHECKS = {
    "C07": ("model_checking",
            "TLA+ machine of the absolute parser (AbsParser.tla) model-checked against the oracle Reading(order, fields) with TLC; real API calls and probe events validated by TLC trace specs (T_C07.tla)",
            "TLC enumerates every valid date of a year grid x 6 orders x padding x time suffix and checks machine = oracle in every state; stratified + seeded real calls (every order x separator, every language and locale as source of the order) are judged by TLC against the same oracle, and every logged run of the real absolute parser must be a behaviour of the machine (refinement-on-trace). Bounded-exhaustive on the model, sampled on strings.",
            "Trusted: TLC/SANY, CPython datetime, the token projection of harness/lib.py (uses the tree's own tokenizer). Domain excludes year-last '-' dates whose year spells a UTC offset.",
            "DESIGN.md 4 C07"),
}
NOT_YET = {}

def main():
    checks = []
    for pid in ALL:
        if pid not in CHECKS:
            continue
        cat, tech, text, note, ref = CHECKS[pid]
        checks.append({
            "property_id": pid,
            "quick_cmd": "./check %s --tier quick" % pid,
            "thorough_cmd": "./check %s --tier thorough" % pid,
            "evidence_file": "evidence/%s.json" % pid,
            "replay_cmd_template": "./check %s --replay {path}" % pid,
            "engine": "tlc+replay",
            "level_claimed": {"category": cat, "text": text, "design_ref": ref},
            "level_note": note,
            "technique": tech,
        })
    na = [{"property_id": pid, "reason": NOT_YET.get(pid, "check under construction in this session: the TLA+ module for it is not yet bound to the code; no claim is made until its check runs clean on the unchanged tree")}
          for pid in ALL if pid not in CHECKS]
    man = {
        "version": 1,
        "setup_cmd": "./setup.sh",
        "hooks": {
            "guard": "DATEPARSER_VERIF",
            "enable": "no source hooks: the checks observe the library at run time (monkey-patched probes installed by the harness inside worker processes that import a per-run snapshot of /repo's working tree)",
            "baseline_off_cmd": "cd /repo && /venv/bin/python -m pytest -ra -q -p no:cacheprovider --timeout=900 --continue-on-collection-errors",
            "source_commits": [],
            "add_only": True,
        },
        "engines": [
            {"name": "tlc", "path": "spec/", "serves_properties": sorted(CHECKS), "kind_free_text": "explicit TLA+ specification checked with TLC 1.8 (E1 design-level model checking; E3 batch trace validation of recorded executions)"},
            {"name": "replay", "path": "harness/", "serves_properties": sorted(CHECKS), "kind_free_text": "spec->code replay: model-chosen cases executed through the public API of a snapshot of /repo in worker processes, outcomes projected to the spec's abstract values"},
        ],
        "checks": checks,
        "not_applicable": na,
        "notes": "All checks: ./check <id> [--tier quick|thorough] [--replay PATH]; VERIF_SEED / VERIF_TIER honoured; VERIF_REPO overrides /repo (used to run the checks against scratch worktrees holding seeded changes).",
    }
    if not na:
        del man["not_applicable"]
    with open(os.path.join(VERIF, "MANIFEST.json"), "w") as f:
        json.dump(man, f, indent=1)
        f.write("\n")

if __name__ == "__main__":
    main()
