#!/bin/sh
# usage: tools/seed_round.sh <round-letter> <property>   e.g. H C10: verify + store the change of /tmp/wt_H_C10, then run the
# property's quick check against that worktree; logs in /dev/shm/keep<R>_<prop>.log and /dev/shm/chk<R>_<prop>.log
r=$1; p=$2
cd "$(dirname "$0")/.."
tools/seed_keep.sh $r-$p /tmp/wt_${r}_$p $p > /dev/shm/keep${r}_$p.log 2>&1
VERIF_REPO=/tmp/wt_${r}_$p ./check $p > /dev/shm/chk${r}_$p.log 2>&1
echo "rc=$? done" >> /dev/shm/chk${r}_$p.log
