#!/bin/sh
# usage: tools/seed_keep.sh <seed-id> <worktree> <property> -- verifies a seeded change (demo fails with it, passes
# without it, suite summary unchanged) and stores it under /verif/seeded/<seed-id>/
set -u
id=$1; wt=$2; prop=$3
cd "$wt" || exit 2
git diff -- dateparser dateparser_data dateparser_scripts > /tmp/seed_$id.diff
[ -s /tmp/seed_$id.diff ] || { echo "no diff"; exit 2; }
PYTHONPATH=$wt /venv/bin/python demo.py > /tmp/seed_$id.with 2>&1; with=$?
# (not `git stash`: the stash is shared by all worktrees of a repository, concurrent runs would swap their changes)
git apply -R /tmp/seed_$id.diff || { echo "cannot reverse"; exit 2; }
PYTHONPATH=$wt /venv/bin/python demo.py > /tmp/seed_$id.without 2>&1; without=$?
git apply /tmp/seed_$id.diff || { echo "cannot re-apply"; exit 2; }
suite=$(PYTHONPATH=$wt /venv/bin/python -m pytest -q -p no:cacheprovider --timeout=900 --continue-on-collection-errors 2>&1 | tail -1)
echo "$id demo_with=$with demo_without=$without suite: $suite"
if [ $with -ne 0 ] && [ $without -eq 0 ] && echo "$suite" | grep -q "5 failed, 23933 passed, 16 skipped, 1 error"; then
  mkdir -p /verif/seeded/$id && cp /tmp/seed_$id.diff /verif/seeded/$id/patch.diff && cp demo.py /verif/seeded/$id/demo.py
  echo "$suite" > /verif/seeded/$id/suite_with_change.txt
  echo "KEPT $id"
else
  echo "REJECTED $id"
fi
