#!/bin/sh
# Diagnostic (not a check): line / branch coverage of the dateparser package reached by the worker processes of the quick
# checks.  usage: tools/coverage.sh "C01 C02 ..."   -> report in /dev/shm/verif_cov/report.txt
cd "$(dirname "$0")/.."
D=/dev/shm/verif_cov; rm -rf $D; mkdir -p $D
for c in ${1:-C01 C02 C04 C05 C06 C07 C08 C09 C10 C11 C12 C13 C14 C15 C17 C18}; do
  VERIF_COVERAGE_DIR=$D ./check $c > $D/$c.log 2>&1; echo "$c rc=$? $(tail -1 $D/$c.log | cut -c1-100)"
done
cd $D && /venv/bin/python - <<'PY'
import coverage, glob, os, re, collections
cov = coverage.Coverage(data_file='/dev/shm/verif_cov/cov'); cov.combine(glob.glob('/dev/shm/verif_cov/cov.*'), keep=True)
data = cov.get_data()
# snapshots differ per run: merge by path relative to .../dateparser/
lines = collections.defaultdict(set)
for f in data.measured_files():
    rel = f[f.rindex('/dateparser/') + 1:]
    lines[rel] |= set(data.lines(f) or [])
import ast, sys
root = '/repo/'
out = []
tot_e = tot_m = 0
for rel in sorted(lines):
    src = open(root + rel).read()
    if not src.strip():
        continue
    from coverage.python import PythonParser
    p = PythonParser(text=src); p.parse_source()
    stm = p.statements
    miss = sorted(stm - lines[rel])
    tot_e += len(stm); tot_m += len(miss)
    out.append('%-45s %4d stmts %4d missed  %s' % (rel, len(stm), len(miss), ','.join(map(str, miss))[:400]))
out.append('TOTAL %d statements, %d missed (%.1f%% reached)' % (tot_e, tot_m, 100.0 * (tot_e - tot_m) / max(1, tot_e)))
open('/dev/shm/verif_cov/report.txt', 'w').write('\n'.join(out) + '\n')
print(out[-1])
PY
