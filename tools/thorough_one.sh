#!/bin/sh
# usage: tools/thorough_one.sh <property> [seed] -- runs the thorough tier once and keeps the last 60 lines of output
cd "$(dirname "$0")/.."
VERIF_SEED=${2:-3} ./check $1 --tier thorough 2>&1 | tail -60 | cut -c1-600
